//! C17 correspondence: full-text search returns exactly the rows whose current text matches.
//! Histories of creations, updates of one or both text fields (also to null), deletions and pulls on
//! 1-3 real instances; after every step the touched peer dumps its rows and answers a search for
//! every token of past and current texts.  One case per peer (its view of the history).
//! Model: coq/model/Fts.v (run_C17); oracle: spec_C17 (substring test on the rows read back).
#[path = "sync_common/mod.rs"]
mod sync_common;
use discret::verif_hooks::database::Error as DbError;
use discret::verif_hooks::date_utils::verif_clock;
use discret::verif_hooks::security::Uid;
use discret::{Parameters, ParametersAdd};
use serde_json::json;
use std::collections::{BTreeSet, HashMap};
use sync_common::*;
use vharness::common::*;

#[derive(Clone, Debug, PartialEq)]
struct Row { id: u64, rowid: i64, mdate: i64, a: Option<String>, b: Option<String> }

fn gtext(s: &str) -> String { glist(&s.bytes().map(|c| gn(c as u64)).collect::<Vec<_>>()) }
fn gotext(s: &Option<String>) -> String { match s { Some(t) => format!("(Some {})", gtext(t)), None => "None".to_string() } }
fn push_text(obs: &mut Vec<i64>, s: &str) { obs.push(s.len() as i64); for c in s.bytes() { obs.push(c as i64); } }

struct View { base_rowid: i64, n0: i64, t0: i64, ops: Vec<String>, obs: Vec<i64>, checks: usize, mism: usize, errs: usize, synced: usize }

/// the indexed entity of a history: Doc (a mandatory, b nullable), Note (both nullable), Memo (one nullable field)
#[derive(Clone, Copy, Debug, PartialEq)]
enum Ent { Doc, Note, Memo }
impl Ent {
    fn short(&self) -> &'static str { match self { Ent::Doc => "Doc", Ent::Note => "Note", Ent::Memo => "Memo" } }
    fn name(&self) -> &'static str { match self { Ent::Doc => "ns.Doc", Ent::Note => "ns.Note", Ent::Memo => "ns.Memo" } }
    fn a_nullable(&self) -> bool { !matches!(self, Ent::Doc) }
    fn has_b(&self) -> bool { !matches!(self, Ent::Memo) }
}

/// the instance caches parsed mutations by their text and does not drop the cache when the data model
/// changes: every history, and every model version inside it, uses its own alias so that its mutations
/// are parsed under the model version in force
static EPOCH: std::sync::atomic::AtomicU64 = std::sync::atomic::AtomicU64::new(0);
fn next_epoch() -> u64 { EPOCH.fetch_add(1, std::sync::atomic::Ordering::SeqCst) + 1 }

struct Hist<'a> {
    net: &'a Net,
    epoch: u64,
    ent: Ent,
    /// a second room with the same rights (local histories move rows there and back)
    room2: Uid,
    in_room2: std::collections::HashSet<u64>,
    /// the entity is currently declared with no_full_text_index (a later model version)
    declared_off: bool,
    ref_seq: u64,
    tokens: Vec<String>,
    room: Uid,
    n: usize,
    ids: Vec<Uid>,
    views: Vec<View>,
    words: BTreeSet<String>,
    t: i64,
    seen_max: &'a mut Vec<i64>,
}

impl<'a> Hist<'a> {
    async fn new(net: &'a Net, n: usize, ent: Ent, seen_max: &'a mut Vec<i64>) -> Hist<'a> {
        let room = net.create_room(T0 - 30 * DAY, &["ns.Doc", "ns.Plain", "ns.Note", "ns.Memo"]).await;
        let room2 = net.create_room(T0 - 30 * DAY, &["ns.Doc", "ns.Plain", "ns.Note", "ns.Memo"]).await;
        let mut views = vec![];
        for p in 0..n {
            // fence: no new row of this history may take a storage slot used in an earlier history
            verif_clock::set(T0);
            while net.max_rowid(p).await < seen_max[p] {
                net.peers[p].db.mutate_raw("mutate { ns.Plain{ a:\"fence\" } }", None).await.expect("fence");
            }
            let base_rowid = net.max_rowid(p).await;
            let (n0, t0) = net.fts_totals(p).await;
            views.push(View { base_rowid, n0, t0, ops: vec![], obs: vec![], checks: 0, mism: 0, errs: 0, synced: 0 });
        }
        Hist { net, epoch: next_epoch(), ent, room2, in_room2: Default::default(), declared_off: false, ref_seq: 0, tokens: vec![], room, n, ids: vec![], views, words: BTreeSet::new(), t: T0 + 1000, seen_max }
    }
    fn index_of(&self, id: &Uid) -> Option<u64> { self.ids.iter().position(|u| u == id).map(|i| i as u64 + 1) }

    async fn rows(&mut self, p: usize) -> Vec<Row> {
        let base = self.views[p].base_rowid;
        let mut out = vec![];
        let mut both = self.net.dump_nodes(p, self.room).await;
        both.extend(self.net.dump_nodes(p, self.room2).await);
        for r in both {
            if r.rowid > self.seen_max[p] { self.seen_max[p] = r.rowid; }
            let v: serde_json::Value = serde_json::from_str(r.json.as_deref().unwrap_or("{}")).unwrap();
            let o = v.as_object().unwrap();
            // short names of the entity's fields: "32" = a, "33" = b (fields are numbered in model order)
            let a = o.get("32").and_then(|v| v.as_str()).map(|s| s.to_string());
            let b = o.get("33").and_then(|v| v.as_str()).map(|s| s.to_string());
            out.push(Row { id: self.index_of(&r.id).expect("foreign row"), rowid: r.rowid - base, mdate: r.mdate, a, b });
        }
        out.sort_by_key(|r| r.id);
        out
    }

    async fn search(&self, p: usize, w: &str) -> Result<Vec<u64>, String> {
        let mut pa = Parameters::default();
        pa.add("w", w.to_string()).unwrap();
        let q = format!("query {{ {}(search($w)) {{ id }} }}", self.ent.name());
        match self.net.peers[p].db.query(&q, Some(pa)).await {
            Ok(s) => {
                let v: serde_json::Value = serde_json::from_str(&s).unwrap();
                let mut ids = vec![];
                for e in v[self.ent.name()].as_array().unwrap() {
                    let uid = discret::verif_hooks::security::uid_decode(e["id"].as_str().unwrap()).unwrap();
                    if let Some(i) = self.index_of(&uid) { ids.push(i); } // rows of earlier histories are ignored
                }
                ids.sort();
                Ok(ids)
            }
            Err(e) => Err(e.to_string()),
        }
    }

    /// dump + search every known word on peer p
    async fn check(&mut self, p: usize, rng: &mut Rng) {
        let rows = self.rows(p).await;
        // EVERY token of every past and current text (the 30 most recent ones), a few 3-letter
        // substrings, one two-letter word
        let mut ws: Vec<String> = vec![];
        for w in self.tokens.iter().rev() { if ws.len() < 30 && !ws.contains(w) { ws.push(w.clone()); } }
        let all: Vec<String> = self.words.iter().cloned().collect();
        for _ in 0..6 { if !all.is_empty() { let w = rng.pick(&all).clone(); if !ws.contains(&w) { ws.push(w); } } }
        ws.push("ab".to_string());
        if self.declared_off { ws.clear(); } // the property speaks for entities with indexing enabled
        let mut block: Vec<i64> = vec![rows.len() as i64];
        for r in &rows {
            block.push(r.id as i64); block.push(r.rowid);
            match &r.a { Some(t) => { block.push(1); push_text(&mut block, t); } None => block.push(0) }
            match &r.b { Some(t) => { block.push(1); push_text(&mut block, t); } None => block.push(0) }
        }
        for w in &ws {
            match self.search(p, w).await {
                Ok(ids) => {
                    let want: Vec<u64> = rows.iter().filter(|r| r.a.as_ref().map(|t| t.contains(w.as_str())).unwrap_or(false) || r.b.as_ref().map(|t| t.contains(w.as_str())).unwrap_or(false)).map(|r| r.id).collect();
                    if w.len() >= 3 && ids != want { self.views[p].mism += 1; }
                    block.push(ids.len() as i64);
                    for i in ids { block.push(i as i64); }
                }
                Err(_) => { self.views[p].errs += 1; block.push(-1); }
            }
        }
        let v = &mut self.views[p];
        v.checks += 1;
        v.ops.push(format!("FCheck {}", glist(&ws.iter().map(|w| gtext(w)).collect::<Vec<_>>())));
        v.obs.extend(block);
    }

    fn note_text(&mut self, s: &str, rng: &mut Rng) {
        for tok in s.split(' ') {
            if tok.len() >= 3 && !self.tokens.contains(&tok.to_string()) { self.tokens.push(tok.to_string()); }
            if tok.len() >= 4 { let i = rng.below(tok.len() as u64 - 2) as usize; self.words.insert(tok[i..i + 3].to_string()); }
        }
    }

    async fn create(&mut self, p: usize, a: Option<&str>, b: Option<&str>, rng: &mut Rng) -> u64 {
        self.t += 1000;
        verif_clock::set(self.t);
        let mut pa = Parameters::default();
        pa.add("room_id", b64(&self.room)).unwrap();
        let mut fields = String::new();
        if let Some(t) = a { pa.add("a", t.to_string()).unwrap(); fields.push_str(" a:$a"); }
        if let Some(t) = b { pa.add("b", t.to_string()).unwrap(); fields.push_str(" b:$b"); }
        let q = format!("mutate {{ v{}: {}{{ room_id:$room_id{} }} }}", self.epoch, self.ent.name(), fields);
        let r = self.net.peers[p].db.mutate_raw(&q, Some(pa)).await.expect("create");
        self.ids.push(r.mutate_entities[0].node_to_mutate.id);
        let x = self.ids.len() as u64;
        if let Some(t) = a { self.note_text(t, rng); }
        if let Some(t) = b { self.note_text(t, rng); }
        self.net.barrier(p).await;
        let v = &mut self.views[p];
        v.ops.push(format!("FCreate {} {} {}", gn(x), gotext(&a.map(|s| s.to_string())), gotext(&b.map(|s| s.to_string()))));
        v.obs.push(1);
        self.check(p, rng).await;
        x
    }

    /// a: new value of field a (None = untouched); b: None = untouched, Some(None) = null, Some(Some(t)) = t
    async fn update(&mut self, p: usize, x: u64, a: Option<Option<&str>>, b: Option<Option<&str>>, rng: &mut Rng) -> i64 {
        self.t += 1000;
        verif_clock::set(self.t);
        let mut pa = Parameters::default();
        pa.add("id", b64(&self.ids[x as usize - 1])).unwrap();
        let mut fields = String::new();
        match a { Some(Some(t)) => { pa.add("a", t.to_string()).unwrap(); fields.push_str(" a:$a"); self.note_text(t, rng); } Some(None) => fields.push_str(" a:null"), None => {} }
        match b { Some(Some(t)) => { pa.add("b", t.to_string()).unwrap(); fields.push_str(" b:$b"); self.note_text(t, rng); } Some(None) => fields.push_str(" b:null"), None => {} }
        let q = format!("mutate {{ v{}: {}{{ id:$id{} }} }}", self.epoch, self.ent.name(), fields);
        let flag = match self.net.peers[p].db.mutate_raw(&q, Some(pa)).await {
            Ok(_) => 1,
            Err(DbError::DatabaseWrite(_)) => 2,
            Err(_) => 0,
        };
        self.net.barrier(p).await;
        let ga = match a { Some(v) => format!("(Some {})", gotext(&v.map(|s| s.to_string()))), None => "None".to_string() };
        let gb = match b { Some(v) => format!("(Some {})", gotext(&v.map(|s| s.to_string()))), None => "None".to_string() };
        let v = &mut self.views[p];
        v.ops.push(format!("FUpdate {} {} {}", gn(x), ga, gb));
        v.obs.push(flag);
        self.check(p, rng).await;
        flag
    }

    /// an update that leaves every text field as it is: a number field, a new reference, or a move of the
    /// row to the other room (kind 0 / 1 / 2; what the entity does not have falls back to the room move)
    async fn touch(&mut self, p: usize, x: u64, kind: u64, rng: &mut Rng) -> i64 {
        self.t += 1000;
        verif_clock::set(self.t);
        let mut pa = Parameters::default();
        pa.add("id", b64(&self.ids[x as usize - 1])).unwrap();
        let q = match (kind, self.ent) {
            (0, Ent::Note) | (0, Ent::Memo) => { self.ref_seq += 1; pa.add("n", self.ref_seq as i64).unwrap(); format!("mutate {{ v{}: {}{{ id:$id n:$n }} }}", self.epoch, self.ent.name()) }
            (1, Ent::Doc) if self.ids.len() > 1 => {
                // a reference to a fresh target row (created for the purpose, without text it would still be indexed: give it none of the probed tokens)
                let y = self.create(p, Some("zzz9"), None, rng).await;
                self.t += 1000;
                verif_clock::set(self.t);
                pa.add("y", b64(&self.ids[y as usize - 1])).unwrap();
                format!("mutate {{ v{}: ns.Doc{{ id:$id refs:[{{id:$y}}] }} }}", self.epoch)
            }
            _ => {
                let to2 = !self.in_room2.contains(&x);
                pa.add("room", b64(if to2 { &self.room2 } else { &self.room })).unwrap();
                if to2 { self.in_room2.insert(x); } else { self.in_room2.remove(&x); }
                format!("mutate {{ v{}: {}{{ id:$id room_id:$room }} }}", self.epoch, self.ent.name())
            }
        };
        let flag = match self.net.peers[p].db.mutate_raw(&q, Some(pa)).await {
            Ok(r) => if r.mutate_entities[0].node_to_mutate.node.is_some() { 1 } else { 3 },
            Err(DbError::DatabaseWrite(_)) => 2,
            Err(_) => 0,
        };
        self.net.barrier(p).await;
        let v = &mut self.views[p];
        v.ops.push(format!("FUpdate {} None None", gn(x)));
        v.obs.push(flag);
        self.check(p, rng).await;
        flag
    }

    /// a new version of the data model: the entity of the history with / without no_full_text_index
    async fn toggle(&mut self, p: usize, indexed: bool, rng: &mut Rng) {
        let text = if indexed { MODEL.to_string() } else { model_with_index_off(self.ent.short()) };
        self.net.peers[p].db.update_data_model(&text).await.expect("data model update");
        self.declared_off = !indexed;
        self.epoch = next_epoch();
        self.views[p].ops.push(format!("FToggle {}", gb(indexed)));
        self.check(p, rng).await;
    }

    async fn delete(&mut self, p: usize, x: u64, rng: &mut Rng) {
        self.t += 1000;
        verif_clock::set(self.t);
        let mut pa = Parameters::default();
        pa.add("id", b64(&self.ids[x as usize - 1])).unwrap();
        let r = self.net.peers[p].db.delete(&format!("delete {{ {}{{ $id }} }}", self.ent.name()), Some(pa)).await.expect("delete");
        self.net.barrier(p).await;
        let v = &mut self.views[p];
        v.ops.push(format!("FDelete {}", gn(x)));
        v.obs.push(r.nodes.len() as i64);
        self.check(p, rng).await;
    }

    async fn pull(&mut self, dst: usize, src: usize, rng: &mut Rng) {
        self.t += 1000;
        let before = self.rows(dst).await;
        self.net.pull(dst, src, self.room, self.t).await;
        let after = self.rows(dst).await;
        let bmap: HashMap<u64, &Row> = before.iter().map(|r| (r.id, r)).collect();
        let amap: HashMap<u64, &Row> = after.iter().map(|r| (r.id, r)).collect();
        let mut dels: Vec<(i64, u64)> = vec![]; // (rowid, id)
        let mut news: Vec<&Row> = vec![];
        let mut ops: Vec<String> = vec![];
        let put = |r: &Row| format!("FSyncPut {} {} {}", gn(r.id), gotext(&r.a), gotext(&r.b));
        for r in &before {
            match amap.get(&r.id) {
                None => dels.push((r.rowid, r.id)),
                Some(n) if n.rowid != r.rowid => { dels.push((r.rowid, r.id)); }
                Some(n) if n.mdate != r.mdate || n.a != r.a || n.b != r.b => ops.push(put(n)),
                _ => {}
            }
        }
        for r in &after {
            match bmap.get(&r.id) { None => news.push(r), Some(o) if o.rowid != r.rowid => news.push(r), _ => {} }
        }
        news.sort_by_key(|r| r.rowid);
        dels.sort();
        // order deletions and insertions so that max(rowid)+1 reproduces the slots the real pull assigned
        let mut live: Vec<i64> = before.iter().map(|r| r.rowid).collect();
        for r in news {
            // a row that was removed and written again in the same pull: the removal comes first
            if let Some(i) = dels.iter().position(|d| d.1 == r.id) {
                let (rid, id) = dels.remove(i);
                live.retain(|x| *x != rid);
                ops.push(format!("FSyncDel {}", gn(id)));
            }
            loop {
                let next = live.iter().cloned().max().unwrap_or(0).max(0) + 1;
                if next > r.rowid {
                    match dels.pop() {
                        Some((rid, id)) => { live.retain(|x| *x != rid); ops.push(format!("FSyncDel {}", gn(id))); }
                        None => break,
                    }
                } else { break; }
            }
            live.push(r.rowid);
            ops.push(put(r));
        }
        for (_, id) in dels { ops.push(format!("FSyncDel {}", gn(id))); }
        self.views[dst].synced += ops.len();
        self.views[dst].ops.extend(ops);
        self.check(dst, rng).await;
    }

    fn cases(self, kind: &str, extra: serde_json::Value) -> Vec<Case> {
        let mut out = vec![];
        let n = self.n;
        for (p, v) in self.views.into_iter().enumerate() {
            out.push(Case { kind: kind.to_string(),
                coq: format!("C17Case {} {} {}", gz(v.n0), gz(v.t0), glist(&v.ops)),
                obs: v.obs,
                meta: json!({"peer": p, "peers": n, "steps": v.ops.len(), "checks": v.checks, "rows_written_by_sync": v.synced,
                             "checks_where_search_differs_from_substring_test": v.mism, "search_errors": v.errs, "extra": extra}) });
        }
        out
    }
}

fn gen_token(rng: &mut Rng) -> String {
    let len = 3 + rng.below(5);
    (0..len).map(|_| *rng.pick(&['a', 'b', 'c', '1'])).collect()
}
fn gen_text(rng: &mut Rng) -> String {
    let n = 1 + rng.below(3);
    (0..n).map(|_| gen_token(rng)).collect::<Vec<_>>().join(" ")
}

/// K1: a row that arrives by synchronisation is not found on the receiver; K3: editing it locally
async fn k1(net: &Net, rng: &mut Rng, seen: &mut Vec<i64>) -> Vec<Case> {
    let mut h = Hist::new(net, 2, Ent::Doc, seen).await;
    let x = h.create(0, Some("abcab 1ca1"), None, rng).await;
    h.pull(1, 0, rng).await;
    h.update(0, x, Some(Some("ccc1b abcab")), None, rng).await;
    h.pull(1, 0, rng).await;
    h.update(1, x, None, Some(Some("bb1bb")), rng).await;
    h.cases("k1_sync", json!({}))
}
/// K2: delete the last row, create another: the new row answers for the deleted text
async fn k2(net: &Net, rng: &mut Rng, seen: &mut Vec<i64>) -> Vec<Case> {
    let mut h = Hist::new(net, 1, Ent::Doc, seen).await;
    h.create(0, Some("aaa1 bcb"), None, rng).await;
    let y = h.create(0, Some("cabca 11ab"), Some("b1b1b"), rng).await;
    h.delete(0, y, rng).await;
    h.create(0, Some("1c1c abca"), None, rng).await;
    let z = h.create(0, Some("bcbcb"), None, rng).await;
    h.delete(0, z, rng).await;
    h.cases("k2_slot_reuse", json!({}))
}
/// K3: local edits of rows received by synchronisation drain the index totals until the edit is refused
async fn k3(net: &Net, rng: &mut Rng, seen: &mut Vec<i64>) -> Vec<Case> {
    let mut h = Hist::new(net, 2, Ent::Doc, seen).await;
    let mut xs = vec![];
    for i in 0..4 { xs.push(h.create(0, Some(&format!("abcabcabcabcabcabcabcabcabcabcabcabcabcabcabcabc1{} aaaa", i)), None, rng).await); }
    h.pull(1, 0, rng).await;
    let mut refused = 0;
    for x in xs { if h.update(1, x, Some(Some("cb1")), None, rng).await == 2 { refused += 1; } }
    h.cases("k3_edit_synced", json!({"edits_refused": refused}))
}
/// every text field of a row set to null — in ONE update, in successive updates, on an entity with a
/// single text field —, the former text searched, then text set again
async fn null_all(net: &Net, rng: &mut Rng, seen: &mut Vec<i64>) -> Vec<Case> {
    let mut out = vec![];
    {
        let mut h = Hist::new(net, 1, Ent::Note, seen).await;
        let x = h.create(0, Some("abcab 1ca1"), Some("ccb1c"), rng).await;
        let y = h.create(0, Some("bbca1 abcab"), Some("1c1c1"), rng).await;
        let z = h.create(0, None, None, rng).await;                       // a row that never had text
        h.update(0, x, Some(None), Some(None), rng).await;                // both fields in one update
        h.update(0, y, Some(None), None, rng).await;                      // one after the other
        h.update(0, y, None, Some(None), rng).await;
        h.update(0, x, None, Some(Some("a1a1a bcc")), rng).await;         // text again
        h.update(0, y, Some(Some("cab1c")), None, rng).await;
        h.update(0, z, Some(Some("1ca1 ccb1c")), None, rng).await;
        h.update(0, z, Some(None), None, rng).await;
        out.extend(h.cases("null_all_two_fields", json!({})));
    }
    {
        let mut h = Hist::new(net, 1, Ent::Memo, seen).await;
        let x = h.create(0, Some("abcab 1ca1"), None, rng).await;
        h.update(0, x, Some(None), None, rng).await;
        h.update(0, x, Some(Some("bc1bc")), None, rng).await;
        h.update(0, x, Some(None), None, rng).await;
        h.update(0, x, Some(None), None, rng).await;                      // null again on a row without text
        h.update(0, x, Some(Some("abcab")), None, rng).await;
        out.extend(h.cases("null_all_one_field", json!({})));
    }
    {
        let mut h = Hist::new(net, 1, Ent::Doc, seen).await;                // mandatory a, nullable b
        let x = h.create(0, Some("ab1ab"), Some("ccabc 1bb1"), rng).await;
        h.update(0, x, None, Some(None), rng).await;
        h.update(0, x, None, Some(Some("bb1ab")), rng).await;
        out.extend(h.cases("null_b", json!({})));
    }
    out
}

/// updates that leave the text alone: a room-only move (there and back), a number field, a reference;
/// the row must stay findable by its text after each of them
async fn text_untouched(net: &Net, rng: &mut Rng, seen: &mut Vec<i64>) -> Vec<Case> {
    let mut out = vec![];
    for ent in [Ent::Note, Ent::Doc, Ent::Memo] {
        let mut h = Hist::new(net, 1, ent, seen).await;
        let x = h.create(0, Some("abcab 1ca1"), if ent.has_b() { Some("ccb1c") } else { None }, rng).await;
        let y = h.create(0, Some("bbca1"), None, rng).await;
        h.touch(0, x, 2, rng).await;      // to the other room
        h.touch(0, y, 0, rng).await;      // number field (Note, Memo) / room move (Doc)
        h.touch(0, x, 1, rng).await;      // new reference (Doc) / room move back
        h.touch(0, x, 2, rng).await;
        h.update(0, x, Some(Some("1c1ca")), None, rng).await;
        h.touch(0, x, 2, rng).await;
        out.extend(h.cases("text_untouched", json!({"entity": ent.name()})));
    }
    out
}
/// three versions of the data model for one entity: indexed, no_full_text_index, indexed again; rows
/// are updated and created while the index is declared off
async fn toggle_index(net: &Net, rng: &mut Rng, seen: &mut Vec<i64>) -> Vec<Case> {
    let mut out = vec![];
    for ent in [Ent::Memo, Ent::Note] {
        let mut h = Hist::new(net, 1, ent, seen).await;
        let x = h.create(0, Some("abcab 1ca1"), None, rng).await;
        let y = h.create(0, Some("ccb1c"), None, rng).await;
        h.toggle(0, false, rng).await;
        h.update(0, x, Some(Some("bc1bc a1a1")), None, rng).await;
        let z = h.create(0, Some("1b1b1"), None, rng).await;
        h.touch(0, y, 0, rng).await;
        h.toggle(0, true, rng).await;
        h.update(0, z, Some(Some("cabca")), None, rng).await;
        h.update(0, x, Some(None), None, rng).await;
        out.extend(h.cases("toggle_index", json!({"entity": ent.name()})));
    }
    out
}

fn pick_ent(rng: &mut Rng) -> Ent { match rng.below(5) { 0..=1 => Ent::Doc, 2..=3 => Ent::Note, _ => Ent::Memo } }

/// a generated local step on peer p; returns the id of a created row
async fn gen_create(h: &mut Hist<'_>, p: usize, rng: &mut Rng) -> u64 {
    let ent = h.ent;
    let a = if ent.a_nullable() && rng.chance(1, 6) { None } else { Some(gen_text(rng)) };
    let b = if ent.has_b() && rng.chance(1, 3) { Some(gen_text(rng)) } else { None };
    h.create(p, a.as_deref(), b.as_deref(), rng).await
}
async fn gen_update(h: &mut Hist<'_>, p: usize, x: u64, rng: &mut Rng) {
    let ent = h.ent;
    let ta = gen_text(rng);
    let tb = gen_text(rng);
    // a: untouched / text / null (where the entity allows it); b likewise; "all text fields to null" is frequent
    let (a, b): (Option<Option<&str>>, Option<Option<&str>>) = match rng.below(10) {
        0..=2 => (Some(Some(ta.as_str())), None),
        3..=4 if ent.has_b() => (None, Some(Some(tb.as_str()))),
        5 if ent.has_b() => (Some(Some(ta.as_str())), Some(Some(tb.as_str()))),
        6 if ent.has_b() => (None, Some(None)),
        7 if ent.a_nullable() => (Some(None), None),
        8..=9 if ent.a_nullable() => (Some(None), if ent.has_b() { Some(None) } else { None }),
        _ => (Some(Some(ta.as_str())), None),
    };
    h.update(p, x, a, b, rng).await;
}

/// local histories only (the class the theorem C17_outside_known covers when no slot is reused)
async fn local(net: &Net, rng: &mut Rng, seen: &mut Vec<i64>) -> Vec<Case> {
    let ent = pick_ent(rng);
    let mut h = Hist::new(net, 1, ent, seen).await;
    let mut live: Vec<u64> = vec![];
    for _ in 0..(6 + rng.below(8)) {
        match rng.below(10) {
            0..=2 => { let x = gen_create(&mut h, 0, rng).await; live.push(x); }
            3..=6 if !live.is_empty() => { let x = *rng.pick(&live); gen_update(&mut h, 0, x, rng).await; }
            7..=8 if !live.is_empty() => { let x = *rng.pick(&live); let k = rng.below(3); h.touch(0, x, k, rng).await; live = h.rows(0).await.iter().map(|r| r.id).collect(); }
            _ if live.len() > 1 => { let i = rng.below(live.len() as u64 - 1) as usize; let x = live.remove(i); h.delete(0, x, rng).await; } // never the newest row
            _ => {}
        }
    }
    h.cases("local", json!({"entity": ent.name()}))
}
/// generated local histories around model versions toggling the index of the entity
async fn local_toggle(net: &Net, rng: &mut Rng, seen: &mut Vec<i64>) -> Vec<Case> {
    let ent = if rng.chance(1, 2) { Ent::Note } else { Ent::Memo };
    let mut h = Hist::new(net, 1, ent, seen).await;
    let mut live: Vec<u64> = vec![];
    let mut indexed = true;
    for step in 0..(8 + rng.below(6)) {
        match rng.below(10) {
            0..=2 => { let x = gen_create(&mut h, 0, rng).await; live.push(x); }
            3..=6 if !live.is_empty() => { let x = *rng.pick(&live); gen_update(&mut h, 0, x, rng).await; }
            7 if !live.is_empty() => { let x = *rng.pick(&live); h.touch(0, x, rng.below(3), rng).await; }
            _ if step > 1 => { indexed = !indexed; h.toggle(0, indexed, rng).await; }
            _ => {}
        }
    }
    if !indexed { h.toggle(0, true, rng).await; }
    if !live.is_empty() { let x = *rng.pick(&live); gen_update(&mut h, 0, x, rng).await; }
    h.cases("local_toggle", json!({"entity": ent.name()}))
}
async fn random(net: &Net, rng: &mut Rng, seen: &mut Vec<i64>) -> Vec<Case> {
    let n = 1 + rng.below(3) as usize;
    let ent = pick_ent(rng);
    let mut h = Hist::new(net, n, ent, seen).await;
    let mut live: Vec<Vec<u64>> = vec![vec![]; n];
    for _ in 0..(6 + rng.below(10)) {
        let p = rng.below(n as u64) as usize;
        match rng.below(12) {
            0..=3 => { let x = gen_create(&mut h, p, rng).await; live[p].push(x); }
            4..=6 if !live[p].is_empty() => { let x = *rng.pick(&live[p]); gen_update(&mut h, p, x, rng).await; }
            7..=8 if !live[p].is_empty() => { let i = rng.below(live[p].len() as u64) as usize; let x = live[p][i]; h.delete(p, x, rng).await; }
            _ if n > 1 => { let src = (p + 1 + rng.below(n as u64 - 1) as usize) % n; h.pull(p, src, rng).await; }
            _ => {}
        }
        for q in 0..n { live[q] = h.rows(q).await.iter().map(|r| r.id).collect(); }
    }
    h.cases("random", json!({"entity": ent.name()}))
}

#[tokio::main(flavor = "multi_thread")]
async fn main() {
    let mut out = Out::create();
    let mut rng = Rng::from_env();
    let net = Net::start(3, MODEL, work_root("C17")).await;
    net.warmup().await;
    let mut seen = vec![0i64; 3];
    for p in 0..3 { seen[p] = net.max_rowid(p).await; }
    for c in k1(&net, &mut rng.fork(), &mut seen).await { out.push(c); }
    for c in k2(&net, &mut rng.fork(), &mut seen).await { out.push(c); }
    for c in k3(&net, &mut rng.fork(), &mut seen).await { out.push(c); }
    for c in null_all(&net, &mut rng.fork(), &mut seen).await { out.push(c); }
    for c in text_untouched(&net, &mut rng.fork(), &mut seen).await { out.push(c); }
    for c in toggle_index(&net, &mut rng.fork(), &mut seen).await { out.push(c); }
    for _ in 0..scale(6, 100) { for c in local_toggle(&net, &mut rng.fork(), &mut seen).await { out.push(c); } }
    for _ in 0..scale(12, 200) { for c in local(&net, &mut rng.fork(), &mut seen).await { out.push(c); } }
    for _ in 0..scale(24, 400) { for c in random(&net, &mut rng.fork(), &mut seen).await { out.push(c); } }
    out.finish();
    net.cleanup();
}
