//! scratch: exploring the full-text index behaviour
#[path = "sync_common/mod.rs"]
mod sync_common;
use discret::verif_hooks::date_utils::verif_clock;
use discret::{Parameters, ParametersAdd};
use sync_common::*;

async fn search(net: &Net, p: usize, w: &str) -> String {
    let mut pa = Parameters::default();
    pa.add("w", w.to_string()).unwrap();
    match net.peers[p].db.query("query { ns.Doc(search($w)) { id a b } }", Some(pa)).await {
        Ok(s) => { let v: serde_json::Value = serde_json::from_str(&s).unwrap(); format!("{}", v["ns.Doc"]) }
        Err(e) => format!("ERR {}", e),
    }
}
async fn fts_state(net: &Net, p: usize) -> String {
    net.sql(p, |c| {
        let n: i64 = c.query_row("SELECT count(*) FROM _node_fts_docsize", [], |r| r.get(0)).unwrap();
        let blk: Vec<u8> = c.query_row("SELECT block FROM _node_fts_data WHERE id=1", [], |r| r.get(0)).unwrap_or_default();
        let ids: Vec<i64> = { let mut st = c.prepare("SELECT id FROM _node_fts_docsize ORDER BY id").unwrap(); let v = st.query_map([], |r| r.get(0)).unwrap().map(|x| x.unwrap()).collect(); v };
        let mx: i64 = c.query_row("SELECT ifnull(max(rowid),0) FROM _node", [], |r| r.get(0)).unwrap();
        format!("docsize rows {} ids {:?} averages {:?} max_rowid {}", n, ids, blk, mx)
    }).await
}

#[tokio::main(flavor = "multi_thread")]
async fn main() {
    let net = Net::start(2, MODEL, work_root("C17")).await;
    let room = net.create_room(T0 - DAY, &["ns.Doc", "ns.Plain"]).await;
    println!("after room: {}", fts_state(&net, 0).await);
    net.pull(1, 0, room, T0).await; net.pull(0, 1, room, T0).await; net.pull(1, 0, room, T0).await;
    println!("after warmup p0: {}", fts_state(&net, 0).await);
    println!("after warmup p1: {}", fts_state(&net, 1).await);
    verif_clock::set(T0 + 1000);
    let mk = |a: &str| { let mut p = Parameters::default(); p.add("room_id", b64(&room)).unwrap(); p.add("a", a.to_string()).unwrap(); p };
    let r1 = net.peers[0].db.mutate_raw("mutate { ns.Doc{ room_id:$room_id a:$a } }", Some(mk("alpha beta"))).await.unwrap();
    let x1 = r1.mutate_entities[0].node_to_mutate.id;
    let r2 = net.peers[0].db.mutate_raw("mutate { ns.Doc{ room_id:$room_id a:$a } }", Some(mk("gamma delta"))).await.unwrap();
    let x2 = r2.mutate_entities[0].node_to_mutate.id;
    println!("x1 {} x2 {}", b64(&x1), b64(&x2));
    println!("p0: {}", fts_state(&net, 0).await);
    for w in ["alpha", "pha be", "gamma", "ab", "mma d", "zzz"] { println!("  search {} -> {}", w, search(&net, 0, w).await); }
    let mut p = Parameters::default(); p.add("id", b64(&x2)).unwrap();
    net.peers[0].db.delete("delete { ns.Doc{ $id } }", Some(p)).await.unwrap();
    println!("deleted x2. p0: {}", fts_state(&net, 0).await);
    for w in ["gamma"] { println!("  search {} -> {}", w, search(&net, 0, w).await); }
    let r3 = net.peers[0].db.mutate_raw("mutate { ns.Doc{ room_id:$room_id a:$a } }", Some(mk("epsilon mma"))).await.unwrap();
    let x3 = r3.mutate_entities[0].node_to_mutate.id;
    println!("x3 {} p0: {}", b64(&x3), fts_state(&net, 0).await);
    for w in ["gamma", "delta", "epsilon", "mma", "amma", "mma d", "silon mma"] { println!("  search {} -> {}", w, search(&net, 0, w).await); }
    // update x3's text
    let mut p = Parameters::default(); p.add("id", b64(&x3)).unwrap(); p.add("a", "epsilon".to_string()).unwrap();
    let r = net.peers[0].db.mutate_raw("mutate { ns.Doc{ id:$id a:$a } }", Some(p)).await;
    println!("update x3 -> {:?} ; {}", r.is_ok(), fts_state(&net, 0).await);
    for w in ["gamma", "delta", "epsilon", "mma"] { println!("  search {} -> {}", w, search(&net, 0, w).await); }
    // sync to peer 1
    net.barrier(0).await;
    let tr = net.pull(1, 0, room, T0 + 5000).await;
    println!("pull 1<-0 requested {} ; p1: {}", tr.requested.len(), fts_state(&net, 1).await);
    for w in ["alpha", "epsilon"] { println!("  p1 search {} -> {}", w, search(&net, 1, w).await); }
    // K3: local update on peer 1 of a synchronised row
    let mut p = Parameters::default(); p.add("id", b64(&x1)).unwrap(); p.add("b", "second field".to_string()).unwrap();
    let r = net.peers[1].db.mutate_raw("mutate { ns.Doc{ id:$id b:$b } }", Some(p)).await;
    println!("p1 update x1 -> {:?} ; {}", r.as_ref().map(|_| ()).map_err(|e| e.to_string()), fts_state(&net, 1).await);
    for w in ["alpha", "second", "eld", "ta sec"] { println!("  p1 search {} -> {}", w, search(&net, 1, w).await); }
    let mut p = Parameters::default(); p.add("id", b64(&x1)).unwrap(); p.add("b", "third".to_string()).unwrap();
    let r = net.peers[1].db.mutate_raw("mutate { ns.Doc{ id:$id b:$b } }", Some(p)).await;
    println!("p1 update x1 again -> {:?} ; {}", r.as_ref().map(|_| ()).map_err(|e| e.to_string()), fts_state(&net, 1).await);
    for w in ["alpha", "second", "third"] { println!("  p1 search {} -> {}", w, search(&net, 1, w).await); }
    // set b to null
    let mut p = Parameters::default(); p.add("id", b64(&x1)).unwrap();
    let r = net.peers[1].db.mutate_raw("mutate { ns.Doc{ id:$id b:null } }", Some(p)).await;
    println!("p1 null b -> {:?}", r.as_ref().map(|_| ()).map_err(|e| e.to_string()));
    for w in ["alpha", "third"] { println!("  p1 search {} -> {}", w, search(&net, 1, w).await); }
    let n = net.dump_nodes(1, room).await; for r in n { println!("  p1 row {:?} {:?} rowid {}", b64(&r.id), r.json, r.rowid); }
    // K3 drain: rows with long texts arrive by synchronisation on p1, then are edited locally
    let mut ids = vec![];
    for i in 0..4 {
        let r = net.peers[0].db.mutate_raw("mutate { ns.Doc{ room_id:$room_id a:$a } }", Some(mk(&format!("long text number {} with many trigrams", i)))).await.unwrap();
        ids.push(r.mutate_entities[0].node_to_mutate.id);
    }
    net.barrier(0).await;
    let tr = net.pull(1, 0, room, T0 + 9000).await;
    println!("pull 1<-0 requested {} ; p1: {}", tr.requested.len(), fts_state(&net, 1).await);
    for (i, id) in ids.iter().enumerate() {
        let mut p = Parameters::default(); p.add("id", b64(id)).unwrap(); p.add("a", "abc".to_string()).unwrap();
        let r = net.peers[1].db.mutate_raw("mutate { ns.Doc{ id:$id a:$a } }", Some(p)).await;
        println!("p1 edit {} -> {:?} ; {}", i, r.as_ref().map(|_| ()).map_err(|e| e.to_string()), fts_state(&net, 1).await);
        println!("  p1 search abc -> {}", search(&net, 1, "abc").await);
        println!("  p1 search alpha -> {}", search(&net, 1, "alpha").await);
    }
    let mut p = Parameters::default(); p.add("room_id", b64(&room)).unwrap(); p.add("a", "fresh row".to_string()).unwrap();
    let r = net.peers[1].db.mutate_raw("mutate { ns.Doc{ room_id:$room_id a:$a } }", Some(p)).await;
    println!("p1 create -> {:?} ; {}", r.as_ref().map(|_| ()).map_err(|e| e.to_string()), fts_state(&net, 1).await);
    println!("  p1 search fresh -> {}", search(&net, 1, "fresh").await);
    net.cleanup();
}
