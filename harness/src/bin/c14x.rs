//! scratch exploration for C14 (not a registered check; removed when c14.rs is complete)
use discret::verif_hooks::configuration::Configuration;
use discret::verif_hooks::database::graph_database::GraphDatabaseService;
use discret::verif_hooks::database::node::Node;
use discret::verif_hooks::event_service::EventService;
use discret::verif_hooks::security::{base64_encode, import_verifying_key, random32};
use discret::{Parameters, ParametersAdd};
use std::path::PathBuf;
use std::sync::atomic::{AtomicUsize, Ordering};
use std::time::Duration;

static PANICS: AtomicUsize = AtomicUsize::new(0);

const MODEL: &str = r#"c14 {
  Probe { name: String }
  Jn { v: Json nullable }
  J0 { v: Json }
  Jd { v: Json default "[1]" }
  Sn { v: String nullable }
  Person { name: String, pets: [c14.Pet], group: [c14.Pet] nullable, order: c14.Pet nullable }
  Pet { name: String }
  Tree { name: String, kids: [c14.Tree] nullable, nn: [c14.Tree], one: c14.Tree nullable }
}
{
  Group { name: String, order: [Group] nullable }
}"#;

async fn start(tag: &str) -> (GraphDatabaseService, PathBuf) {
    let path: PathBuf = format!("/verif/work/C14/x_{}", tag).into();
    let _ = std::fs::remove_dir_all(&path);
    std::fs::create_dir_all(&path).unwrap();
    let t = std::time::Instant::now();
    let (app, _vk, _) = GraphDatabaseService::start("c14", MODEL, &random32(), &random32(), path.clone(), &Configuration::default(), EventService::new()).await.unwrap();
    println!("start {} ms", t.elapsed().as_millis());
    (app, path)
}

async fn q(app: &GraphDatabaseService, s: &str, p: Option<Parameters>) -> String {
    let before = PANICS.load(Ordering::SeqCst);
    let r = tokio::time::timeout(Duration::from_secs(2), app.query(s, p)).await;
    let after = PANICS.load(Ordering::SeqCst);
    match r {
        Err(_) => format!("TIMEOUT panics+{}", after - before),
        Ok(Ok(v)) => format!("OK panics+{} {}", after - before, v.replace('\n', " ")),
        Ok(Err(e)) => format!("ERR panics+{} {}", after - before, e.to_string().replace('\n', " ")),
    }
}
async fn m(app: &GraphDatabaseService, s: &str, p: Option<Parameters>) -> String {
    let before = PANICS.load(Ordering::SeqCst);
    let r = tokio::time::timeout(Duration::from_secs(2), app.mutate(s, p)).await;
    let after = PANICS.load(Ordering::SeqCst);
    match r {
        Err(_) => format!("TIMEOUT panics+{}", after - before),
        Ok(Ok(v)) => format!("OK panics+{} {}", after - before, v.replace('\n', " ").chars().take(80).collect::<String>()),
        Ok(Err(e)) => format!("ERR panics+{} {}", after - before, e.to_string().replace('\n', " ")),
    }
}

#[tokio::main(flavor = "multi_thread")]
async fn main() {
    std::panic::set_hook(Box::new(|info| {
        PANICS.fetch_add(1, Ordering::SeqCst);
        eprintln!("PANIC: {}", info.to_string().replace('\n', " "));
    }));
    let (app, path) = start("a").await;
    let (app2, path2) = start("b").await;
    println!("probe: {}", m(&app, r#"mutate { c14.Probe { name: "probe-row" } }"#, None).await);
    use discret::verif_hooks::database::query_language::data_model_parser::DataModel;
    use discret::verif_hooks::database::query_language::query_parser::QueryParser;
    use discret::verif_hooks::database::query::PreparedQueries;
    let mut dm = DataModel::new();
    dm.update(MODEL).unwrap();
    let deepq = |n: usize| { let mut s = String::from("query { c14.Tree { name "); for _ in 0..n { s.push_str("nn { name "); } for _ in 0..n { s.push('}'); } s.push_str("} }"); s };
    for n in [2usize, 4, 6, 8, 10, 12, 14, 16, 18] {
        let t = std::time::Instant::now();
        let txt = deepq(n);
        let p = QueryParser::parse(&txt, &dm).unwrap();
        let t1 = t.elapsed().as_millis();
        let b = PreparedQueries::build(&p).unwrap(); println!("depth {} text {} bytes: parse {} ms build {} ms sql len {}", n, txt.len(), t1, t.elapsed().as_millis() - t1, b.sql_queries[0].sql_query.len());
    }
    drop(app); drop(app2);
    tokio::time::sleep(Duration::from_millis(100)).await;
    let _ = std::fs::remove_dir_all(path); let _ = std::fs::remove_dir_all(path2);
    std::process::exit(0);
}
