//! C14 correspondence: no input crashes, wedges or confuses an instance.
//! Every input goes through the real API of a GraphDatabaseService (or the real verify()/
//! import/deserialise functions under catch_unwind); a panic hook counts panics; after each
//! input a probe query must be answered within a timeout. An instance that panicked or stopped
//! answering is recorded and replaced by a fresh one.
use discret::verif_hooks::configuration::Configuration;
use discret::verif_hooks::database::edge::{Edge, EdgeDeletionEntry};
use discret::verif_hooks::database::graph_database::GraphDatabaseService;
use discret::verif_hooks::database::node::{Node, NodeDeletionEntry, NodeToInsert};
use discret::verif_hooks::database::query::PreparedQueries;
use discret::verif_hooks::database::query_language::data_model_parser::DataModel;
use discret::verif_hooks::database::query_language::query_parser::QueryParser;
use discret::verif_hooks::database::query_language::ParamValue;
use discret::verif_hooks::event_service::EventService;
use discret::verif_hooks::security::{base64_decode, base64_encode, import_verifying_key, new_uid, random32, Ed25519SigningKey, SigningKey};
use discret::verif_hooks::signature_verification_service::{SignatureVerificationService, VerificationMessage};
use discret::{Parameters, ParametersAdd};
use serde_json::json;
use std::path::PathBuf;
use std::sync::atomic::{AtomicUsize, Ordering};
use std::sync::Mutex;
use std::time::Duration;
use vharness::common::*;

include!("../c14_queries.rs");
include!("../c14_observed.rs");
include!("../c14_clauses.rs");
include!("../c14_frames.rs");
include!("../c14_roomdef.rs");

/// the largest single allocation requested since the counter was reset (frame stream)
struct TrackingAlloc;
static MAX_ALLOC: AtomicUsize = AtomicUsize::new(0);
unsafe impl std::alloc::GlobalAlloc for TrackingAlloc {
    unsafe fn alloc(&self, l: std::alloc::Layout) -> *mut u8 { MAX_ALLOC.fetch_max(l.size(), Ordering::Relaxed); std::alloc::System.alloc(l) }
    unsafe fn alloc_zeroed(&self, l: std::alloc::Layout) -> *mut u8 { MAX_ALLOC.fetch_max(l.size(), Ordering::Relaxed); std::alloc::System.alloc_zeroed(l) }
    unsafe fn dealloc(&self, p: *mut u8, l: std::alloc::Layout) { std::alloc::System.dealloc(p, l) }
    unsafe fn realloc(&self, p: *mut u8, l: std::alloc::Layout, n: usize) -> *mut u8 { MAX_ALLOC.fetch_max(n, Ordering::Relaxed); std::alloc::System.realloc(p, l, n) }
}
#[global_allocator]
static GLOBAL: TrackingAlloc = TrackingAlloc;

static PANICS: AtomicUsize = AtomicUsize::new(0);
static LAST_PANIC: Mutex<String> = Mutex::new(String::new());
static INST_COUNTER: AtomicUsize = AtomicUsize::new(0);
const CALL_TIMEOUT: Duration = Duration::from_secs(5);
const HANG_TIMEOUT: Duration = Duration::from_secs(60);
static SLOW: AtomicUsize = AtomicUsize::new(0);
static START_RETRIES: AtomicUsize = AtomicUsize::new(0);
/// scratch folder of this run: $VERIF_WORK/C14 (chk passes VERIF_WORK; concurrent runs use different ones)
fn work_dir() -> String { format!("{}/C14", std::env::var("VERIF_WORK").unwrap_or_else(|_| "/verif/work".to_string())) }
const PROBE_NS: &str = "c14probe { Probe { name: String } }";

fn panics() -> usize { PANICS.load(Ordering::SeqCst) }
fn last_panic() -> String { LAST_PANIC.lock().unwrap().clone() }

// ------------------------------------------------------------------ instances
pub struct Inst { pub app: GraphDatabaseService, pub path: PathBuf, pub vk: Vec<u8>, pub healthy: bool, pub km: [u8; 32], pub pk: [u8; 32], pub full_model: String }
impl Inst {
    pub async fn start(model: &str) -> Inst {
        let n = INST_COUNTER.fetch_add(1, Ordering::SeqCst);
        let path: PathBuf = format!("{}/inst_{}", work_dir(), n).into();
        let _ = std::fs::remove_dir_all(&path);
        std::fs::create_dir_all(&path).unwrap();
        let full = format!("{}\n{}", model, PROBE_NS);
        // DatabaseReader::start unwraps the opening of each reader connection ("random IO errors" when
        // connections are created rapidly, says the code): under machine load a start can panic.
        // Run it in its own task and retry, so that such a start does not take the harness down.
        let mut attempt = 0;
        let (mut km, mut pk) = ([0u8; 32], [0u8; 32]);
        let (app, vk) = loop {
            attempt += 1;
            let (f, pth) = (full.clone(), path.clone());
            km = random32(); pk = random32();
            let (k1, k2) = (km, pk);
            let r = tokio::spawn(async move { GraphDatabaseService::start("c14", &f, &k1, &k2, pth, &Configuration::default(), EventService::new()).await }).await;
            match r {
                Ok(Ok((app, vk, _))) => break (app, vk),
                Ok(Err(e)) if attempt >= 4 => panic!("instance does not start with model {}: {}", full, e),
                Err(e) if attempt >= 4 => panic!("instance start panicked 4 times: {}", e),
                _ => { START_RETRIES.fetch_add(1, Ordering::SeqCst); let _ = std::fs::remove_dir_all(&path); std::fs::create_dir_all(&path).unwrap(); tokio::time::sleep(Duration::from_millis(300)).await; }
            }
        };
        let mut tries = 0;
        while let Err(e) = app.mutate(r#"mutate { c14probe.Probe { name: "probe-row" } }"#, None).await {
            tries += 1;
            if tries >= 4 { panic!("probe row cannot be written: {}", e); }
            START_RETRIES.fetch_add(1, Ordering::SeqCst);
            tokio::time::sleep(Duration::from_millis(300)).await;
        }
        Inst { app, path, vk, healthy: true, km, pk, full_model: full }
    }
    /// the fixed probe: a query through the database task and a reader thread (+ a write when `full`)
    pub async fn probe(&self, full: bool) -> bool {
        let q = self.app.query("query { c14probe.Probe(first 1) { name } }", None);
        tokio::pin!(q);
        let r = match tokio::time::timeout(CALL_TIMEOUT, &mut q).await {
            Ok(r) => Ok(r),
            Err(_) => { SLOW.fetch_add(1, Ordering::SeqCst); tokio::time::timeout(HANG_TIMEOUT, &mut q).await }
        };
        let ok = matches!(r, Ok(Ok(ref s)) if s.contains("probe-row"));
        if !ok || !full { return ok; }
        call(self.app.mutate(r#"mutate { c14probe.Probe { name: "w" } }"#, None)).await == 0
    }
    /// stop the instance and start it again on the same folder with the same secrets: None when the
    /// start fails, panics or does not answer the probe
    pub async fn restart(self) -> Option<Inst> {
        let Inst { app, path, km, pk, full_model, .. } = self;
        drop(app);
        tokio::time::sleep(Duration::from_millis(60)).await;
        let (f, pth) = (full_model.clone(), path.clone());
        let r = tokio::time::timeout(Duration::from_secs(20), tokio::spawn(async move { GraphDatabaseService::start("c14", &f, &km, &pk, pth, &Configuration::default(), EventService::new()).await })).await;
        match r {
            Ok(Ok(Ok((app, vk, _)))) => { let i = Inst { app, path, vk, healthy: true, km, pk, full_model }; if i.probe(true).await { Some(i) } else { let _ = std::fs::remove_dir_all(&i.path); None } }
            _ => { let _ = std::fs::remove_dir_all(&path); None }
        }
    }
    pub fn close(self) { let p = self.path.clone(); drop(self); let _ = std::fs::remove_dir_all(p); }
}

/// outcome code of one API call: 0 Ok, 1 Err, 2 a panic happened during the call, 3 no answer in time
pub async fn call<T, E>(fut: impl std::future::Future<Output = Result<T, E>>) -> i64 {
    let before = panics();
    tokio::pin!(fut);
    // two stages: an answer that is merely slow (machine load, oversized input) is not "no answer"
    let r = match tokio::time::timeout(CALL_TIMEOUT, &mut fut).await {
        Ok(r) => Ok(r),
        Err(_) => { SLOW.fetch_add(1, Ordering::SeqCst); tokio::time::timeout(HANG_TIMEOUT, &mut fut).await }
    };
    // a reader-thread panic drops the reply channel: give the hook a moment to have run
    if panics() == before && matches!(r, Ok(Err(_))) { tokio::task::yield_now().await; }
    let after = panics();
    if after > before { 2 } else { match r { Err(_) => 3, Ok(Ok(_)) => 0, Ok(Err(_)) => 1 } }
}
static TRANSIENT: AtomicUsize = AtomicUsize::new(0);
fn is_transient(msg: &str) -> bool {
    ["cannot rollback", "database is locked", "disk I/O error", "database or disk is full", "unable to open database"].iter().any(|t| msg.contains(t))
}
/// like `call`, for requests whose verdict the model predicts: an Err whose text is an
/// environmental condition of the engine (I/O error, full disk, lock) is retried once after a
/// pause and counted (evidence: transient_engine_errors_retried); if it persists it is reported
pub async fn call_t<T, E: std::fmt::Display, Fut: std::future::Future<Output = Result<T, E>>>(mk: impl Fn() -> Fut) -> i64 {
    for attempt in 0..2 {
        let msg = std::sync::Arc::new(Mutex::new(String::new()));
        let m2 = msg.clone();
        let o = call(async { let r = mk().await; if let Err(e) = &r { *m2.lock().unwrap() = e.to_string(); } r }).await;
        let transient = is_transient(&msg.lock().unwrap());
        if o == 1 && attempt == 0 && transient { TRANSIENT.fetch_add(1, Ordering::SeqCst); tokio::time::sleep(Duration::from_millis(500)).await; continue; }
        return o;
    }
    1
}
/// a write the harness needs for its own set-up: retried on failure
pub async fn setup_mutate(app: &GraphDatabaseService, text: &str, p: Option<Parameters>) -> discret::verif_hooks::database::mutation_query::MutationQuery {
    let mut tries = 0;
    loop {
        let pp = p.as_ref().map(|x| { let mut n = Parameters::default(); for (k, v) in &x.params { n.params.insert(k.clone(), v.clone()); } n });
        match app.mutate_raw(text, pp).await {
            Ok(r) => return r,
            Err(e) => { tries += 1; if tries >= 4 { panic!("set-up mutation fails: {} : {}", text, e); } START_RETRIES.fetch_add(1, Ordering::SeqCst); tokio::time::sleep(Duration::from_millis(500)).await; }
        }
    }
}
fn sync_call<T, E>(f: impl FnOnce() -> Result<T, E> + std::panic::UnwindSafe) -> i64 {
    match std::panic::catch_unwind(f) { Err(_) => 2, Ok(Ok(_)) => 0, Ok(Err(_)) => 1 }
}

// ------------------------------------------------------------------ stream (c): mutations
#[derive(Clone, Copy, PartialEq, Debug)]
enum FT { Bool, Float, Base64, Int, Str, Json }
#[derive(Clone, Copy, PartialEq, Debug)]
enum NL { NotNull, Nullable, Default }
const FTS: [FT; 6] = [FT::Bool, FT::Float, FT::Base64, FT::Int, FT::Str, FT::Json];
const NLS: [NL; 3] = [NL::NotNull, NL::Nullable, NL::Default];
impl FT {
    fn coq(&self) -> &'static str { match self { FT::Bool => "FBool", FT::Float => "FFloat", FT::Base64 => "FBase64", FT::Int => "FInt", FT::Str => "FString", FT::Json => "FJson" } }
    fn model(&self) -> &'static str { match self { FT::Bool => "Boolean", FT::Float => "Float", FT::Base64 => "Base64", FT::Int => "Integer", FT::Str => "String", FT::Json => "Json" } }
    fn default(&self) -> &'static str { match self { FT::Bool => "true", FT::Float => "1.5", FT::Base64 => "\"AAAA\"", FT::Int => "7", FT::Str => "\"d\"", FT::Json => "\"[1]\"" } }
}
impl NL { fn coq(&self) -> &'static str { match self { NL::NotNull => "NotNull", NL::Nullable => "Nullable", NL::Default => "HasDefault" } } }

struct MEntity { name: String, decl: Vec<(String, FT, NL)> }
fn mut_entities() -> Vec<MEntity> {
    let mut v = vec![];
    for t in FTS { for n in NLS { v.push(MEntity { name: format!("P{:?}{:?}", t, n), decl: vec![("v".into(), t, n)] }); } }
    v.push(MEntity { name: "M1".into(), decl: FTS.iter().enumerate().map(|(i, t)| (format!("f{}", i), *t, NL::Nullable)).collect() });
    let mut d: Vec<(String, FT, NL)> = FTS.iter().enumerate().map(|(i, t)| (format!("f{}", i), *t, NL::Default)).collect();
    d.push(("n".into(), FT::Str, NL::NotNull));
    v.push(MEntity { name: "M2".into(), decl: d });
    v.push(MEntity { name: "M3".into(), decl: vec![("j1".into(), FT::Json, NL::Nullable), ("j2".into(), FT::Json, NL::Nullable), ("s".into(), FT::Str, NL::NotNull), ("f".into(), FT::Float, NL::Nullable)] });
    v
}
fn mut_model(es: &[MEntity]) -> String {
    let mut s = String::from("c14 {\n");
    for e in es {
        s.push_str(&format!("  {} {{ ", e.name));
        let fs: Vec<String> = e.decl.iter().map(|(n, t, nl)| format!("{}: {}{}", n, t.model(), match nl { NL::NotNull => "".to_string(), NL::Nullable => " nullable".to_string(), NL::Default => format!(" default {}", t.default()) })).collect();
        s.push_str(&fs.join(", "));
        s.push_str(" }\n");
    }
    s.push('}');
    s
}

#[derive(Clone, Debug)]
enum MV { Var(u64), Null, Bool, Int(bool), Float(bool), Str(String) }
#[derive(Clone, Debug)]
enum PV { Bool, Int, Float(bool), Str(String), Bin(String), Null }
#[derive(Clone, Copy, PartialEq, Debug)]
enum FRef { Field(usize), Id, RoomId }
#[derive(Clone, Debug)]
struct Mutation { ent: usize, vals: Vec<(FRef, MV)>, params: Vec<(u64, PV)> }

/// what the model needs of a string: is it base64, is it JSON, does it name a row / room
struct UidCtx { rows: Vec<String>, rows_ent: usize, room: Option<String> }
fn strc(s: &str, ctx: &UidCtx, as_ref: Option<FRef>, ent: usize) -> String {
    let dec = base64_decode(s.as_bytes());
    let b64 = dec.is_ok();
    let js = serde_json::from_str::<serde_json::Value>(s).is_ok();
    let uid = match (&dec, as_ref) {
        (Ok(d), _) if d.len() != 16 => "UNot16",
        (Ok(_), Some(FRef::Id)) => if ent == ctx.rows_ent && ctx.rows.iter().any(|r| r == s) { "UKnown" } else { "UUnknown" },
        (Ok(_), Some(FRef::RoomId)) => if ctx.room.as_deref() == Some(s) { "UKnown" } else { "UUnknown" },
        (Ok(_), _) => "UUnknown",
        (Err(_), _) => "UNot16",
    };
    format!("{{| s_b64 := {}; s_json := {}; s_uid := {} |}}", gb(b64), gb(js), uid)
}
fn fref_coq(r: &FRef) -> String { match r { FRef::Field(i) => format!("RField {}", i), FRef::Id => "RId".into(), FRef::RoomId => "RRoomId".into() } }

impl Mutation {
    fn text(&self, es: &[MEntity]) -> String {
        let e = &es[self.ent];
        let mut s = format!("mutate {{ c14.{} {{ ", e.name);
        for (r, v) in &self.vals {
            let name = match r { FRef::Field(i) => if *i < e.decl.len() { e.decl[*i].0.clone() } else { "nosuchfield".to_string() }, FRef::Id => "id".into(), FRef::RoomId => "room_id".into() };
            let val = match v {
                MV::Var(x) => format!("$p{}", x), MV::Null => "null".into(), MV::Bool => "true".into(),
                MV::Int(true) => "42".into(), MV::Int(false) => "99999999999999999999".into(),
                MV::Float(true) => "1.5".into(), MV::Float(false) => "1.0e999".into(),
                MV::Str(t) => format!("\"{}\"", t.replace('"', "\\\"")),
            };
            s.push_str(&format!("{}: {} ", name, val));
        }
        s.push_str("} }");
        s
    }
    fn parameters(&self) -> Parameters {
        let mut p = Parameters::default();
        for (x, v) in &self.params {
            let k = format!("p{}", x);
            match v {
                PV::Bool => p.add(&k, true).unwrap(), PV::Int => p.add(&k, 5i64).unwrap(),
                PV::Float(true) => p.add(&k, 2.5f64).unwrap(), PV::Float(false) => p.add(&k, f64::NAN).unwrap(),
                PV::Str(s) => p.add(&k, s.clone()).unwrap(),
                PV::Bin(s) => { p.params.insert(k, ParamValue::Binary(s.clone())); }
                PV::Null => p.add_null(&k).unwrap(),
            }
        }
        p
    }
    /// which field a parameter is used for (for the id / room_id reading of its string)
    fn use_of(&self, x: u64) -> Option<FRef> { self.vals.iter().find(|(_, v)| matches!(v, MV::Var(y) if *y == x)).map(|(r, _)| *r) }
    fn coq(&self, es: &[MEntity], ctx: &UidCtx) -> String {
        let e = &es[self.ent];
        let decl: Vec<String> = e.decl.iter().map(|(_, t, n)| format!("({}, {})", t.coq(), n.coq())).collect();
        let vals: Vec<String> = self.vals.iter().map(|(r, v)| format!("({}, {})", fref_coq(r), match v {
            MV::Var(x) => format!("MVar {}", gn(*x)), MV::Null => "MNull".into(), MV::Bool => "MBoolLit".into(),
            MV::Int(b) => format!("MIntLit {}", gb(*b)), MV::Float(b) => format!("MFloatLit {}", gb(*b)),
            MV::Str(s) => format!("MStrLit {}", strc(s, ctx, Some(*r), self.ent)) })).collect();
        let ps: Vec<String> = self.params.iter().map(|(x, v)| format!("({}, {})", gn(*x), match v {
            PV::Bool => "PBool".into(), PV::Int => "PInt".into(), PV::Float(b) => format!("PFloat {}", gb(*b)),
            PV::Str(s) => format!("PStr {}", strc(s, ctx, self.use_of(*x), self.ent)), PV::Bin(s) => format!("PBin {}", strc(s, ctx, self.use_of(*x), self.ent)),
            PV::Null => "PNull".into() })).collect();
        format!("{{| m_decl := {}; m_vals := {}; m_params := {} |}}", glist(&decl), glist(&vals), glist(&ps))
    }
}

const STRINGS: [&str; 6] = ["hello world!", "AAAA", "1234", "[1, 2]", "{", ""];
fn gen_string(rng: &mut Rng, ctx: &UidCtx, want: Option<FT>) -> String {
    // a third of the values are long (up to 300 bytes) with multi-byte characters at every offset:
    // accepted ones (text, JSON text, long base64) and refused ones (for base64 / JSON / other types)
    if rng.chance(1, 3) {
        return match (want, rng.below(4)) {
            (Some(FT::Base64), 0..=1) => long_b64(rng),
            (Some(FT::Json), 0..=1) => format!("[\"{}\"]", mb_string(rng)),
            _ => mb_string(rng),
        };
    }
    match (want, rng.below(10)) {
        (Some(FT::Base64), 0..=5) => "AAAA".into(),
        (Some(FT::Json), 0..=5) => (*rng.pick(&["[1, 2]", "1234", "{}", "true"])).to_string(),
        (_, 6) => base64_encode(&new_uid()),
        (_, 7) if !ctx.rows.is_empty() => rng.pick(&ctx.rows).clone(),
        _ => (*rng.pick(&STRINGS)).to_string(),
    }
}
fn gen_pv(rng: &mut Rng, ctx: &UidCtx, t: Option<FT>, nullable: bool) -> Option<PV> {
    // mostly a value of the right type; sometimes null, a wrong type, or missing
    let r = rng.below(20);
    if r == 0 { return None; }
    if r <= 3 { return Some(PV::Null); }
    if r <= 5 && nullable { return Some(PV::Null); }
    if r <= 8 { return Some(match rng.below(7) { 0 => PV::Bool, 1 => PV::Int, 2 => PV::Float(true), 3 => PV::Float(false), 4 => PV::Str(gen_string(rng, ctx, None)), 5 => PV::Bin(gen_string(rng, ctx, None)), _ => PV::Null }); }
    Some(match t {
        Some(FT::Bool) => PV::Bool, Some(FT::Int) => PV::Int,
        Some(FT::Float) => if rng.chance(1, 4) { PV::Int } else { PV::Float(!rng.chance(1, 8)) },
        Some(ft) => PV::Str(gen_string(rng, ctx, Some(ft))),
        None => PV::Str(gen_string(rng, ctx, None)),
    })
}
fn gen_mv(rng: &mut Rng, ctx: &UidCtx, t: Option<FT>, nullable: bool, var: u64) -> MV {
    let r = rng.below(20);
    if r <= 8 { return MV::Var(var); }
    if r <= 10 || (r <= 12 && nullable) { return MV::Null; }
    if r <= 13 { return match rng.below(5) { 0 => MV::Bool, 1 => MV::Int(true), 2 => MV::Int(false), 3 => MV::Float(rng.chance(3, 4)), _ => MV::Str(gen_string(rng, ctx, None)) }; }
    match t {
        Some(FT::Bool) => MV::Bool, Some(FT::Int) => MV::Int(!rng.chance(1, 8)),
        Some(FT::Float) => if rng.chance(1, 4) { MV::Int(true) } else { MV::Float(!rng.chance(1, 8)) },
        Some(ft) => MV::Str(gen_string(rng, ctx, Some(ft))),
        None => MV::Str(gen_string(rng, ctx, None)),
    }
}
/// a mutation on a random entity; `allow_k1` = may put null on a nullable Json field
fn gen_mutation(rng: &mut Rng, es: &[MEntity], ctx: &UidCtx, allow_k1: bool) -> Mutation {
    loop {
        let ent = rng.below(es.len() as u64) as usize;
        let e = &es[ent];
        let mut vals = vec![];
        let mut params: Vec<(u64, PV)> = vec![];
        let mut var = 0u64;
        for (i, (_, t, nl)) in e.decl.iter().enumerate() {
            let keep = if e.decl.len() == 1 { !rng.chance(1, 12) } else { *nl == NL::NotNull && !rng.chance(1, 10) || rng.chance(1, 2) };
            if !keep { continue; }
            var += 1;
            let nullable = *nl == NL::Nullable;
            let mv = gen_mv(rng, ctx, Some(*t), nullable, var);
            if let MV::Var(x) = mv { if let Some(pv) = gen_pv(rng, ctx, Some(*t), nullable) { params.push((x, pv)); } }
            vals.push((FRef::Field(i), mv));
        }
        if rng.chance(1, 10) { var += 1; let mv = gen_mv(rng, ctx, None, false, var); if let MV::Var(x) = mv { if let Some(pv) = gen_pv(rng, ctx, None, false) { params.push((x, pv)); } } vals.push((FRef::Id, mv)); }
        if rng.chance(1, 12) { var += 1; let mv = gen_mv(rng, ctx, None, true, var); if let MV::Var(x) = mv { if let Some(pv) = gen_pv(rng, ctx, None, true) { params.push((x, pv)); } } vals.push((FRef::RoomId, mv)); }
        if rng.chance(1, 25) && !vals.is_empty() { let d = vals[0].clone(); vals.push(d); }            // duplicated field
        if rng.chance(1, 30) { vals.push((FRef::Field(e.decl.len() + 1), MV::Bool)); }                  // unknown field
        if rng.chance(1, 20) && vals.len() >= 2 { if let (MV::Var(x), true) = (vals[0].1.clone(), matches!(vals[1].1, MV::Var(_))) { vals[1].1 = MV::Var(x); } } // one variable, two fields
        if rng.chance(1, 15) { params.push((90, PV::Int)); }                                            // unused parameter
        let m = Mutation { ent, vals, params };
        let _ = allow_k1; // null on a nullable Json field is an ordinary valid value since 8ac9d00
        return m;
    }
}

async fn run_mutation(inst: &Inst, m: &Mutation, es: &[MEntity]) -> (i64, i64) {
    let text = m.text(es);
    let o = call_t(|| inst.app.mutate(&text, Some(m.parameters()))).await;
    let p = inst.probe(false).await as i64;
    (o, p)
}

// ------------------------------------------------------------------ stream (d) part 1: keys and rows
fn key_variants(rng: &mut Rng, good: &[u8]) -> Vec<u8> {
    match rng.below(12) {
        0 => vec![], 1 => vec![1], 2 => vec![0], 3 => good[..32].to_vec(),
        4 => { let mut k = good.to_vec(); k.push(0); k }
        5 => { let mut k = good.to_vec(); k[0] = 2; k }
        6 => { let mut k = vec![1u8]; k.extend((0..32).map(|_| rng.below(256) as u8)); k }
        7 => (0..rng.below(70)).map(|_| rng.below(256) as u8).collect(),
        8 => vec![1u8; 2000],
        _ => good.to_vec(),
    }
}
fn point_ok(k: &[u8]) -> bool {
    if k.len() != 33 { return false; }
    let b: [u8; 32] = k[1..33].try_into().unwrap();
    ed25519_dalek::VerifyingKey::from_bytes(&b).is_ok()
}
fn key_coq(k: &[u8]) -> String { glist(&k.iter().map(|b| gn(*b as u64)).collect::<Vec<_>>()) }
fn sig_variants(rng: &mut Rng, good: &[u8]) -> (Vec<u8>, bool) {
    match rng.below(8) {
        0 => (vec![], false), 1 => (good[..63].to_vec(), false),
        2 => { let mut s = good.to_vec(); s.push(1); (s, false) }
        3 => { let mut s = good.to_vec(); s[5] ^= 1; (s, false) }
        _ => (good.to_vec(), true),
    }
}
enum Row { Node(Node), Edge(Edge), NodeDel(NodeDeletionEntry), EdgeDel(EdgeDeletionEntry) }
/// a row, mostly well formed, and its model term
fn gen_row(rng: &mut Rng, sk: &Ed25519SigningKey, directed_empty_key: bool) -> (Row, String) {
    let good_key = sk.export_verifying_key();
    match rng.below(4) {
        0 | 1 => {
            let ee = rng.chance(1, 8);
            let (js, jc) = match rng.below(8) { 0 => (None, "JNone"), 1 => (Some("{".to_string()), "JInvalid"), 2 => (Some("[1]".to_string()), "JNotObject"), 3 => (Some("3".to_string()), "JNotObject"), _ => (Some("{\"32\":\"x\"}".to_string()), "JObject") };
            let mut n = Node { _entity: if ee { "".into() } else { "1.1".into() }, _json: js, ..Default::default() };
            let signed = n.sign(sk).is_ok();
            if !signed { n.verifying_key = good_key.clone(); n._signature = vec![7u8; 64]; }
            let key = if directed_empty_key { vec![] } else { key_variants(rng, &good_key) };
            let (sig, mut sok) = sig_variants(rng, &n._signature.clone());
            sok = sok && signed && key == good_key;
            n.verifying_key = key.clone(); n._signature = sig.clone();
            let t = format!("RowNode {} {} {} {} {} {}", gb(ee), jc, key_coq(&key), gb(point_ok(&key)), gn(sig.len() as u64), gb(sok));
            (Row::Node(n), t)
        }
        2 => {
            let el = *rng.pick(&[0usize, 3, 3, 3, 900]);
            let ll = *rng.pick(&[0usize, 2, 2, 2, 200]);
            let mut e = Edge { src: new_uid(), src_entity: "e".repeat(el), label: "l".repeat(ll), dest: new_uid(), cdate: 1, ..Default::default() };
            let signed = e.sign(sk).is_ok();
            if !signed { e.verifying_key = good_key.clone(); e.signature = vec![7u8; 64]; }
            let key = if directed_empty_key { vec![] } else { key_variants(rng, &good_key) };
            let (sig, mut sok) = sig_variants(rng, &e.signature.clone());
            sok = sok && signed && key == good_key;
            e.verifying_key = key.clone(); e.signature = sig.clone();
            let t = format!("RowEdge {} {} {} {} {} {}", gn(el as u64), gn(ll as u64), key_coq(&key), gb(point_ok(&key)), gn(sig.len() as u64), gb(sok));
            (Row::Edge(e), t)
        }
        _ => {
            let node = Node { _entity: "1.1".into(), ..Default::default() };
            let key = if directed_empty_key { vec![] } else { key_variants(rng, &good_key) };
            if rng.chance(1, 2) {
                let mut d = NodeDeletionEntry::build(new_uid(), &node, 5, sk);
                let (sig, mut sok) = sig_variants(rng, &d.signature.clone());
                sok = sok && key == good_key;
                d.verifying_key = key.clone(); d.signature = sig.clone();
                (Row::NodeDel(d), format!("RowDeletion {} {} {} {}", key_coq(&key), gb(point_ok(&key)), gn(sig.len() as u64), gb(sok)))
            } else {
                let mut e = Edge { src: new_uid(), src_entity: "e".into(), label: "l".into(), dest: new_uid(), cdate: 1, ..Default::default() };
                e.sign(sk).unwrap();
                let mut d = EdgeDeletionEntry::build(new_uid(), &e, 5, sk);
                let (sig, mut sok) = sig_variants(rng, &d.signature.clone());
                sok = sok && key == good_key;
                d.verifying_key = key.clone(); d.signature = sig.clone();
                (Row::EdgeDel(d), format!("RowDeletion {} {} {} {}", key_coq(&key), gb(point_ok(&key)), gn(sig.len() as u64), gb(sok)))
            }
        }
    }
}
fn verify_row(r: &Row) -> i64 {
    match r {
        Row::Node(n) => sync_call(std::panic::AssertUnwindSafe(|| n.verify())),
        Row::Edge(e) => sync_call(std::panic::AssertUnwindSafe(|| e.verify())),
        Row::NodeDel(d) => sync_call(std::panic::AssertUnwindSafe(|| d.verify())),
        Row::EdgeDel(d) => sync_call(std::panic::AssertUnwindSafe(|| d.verify())),
    }
}
/// the same row through a real verification service (threads): outcome code
async fn service_verify(svc: &SignatureVerificationService, r: Row) -> i64 {
    let before = panics();
    let res: Result<Result<bool, ()>, tokio::time::error::Elapsed> = tokio::time::timeout(CALL_TIMEOUT, async {
        match r {
            Row::Node(n) => { let (s, rcv) = tokio::sync::oneshot::channel(); svc.sender.send_async(VerificationMessage::Nodes(vec![n], s)).await.map_err(|_| ())?; rcv.await.map(|x| x.is_ok()).map_err(|_| ()) }
            Row::Edge(e) => { let (s, rcv) = tokio::sync::oneshot::channel(); svc.sender.send_async(VerificationMessage::Edges(vec![e], s)).await.map_err(|_| ())?; rcv.await.map(|x| x.is_ok()).map_err(|_| ()) }
            Row::NodeDel(d) => { let (s, rcv) = tokio::sync::oneshot::channel(); svc.sender.send_async(VerificationMessage::NodeLog(vec![d], s)).await.map_err(|_| ())?; rcv.await.map(|x| x.is_ok()).map_err(|_| ()) }
            Row::EdgeDel(d) => { let (s, rcv) = tokio::sync::oneshot::channel(); svc.sender.send_async(VerificationMessage::EdgeLog(vec![d], s)).await.map_err(|_| ())?; rcv.await.map(|x| x.is_ok()).map_err(|_| ()) }
        }
    }).await;
    if panics() > before { return 2; }
    match res { Err(_) => 3, Ok(Ok(true)) => 0, _ => 1 }
}
async fn service_probe(svc: &SignatureVerificationService, sk: &Ed25519SigningKey) -> i64 {
    let mut n = Node { _entity: "1.1".into(), ..Default::default() };
    n.sign(sk).unwrap();
    (service_verify(svc, Row::Node(n)).await == 0) as i64
}

// ------------------------------------------------------------------ main
#[tokio::main(flavor = "multi_thread")]
async fn main() {
    std::panic::set_hook(Box::new(|info| {
        PANICS.fetch_add(1, Ordering::SeqCst);
        *LAST_PANIC.lock().unwrap() = info.to_string().replace('\n', " ").chars().take(200).collect();
        if std::thread::current().name() == Some("main") || info.location().map(|l| l.file().contains("/verif/harness") || l.file().starts_with("src/")).unwrap_or(false) { eprintln!("harness panic: {}", info); }
    }));
    std::fs::create_dir_all(work_dir()).unwrap();
    for e in std::fs::read_dir(work_dir()).unwrap().flatten() { if e.file_name().to_string_lossy().starts_with("inst_") { let _ = std::fs::remove_dir_all(e.path()); } }
    let mut rng = Rng::from_env();
    let mut out = Out::create();
    let mut stats = serde_json::Map::new();

    // ---- corpus: witnesses of the listed classes and inputs kept from earlier failures
    replay_corpus(&mut out).await;

    // ---- mutations: directed, then random
    let es = mut_entities();
    let model = mut_model(&es);
    let mut inst = Inst::start(&model).await;
    let mut ctx = UidCtx { rows: vec![], rows_ent: 0, room: None };
    let ent_idx = |n: &str| es.iter().position(|e| e.name == n).unwrap();
    ctx.rows_ent = ent_idx("M1");
    // a row to update (id known) of entity M1, and a room the caller administers
    {
        let r = setup_mutate(&inst.app, r#"mutate { c14.M1 { f4: "row" } }"#, None).await;
        ctx.rows.push(base64_encode(&r.mutate_entities[0].node_to_mutate.id));
        let mut p = Parameters::default();
        p.add("user_id", base64_encode(&inst.vk)).unwrap();
        let room = setup_mutate(&inst.app, r#"mutate { sys.Room{ admin:[{verif_key:$user_id}] authorisations:[{ name:"g" rights:[{entity:"*" mutate_self:true mutate_all:true}] users:[{verif_key:$user_id}] }] } }"#, Some(p)).await;
        ctx.room = Some(base64_encode(&room.mutate_entities[0].node_to_mutate.id));
    }
    let jn = ent_idx("PJsonNullable");
    let mut directed: Vec<(Mutation, &str)> = vec![
        (Mutation { ent: jn, vals: vec![(FRef::Field(0), MV::Var(1))], params: vec![(1, PV::Null)] }, "former K1: null parameter on a nullable Json field (fixed 8ac9d00, must be Ok)"),
        (Mutation { ent: jn, vals: vec![(FRef::Field(0), MV::Null)], params: vec![] }, "former K1: literal null on a nullable Json field (fixed 8ac9d00, must be Ok)"),
        (Mutation { ent: jn, vals: vec![(FRef::Field(0), MV::Var(1))], params: vec![(1, PV::Str("[1, 2]".into()))] }, "json parameter"),
        (Mutation { ent: jn, vals: vec![(FRef::Field(0), MV::Var(1))], params: vec![(1, PV::Str("{".into()))] }, "invalid json parameter"),
        (Mutation { ent: ent_idx("PJsonNotNull"), vals: vec![(FRef::Field(0), MV::Var(1))], params: vec![(1, PV::Null)] }, "null on a not nullable Json field"),
        (Mutation { ent: ent_idx("PStrNullable"), vals: vec![(FRef::Field(0), MV::Var(1))], params: vec![(1, PV::Null)] }, "null on a nullable String field"),
        (Mutation { ent: ent_idx("PFloatNullable"), vals: vec![(FRef::Field(0), MV::Var(1))], params: vec![(1, PV::Float(false))] }, "NaN parameter"),
        (Mutation { ent: ent_idx("M1"), vals: vec![(FRef::Id, MV::Str(ctx.rows[0].clone())), (FRef::Field(4), MV::Str("upd".into()))], params: vec![] }, "update of an existing row"),
        (Mutation { ent: ent_idx("M1"), vals: vec![(FRef::Id, MV::Var(1)), (FRef::Field(5), MV::Var(2))], params: vec![(1, PV::Str(ctx.rows[0].clone())), (2, PV::Null)] }, "former K1 on the update path (must be Ok)"),
        (Mutation { ent: ent_idx("M1"), vals: vec![(FRef::RoomId, MV::Var(1)), (FRef::Field(4), MV::Str("in room".into()))], params: vec![(1, PV::Str(ctx.room.clone().unwrap()))] }, "creation in a room the caller may write"),
        (Mutation { ent: ent_idx("M1"), vals: vec![(FRef::RoomId, MV::Var(1))], params: vec![(1, PV::Null)] }, "null room_id"),
        (Mutation { ent: ent_idx("M2"), vals: vec![(FRef::Field(6), MV::Str("n".into()))], params: vec![] }, "defaults filled"),
        (Mutation { ent: ent_idx("M2"), vals: vec![], params: vec![] }, "missing not nullable field"),
        (Mutation { ent: ent_idx("M3"), vals: vec![(FRef::Field(2), MV::Var(1)), (FRef::Field(0), MV::Var(1))], params: vec![(1, PV::Str("[1, 2]".into()))] }, "one variable for a String and a Json field"),
        (Mutation { ent: ent_idx("PBase64Nullable"), vals: vec![(FRef::Field(0), MV::Var(1))], params: vec![(1, PV::Bin("AAAA".into()))] }, "Binary value for a Base64 field"),
    ];
    let n_dir = directed.len();
    let n_rand = scale(400, 7000);
    let mut verdicts = [0usize; 4];
    let mut fresh_instances = 1usize;
    for i in 0..(n_dir + n_rand) {
        let allow_k1 = rng.chance(1, 6);
        let (m, what) = if i < n_dir { let d = directed.remove(0); (d.0, d.1.to_string()) } else { (gen_mutation(&mut rng, &es, &ctx, allow_k1), "random".to_string()) };
        if !inst.healthy {
            inst.close();
            inst = Inst::start(&model).await; fresh_instances += 1;
            let r = setup_mutate(&inst.app, r#"mutate { c14.M1 { f4: "row" } }"#, None).await;
            ctx.rows = vec![base64_encode(&r.mutate_entities[0].node_to_mutate.id)];
            ctx.room = None;
        }
        let coq = m.coq(&es, &ctx);
        let (o, p) = run_mutation(&inst, &m, &es).await;
        verdicts[o as usize] += 1;
        if o >= 2 || p == 0 { inst.healthy = false; }
        out.push(Case { kind: (if i < n_dir { "mut-directed" } else { "mut" }).into(), coq: format!("CMut {}", coq), obs: vec![o, p],
            meta: json!({"what": what, "text": m.text(&es), "params": format!("{:?}", m.params), "panic": if o == 2 { last_panic() } else { String::new() }}) });
    }
    stats.insert("mutation_verdicts_ok_err_panic_timeout".into(), json!(verdicts));
    // sequences against one instance: the pool of reader threads
    let k1 = Mutation { ent: jn, vals: vec![(FRef::Field(0), MV::Var(1))], params: vec![(1, PV::Null)] };
    let okm = Mutation { ent: jn, vals: vec![(FRef::Field(0), MV::Var(1))], params: vec![(1, PV::Str("[1, 2]".into()))] };
    let n_seq = scale(6, 40);
    for i in 0..n_seq {
        inst.close();
        inst = Inst::start(&model).await; fresh_instances += 1;
        let ctx0 = UidCtx { rows: vec![], rows_ent: 0, room: None };
        let steps: Vec<Mutation> = if i == 0 { vec![k1.clone(), okm.clone(), k1.clone(), k1.clone(), okm.clone(), k1.clone(), okm.clone(), k1.clone()] }
            else { (0..(2 + rng.below(7))).map(|_| if rng.chance(1, 2) { k1.clone() } else { gen_mutation(&mut rng, &es, &ctx0, true) }).collect() };
        let mut obs = vec![];
        let mut texts = vec![];
        for m in &steps { let (o, p) = run_mutation(&inst, m, &es).await; obs.push(o); obs.push(p); texts.push(m.text(&es)); }
        let terms: Vec<String> = steps.iter().map(|m| m.coq(&es, &ctx0)).collect();
        out.push(Case { kind: "mut-seq".into(), coq: format!("CMutSeq {}", glist(&terms)), obs, meta: json!({"steps": texts, "what": if i == 0 { "former K1 eight times against one instance: the reader pool must stay intact" } else { "random sequence" }}) });
        inst.healthy = false;
    }
    inst.close();
    stats.insert("fresh_instances_mutation_streams".into(), json!(fresh_instances));

    // ---- keys and rows
    let sk = Ed25519SigningKey::create_from(&random32());
    let good = sk.export_verifying_key();
    let n_keys = scale(60, 600);
    for i in 0..n_keys {
        let k = if i == 0 { vec![] } else if i == 1 { good.clone() } else { key_variants(&mut rng, &good) };
        let o = sync_call(|| import_verifying_key(&k));
        out.push(Case { kind: "key".into(), coq: format!("CKey {} {}", key_coq(&k), gb(point_ok(&k))), obs: vec![o], meta: json!({"len": k.len()}) });
    }
    let n_rows = scale(200, 2500);
    let mut row_verdicts = [0usize; 3];
    for i in 0..n_rows {
        let (r, t) = gen_row(&mut rng, &sk, i < 4);
        let o = verify_row(&r);
        row_verdicts[o as usize] += 1;
        out.push(Case { kind: "row".into(), coq: format!("CRow ({})", t), obs: vec![o], meta: json!({}) });
    }
    stats.insert("row_verdicts_ok_err_panic".into(), json!(row_verdicts));
    for i in 0..scale(4, 30) {
        let svc = SignatureVerificationService::start(4);
        let n = if i == 0 { 6 } else { 2 + rng.below(8) as usize };
        let mut obs = vec![]; let mut terms = vec![];
        for j in 0..n {
            let ek = i == 0 || (j % 2 == 0 && rng.chance(1, 2));
            let (r, t) = gen_row(&mut rng, &sk, ek);
            obs.push(service_verify(&svc, r).await);
            obs.push(service_probe(&svc, &sk).await);
            terms.push(format!("({})", t));
        }
        out.push(Case { kind: "row-seq".into(), coq: format!("CRowSeq {}", glist(&terms)), obs, meta: json!({"what": "rows through a SignatureVerificationService with 4 threads"}) });
    }

    // ---- queries (stream a) and statement sizes
    query_streams(&mut rng, &mut out, &mut stats).await;
    // ---- the clause language on one entity, parameters of every class and length; deletions
    clause_streams(&mut rng, &mut out, &mut stats).await;
    // ---- frames from a peer against a real endpoint; rows with dates beyond the calendar
    frame_streams(&mut rng, &mut out, &mut stats).await;
    ingest_date_stream(&mut rng, &mut out, &mut stats).await;
    // ---- room definitions received from a peer, each followed by a restart of the receiver
    room_definition_stream(&mut rng, &mut out, &mut stats).await;
    // ---- streams without a model verdict (b, d ingestion, e)
    observed_streams(&mut rng, &mut out, &mut stats).await;

    stats.insert("answers_slower_than_5s".into(), json!(SLOW.load(Ordering::SeqCst)));
    stats.insert("transient_engine_errors_retried".into(), json!(TRANSIENT.load(Ordering::SeqCst)));
    stats.insert("instance_starts_retried".into(), json!(START_RETRIES.load(Ordering::SeqCst)));
    eprintln!("c14 generator: {}", serde_json::Value::Object(stats.clone()));
    out.push(Case { kind: "stats".into(), coq: "CObs 0%N".into(), obs: vec![0, 1], meta: serde_json::Value::Object(stats) });
    out.finish();
    for e in std::fs::read_dir(work_dir()).unwrap().flatten() { if e.file_name().to_string_lossy().starts_with("inst_") { let _ = std::fs::remove_dir_all(e.path()); } }
    // leave without running exit handlers: reader / verifier threads of closed instances may still
    // be inside the engine and race with its global cleanup
    use std::io::Write;
    let _ = std::io::stderr().flush();
    extern "C" { fn _exit(code: i32) -> !; }
    unsafe { _exit(0) }
}
