//! C10 correspondence: a room history applied by real room mutations on instance A; the decisions
//! of the live room (RoomModified event), of the reload path (LOAD_QUERY -> load_json), of a peer F
//! that imports the exported definition without ever having seen the room, and of a peer B that
//! imports it after every step (and B's reload) vs coq/run/Run_C10.v.  Directed cases restart a
//! real instance on its own data folder.
#[path = "../c07_roomnode.rs"]
mod rn;
use rn::*;

use discret::verif_hooks::configuration::Configuration;
use discret::verif_hooks::database::authorisation_service::RoomAuthorisations;
use discret::verif_hooks::database::graph_database::GraphDatabaseService;
use discret::verif_hooks::database::room_node::RoomNode;
use discret::verif_hooks::database::mutation_query::MutationQuery;
use discret::verif_hooks::date_utils::verif_clock;
use discret::verif_hooks::event_service::{Event, EventService};
use discret::verif_hooks::security::{base64_encode, random32, Ed25519SigningKey};
use discret::{Parameters, ParametersAdd};
use serde_json::json;
use std::collections::HashMap;
use std::path::PathBuf;
use std::sync::Arc;
use vharness::common::*;

const MODEL: &str = "ns { E1{ name:String } E2{ name:String } }";

#[derive(Clone, Debug, PartialEq)]
enum Ev { Group(u64), Admin(u64, bool), User(u64, u64, bool), UAdmin(u64, u64, bool), Right(u64, u64, bool, bool) }
#[derive(Clone, Debug)]
struct Step { date: i64, evs: Vec<Ev> }

fn ev_coq(e: &Ev, d: i64) -> String {
    match e {
        Ev::Group(g) => format!("EvGroup {}", gn(*g)),
        Ev::Admin(k, b) => format!("EvAdmin {} {} {}", gn(*k), gz(d), gb(*b)),
        Ev::User(g, k, b) => format!("EvUser {} {} {} {}", gn(*g), gn(*k), gz(d), gb(*b)),
        Ev::UAdmin(g, k, b) => format!("EvUAdmin {} {} {} {}", gn(*g), gn(*k), gz(d), gb(*b)),
        Ev::Right(g, e, s, a) => format!("EvRight {} {} {} {} {}", gn(*g), gn(*e), gz(d), gb(*s), gb(*a)),
    }
}
/// (list tag, key or entity) an event writes to
fn slot(e: &Ev) -> Option<(u64, u64, u64)> {
    match e { Ev::Group(_) => None, Ev::Admin(k, _) => Some((0, 0, *k)), Ev::User(g, k, _) => Some((1, *g, *k)),
              Ev::UAdmin(g, k, _) => Some((2, *g, *k)), Ev::Right(g, e, _, _) => Some((3, *g, *e)) }
}

struct Inst { db: GraphDatabaseService, key: u64, rx: tokio::sync::broadcast::Receiver<Event>, path: PathBuf, secret: [u8; 32] }
fn work_dir() -> String { std::env::var("VERIF_WORK").unwrap_or("/verif/work".into()) }
async fn start_inst(ctx: &mut Ctx, dir: &str) -> Inst {
    let path: PathBuf = format!("{}/C10/{}", work_dir(), dir).into();
    let _ = std::fs::remove_dir_all(&path);
    std::fs::create_dir_all(&path).unwrap();
    let ev = EventService::new();
    let rx = ev.subcribe().await;
    let secret = random32();
    let (db, vk, _) = GraphDatabaseService::start("c10", MODEL, &secret, &random32(), path.clone(), &Configuration::default(), ev).await.unwrap();
    let key = ctx.add_instance_key(&vk);
    Inst { db, key, rx, path, secret }
}
fn strip(n: RoomNode) -> RoomNode { bincode::deserialize(&bincode::serialize(&n).unwrap()).unwrap() }
async fn wait_room(rx: &mut tokio::sync::broadcast::Receiver<Event>, rid: &[u8; 16], tries: usize) -> Option<Arc<discret::Room>> {
    let mut r = None;
    for _ in 0..tries {
        while let Ok(e) = rx.try_recv() { if let Event::RoomModified(room) = e { if &room.id == rid { r = Some(room); } } }
        if r.is_some() { break; }
        tokio::time::sleep(std::time::Duration::from_millis(2)).await;
    }
    r
}

// ------------------------------------------------------------------ generator
fn gen_history(rng: &mut Rng, author: u64, unique: bool, clean_rights: bool, ties: bool) -> Vec<Step> {
    let keys = [author, 2, 3, 4, 5];
    let mut used: Vec<(u64, u64, u64)> = vec![(0, 0, author)];
    let mut groups: Vec<u64> = vec![];
    let mut next_g = 10;
    let mut gen_right = |rng: &mut Rng, g: u64| { let a = rng.chance(1, 3); let s = if clean_rights { a || rng.chance(1, 2) } else { rng.chance(1, 2) }; Ev::Right(g, rng.below(3), s, a) };
    // creation
    let mut evs = vec![Ev::Admin(author, true)];
    for _ in 0..(1 + rng.below(2)) {
        let g = next_g; next_g += 1; groups.push(g);
        evs.push(Ev::Group(g));
        for _ in 0..(1 + rng.below(2)) { evs.push(gen_right(rng, g)); }
        for _ in 0..rng.below(3) { evs.push(Ev::User(g, *rng.pick(&keys), true)); }
        if rng.chance(1, 2) { evs.push(Ev::UAdmin(g, *rng.pick(&keys), true)); }
    }
    // one entry per (list, key) inside a step
    let dedup = |evs: Vec<Ev>| { let mut seen = vec![]; let mut out = vec![]; for e in evs { match slot(&e) { Some(s) => if !seen.contains(&s) { seen.push(s); out.push(e); }, None => out.push(e) } } out };
    let evs = dedup(evs);
    for e in &evs { if let Some(s) = slot(e) { if !used.contains(&s) { used.push(s); } } }
    let mut d = BASE + rng.range(1, 50) * 1000;
    let mut steps = vec![Step { date: d, evs }];
    for _ in 0..rng.below(6) {
        if !(ties && rng.chance(1, 3)) { d += 1000 * rng.range(1, 3) + if rng.chance(1, 6) { DAY } else { 0 }; }
        let mut evs = vec![];
        for _ in 0..(1 + rng.below(2)) {
            let g = *rng.pick(&groups);
            let reuse = !unique && rng.chance(1, 2) && used.len() > 1;
            let e = if reuse {
                let s = loop { let s = *rng.pick(&used); if s != (0, 0, author) { break s; } };
                match s.0 { 0 => Ev::Admin(s.2, !rng.chance(2, 3)), 1 => Ev::User(s.1, s.2, !rng.chance(2, 3)), 2 => Ev::UAdmin(s.1, s.2, !rng.chance(2, 3)),
                            _ => { let a = rng.chance(1, 3); Ev::Right(s.1, s.2, if clean_rights { a || rng.chance(1, 2) } else { rng.chance(1, 2) }, a) } }
            } else {
                match rng.below(8) {
                    0 => Ev::Admin(*rng.pick(&keys[1..]), true),
                    1..=3 => Ev::User(g, *rng.pick(&keys), !rng.chance(1, 4)),
                    4 => Ev::UAdmin(g, *rng.pick(&keys), true),
                    5..=6 => gen_right(rng, g),
                    _ => if next_g < 13 { let g = next_g; next_g += 1; groups.push(g); evs.push(Ev::Group(g)); gen_right(rng, g) } else { gen_right(rng, g) },
                }
            };
            if unique { if let Some(s) = slot(&e) { if used.contains(&s) { continue; } } }
            evs.push(e);
        }
        let evs = dedup(evs);
        if evs.is_empty() { continue; }
        for e in &evs { if let Some(s) = slot(e) { if !used.contains(&s) { used.push(s); } } }
        steps.push(Step { date: d, evs });
    }
    steps
}

// ------------------------------------------------------------------ applying a step by a real room mutation
struct Applied { ok: bool, uids: Vec<Option<[u8; 16]>> }   // per event of the step: uid of the written row

fn user_txt(p: &mut Parameters, n: &mut usize, ctx: &Ctx, k: u64, b: bool) -> String {
    *n += 1; let name = format!("k{}", n);
    p.add(&name, base64_encode(&ctx.vkey(k))).unwrap();
    format!("{{verif_key:${} enabled:{}}}", name, b)
}

async fn apply_step(ctx: &Ctx, a: &Inst, rid: &mut Option<[u8; 16]>, gids: &mut HashMap<u64, [u8; 16]>, st: &Step) -> Applied {
    verif_clock::set(st.date);
    let mut p = Parameters::default();
    let mut n = 0usize;
    let admins: Vec<usize> = (0..st.evs.len()).filter(|i| matches!(st.evs[*i], Ev::Admin(..))).collect();
    // groups touched, in order of first mention
    let mut gs: Vec<u64> = vec![];
    for e in &st.evs { let g = match e { Ev::Group(g) | Ev::User(g, ..) | Ev::UAdmin(g, ..) | Ev::Right(g, ..) => Some(*g), _ => None }; if let Some(g) = g { if !gs.contains(&g) { gs.push(g); } } }
    let mut txt = String::from("mutate { sys.Room{ ");
    if let Some(r) = rid { p.add("room", base64_encode(r)).unwrap(); txt.push_str("id:$room "); }
    if !admins.is_empty() {
        let l: Vec<String> = admins.iter().map(|i| if let Ev::Admin(k, b) = &st.evs[*i] { user_txt(&mut p, &mut n, ctx, *k, *b) } else { unreachable!() }).collect();
        txt.push_str(&format!("admin:[{}] ", l.join(",")));
    }
    let mut order: Vec<(u64, Vec<usize>, Vec<usize>, Vec<usize>)> = vec![];   // per group: indices of rights, users, user admins
    if !gs.is_empty() {
        let mut parts = vec![];
        for g in &gs {
            let mut s = String::from("{ ");
            match gids.get(g) { Some(u) => { let name = format!("g{}", g); p.add(&name, base64_encode(u)).unwrap(); s.push_str(&format!("id:${} ", name)); }
                                None => s.push_str(&format!("name:\"g{}\" ", g)) }
            let rs: Vec<usize> = (0..st.evs.len()).filter(|i| matches!(&st.evs[*i], Ev::Right(g2, ..) if g2 == g)).collect();
            let us: Vec<usize> = (0..st.evs.len()).filter(|i| matches!(&st.evs[*i], Ev::User(g2, ..) if g2 == g)).collect();
            let uas: Vec<usize> = (0..st.evs.len()).filter(|i| matches!(&st.evs[*i], Ev::UAdmin(g2, ..) if g2 == g)).collect();
            if !rs.is_empty() { let l: Vec<String> = rs.iter().map(|i| if let Ev::Right(_, e, s, a) = &st.evs[*i] { format!("{{entity:\"{}\" mutate_self:{} mutate_all:{}}}", ent_name(*e), s, a) } else { unreachable!() }).collect(); s.push_str(&format!("rights:[{}] ", l.join(","))); }
            if !us.is_empty() { let l: Vec<String> = us.iter().map(|i| if let Ev::User(_, k, b) = &st.evs[*i] { user_txt(&mut p, &mut n, ctx, *k, *b) } else { unreachable!() }).collect(); s.push_str(&format!("users:[{}] ", l.join(","))); }
            if !uas.is_empty() { let l: Vec<String> = uas.iter().map(|i| if let Ev::UAdmin(_, k, b) = &st.evs[*i] { user_txt(&mut p, &mut n, ctx, *k, *b) } else { unreachable!() }).collect(); s.push_str(&format!("user_admin:[{}] ", l.join(","))); }
            s.push('}');
            parts.push(s);
            order.push((*g, rs, us, uas));
        }
        txt.push_str(&format!("authorisations:[{}] ", parts.join(",")));
    }
    txt.push_str("} }");
    let mut uids: Vec<Option<[u8; 16]>> = vec![None; st.evs.len()];
    match a.db.mutate_raw(&txt, Some(p)).await {
        Err(_) => Applied { ok: false, uids },
        Ok(res) => {
            let ri = &res.mutate_entities[0];
            if rid.is_none() { *rid = Some(ri.node_to_mutate.id); }
            if let Some(l) = ri.sub_nodes.get("admin") { for (j, i) in admins.iter().enumerate() { uids[*i] = Some(l[j].node_to_mutate.id); } }
            if let Some(l) = ri.sub_nodes.get("authorisations") {
                for (j, (g, rs, us, uas)) in order.iter().enumerate() {
                    let ai = &l[j];
                    gids.entry(*g).or_insert(ai.node_to_mutate.id);
                    if let Some(x) = ai.sub_nodes.get("rights") { for (q, i) in rs.iter().enumerate() { uids[*i] = Some(x[q].node_to_mutate.id); } }
                    if let Some(x) = ai.sub_nodes.get("users") { for (q, i) in us.iter().enumerate() { uids[*i] = Some(x[q].node_to_mutate.id); } }
                    if let Some(x) = ai.sub_nodes.get("user_admin") { for (q, i) in uas.iter().enumerate() { uids[*i] = Some(x[q].node_to_mutate.id); } }
                }
            }
            Applied { ok: true, uids }
        }
    }
}

/// model group ids follow the order of the real group uids (the primary-key order of the references)
fn remap(e: &Ev, gm: &HashMap<u64, u64>) -> Ev {
    let m = |g: &u64| *gm.get(g).unwrap_or(g);
    match e { Ev::Group(g) => Ev::Group(m(g)), Ev::User(g, k, b) => Ev::User(m(g), *k, *b), Ev::UAdmin(g, k, b) => Ev::UAdmin(m(g), *k, *b),
              Ev::Right(g, x, s, a) => Ev::Right(m(g), *x, *s, *a), x => x.clone() }
}
fn group_map(gids: &HashMap<u64, [u8; 16]>) -> HashMap<u64, u64> {
    let mut v: Vec<(&u64, &[u8; 16])> = gids.iter().collect();
    v.sort_by(|a, b| a.1.cmp(b.1));
    v.iter().enumerate().map(|(i, (g, _))| (**g, 10 + i as u64)).collect()
}
fn steps_coq(steps: &[Step], ranks: &[Vec<u64>], gm: &HashMap<u64, u64>) -> String {
    glist(&steps.iter().zip(ranks).map(|(st, rk)| glist(&st.evs.iter().zip(rk).map(|(e, r)| format!("({}, {})", gn(*r), ev_coq(&remap(e, gm), st.date))).collect::<Vec<_>>())).collect::<Vec<_>>())
}
fn rank_uids(uids: &[Vec<Option<[u8; 16]>>]) -> Vec<Vec<u64>> {
    let mut all: Vec<[u8; 16]> = uids.iter().flatten().filter_map(|u| *u).collect();
    all.sort();
    uids.iter().map(|v| v.iter().map(|u| match u { Some(u) => 100 + all.iter().position(|x| x == u).unwrap() as u64, None => 0 }).collect()).collect()
}
fn gen_probes(rng: &mut Rng, author: u64, steps: &[Step], n: usize) -> Vec<(u64, u64, i64)> {
    let mut ds: Vec<i64> = steps.iter().map(|s| s.date).collect();
    ds.push(ds[ds.len() - 1] + 5000);
    let keys = [author, 2, 3, 4, 5];
    (0..n).map(|_| (*rng.pick(&keys), rng.below(3), *rng.pick(&ds) + rng.range(-1, 1))).collect()
}

struct Pending { burst: bool, kind: String, author: u64, steps: Vec<Step>, ranks: Vec<Vec<u64>>, gm: HashMap<u64, u64>, probes: Vec<(u64, u64, i64)>, rid: [u8; 16],
                 head: Vec<i64>, fresh: Vec<i64>, chain: Vec<i64>, chain_dec: Vec<i64>, meta: serde_json::Value }

/// one history through A (live), B (import after every step), F (import of the final definition)
async fn run_history(ctx: &mut Ctx, a: &mut Inst, b: &mut Inst, f: &mut Inst, kind: &str, steps: Vec<Step>, probes: Vec<(u64, u64, i64)>) -> Pending {
    let mut rid = None;
    let mut gids = HashMap::new();
    let mut oks = vec![];
    let mut uids = vec![];
    let mut chain = vec![];
    let mut live_room = None;
    let mut b_room = None;
    for st in &steps {
        let ap = apply_step(ctx, a, &mut rid, &mut gids, st).await;
        for _ in &st.evs { oks.push(ap.ok as i64); }
        uids.push(ap.uids);
        let r = rid.expect("the creation step is accepted");
        if ap.ok { if let Some(room) = wait_room(&mut a.rx, &r, 200).await { live_room = Some(room); } }
        let n = strip(a.db.get_room_node(r).await.unwrap().unwrap());
        match b.db.add_room_node(n).await {
            Err(e) => chain.push(err_code(&e)),
            Ok(()) => match wait_room(&mut b.rx, &r, 25).await { Some(room) => { b_room = Some(room); chain.push(1); } None => chain.push(0) },
        }
    }
    let rid = rid.unwrap();
    // deletion requests aimed at the definition: refused, and none of the views below may change
    let (dels, del_errs) = deletion_attempts(a, &rid, &gids, &steps, &uids).await;
    if let Some(room) = wait_room(&mut a.rx, &rid, 5).await { live_room = Some(room); }
    let mut head = dels;
    head.extend(oks);
    head.extend(decisions(ctx, live_room.as_ref().expect("live room event"), &probes));
    let nfin = strip(a.db.get_room_node(rid).await.unwrap().unwrap());
    let fresh = match f.db.add_room_node(nfin).await {
        Err(e) => vec![err_code(&e)],
        Ok(()) => match wait_room(&mut f.rx, &rid, 200).await { Some(room) => { let mut o = vec![1]; o.extend(decisions(ctx, &room, &probes)); o } None => vec![0] },
    };
    let chain_dec = match &b_room { Some(room) => { let mut o = vec![1]; o.extend(decisions(ctx, room, &probes)); o } None => vec![0] };
    let ranks = rank_uids(&uids);
    let nev: usize = steps.iter().map(|s| s.evs.len()).sum();
    let meta = json!({"steps": steps.len(), "events": nev, "fresh_verdict": fresh[0], "chain": chain.clone(), "deletion_requests": del_errs});
    Pending { burst: false, kind: kind.into(), author: a.key, steps, ranks, gm: group_map(&gids), probes, rid, head, fresh, chain, chain_dec, meta }
}



// ------------------------------------------------------------------ deletion requests aimed at the room definition
pub const NDEL: usize = 9;
/// deletion requests against the rows and references of the room definition: all must be refused (0); 1 = accepted
async fn deletion_attempts(a: &Inst, rid: &[u8; 16], gids: &HashMap<u64, [u8; 16]>, steps: &[Step], uids: &[Vec<Option<[u8; 16]>>]) -> (Vec<i64>, Vec<String>) {
    let mut first: HashMap<u64, (u64, [u8; 16])> = HashMap::new();   // list tag -> (group, row uid)
    for (st, us) in steps.iter().zip(uids) { for (e, u) in st.evs.iter().zip(us) {
        if let (Some((tag, g, _)), Some(u)) = (slot(e), u) { first.entry(tag).or_insert((g, *u)); }
    } }
    let b = |u: &[u8; 16]| base64_encode(u);
    let mut reqs: Vec<Option<(String, Vec<(&str, String)>)>> = vec![];
    reqs.push(first.get(&0).map(|(_, x)| ("delete d { sys.Room { $room admin[$x] } }".to_string(), vec![("room", b(rid)), ("x", b(x))])));
    reqs.push(gids.values().next().map(|g| ("delete d { sys.Room { $room authorisations[$g] } }".to_string(), vec![("room", b(rid)), ("g", b(g))])));
    for (tag, field) in [(3u64, "rights"), (1, "users"), (2, "user_admin")] {
        reqs.push(first.get(&tag).and_then(|(g, x)| gids.get(g).map(|gu| (format!("delete d {{ sys.Authorisation {{ $g {}[$x] }} }}", field), vec![("g", b(gu)), ("x", b(x))]))));
    }
    reqs.push(first.get(&1).map(|(_, x)| ("delete d { sys.UserAuth { $x } }".to_string(), vec![("x", b(x))])));
    reqs.push(first.get(&3).map(|(_, x)| ("delete d { sys.EntityRight { $x } }".to_string(), vec![("x", b(x))])));
    reqs.push(gids.values().next().map(|g| ("delete d { sys.Authorisation { $g } }".to_string(), vec![("g", b(g))])));
    reqs.push(Some(("delete d { sys.Room { $room } }".to_string(), vec![("room", b(rid))])));
    let mut out = vec![];
    let mut errs = vec![];
    for r in reqs {
        match r {
            None => { out.push(0); errs.push("not applicable".to_string()); }
            Some((txt, ps)) => {
                let mut p = Parameters::default();
                for (k, v) in ps { p.add(k, v).unwrap(); }
                match a.db.delete(&txt, Some(p)).await { Ok(_) => { out.push(1); errs.push("ACCEPTED".into()); } Err(e) => { out.push(0); errs.push(e.to_string()); } }
            }
        }
    }
    assert_eq!(out.len(), NDEL);
    (out, errs)
}

// ------------------------------------------------------------------ bursts: room mutations in flight together
fn user_uid(res: &MutationQuery) -> Option<[u8; 16]> {
    let ri = &res.mutate_entities[0];
    let a = ri.sub_nodes.get("authorisations")?.first()?;
    Some(a.sub_nodes.get("users")?.first()?.node_to_mutate.id)
}
async fn quiet_room(rx: &mut tokio::sync::broadcast::Receiver<Event>, rid: &[u8; 16]) -> Option<Arc<discret::Room>> {
    // the last RoomModified once no further event arrives for a while
    let mut last = None;
    let mut idle = 0;
    while idle < 40 {
        let mut got = false;
        while let Ok(e) = rx.try_recv() { if let Event::RoomModified(room) = e { if &room.id == rid { last = Some(room); got = true; } } }
        if got { idle = 0; } else { idle += 1; tokio::time::sleep(std::time::Duration::from_millis(5)).await; }
    }
    last
}
/// creation (awaited), then `n` additions of distinct users to group 10 sent without awaiting one another:
/// spawned mutate_raw calls, or one mutation_stream
async fn run_burst(ctx: &mut Ctx, a: &mut Inst, f: &mut Inst, kind: &str, n: u64, stream: bool, probes_of: fn(u64, i64) -> Vec<(u64, u64, i64)>, d: i64) -> Pending {
    let au = a.key;
    let first = Step { date: d, evs: vec![Ev::Admin(au, true), Ev::Group(10), Ev::Right(10, 0, true, false), Ev::User(10, 2, true)] };
    let mut rid = None;
    let mut gids = HashMap::new();
    let ap = apply_step(ctx, a, &mut rid, &mut gids, &first).await;
    let rid = rid.unwrap();
    let _ = wait_room(&mut a.rx, &rid, 200).await;
    let mut uids = vec![ap.uids];
    let mut head: Vec<i64> = first.evs.iter().map(|_| ap.ok as i64).collect();
    let d2 = d + 4000;
    verif_clock::set(d2);
    let burst = Step { date: d2, evs: (0..n).map(|i| Ev::User(10, 9 + i, true)).collect() };
    let txt = r#"mutate { sys.Room{ id:$room authorisations:[{ id:$g users:[{verif_key:$k enabled:true}] }] } }"#;
    let params = |i: u64| { let mut p = Parameters::default(); p.add("room", base64_encode(&rid)).unwrap(); p.add("g", base64_encode(gids.get(&10).unwrap())).unwrap(); p.add("k", base64_encode(&ctx.vkey(9 + i))).unwrap(); p };
    let mut results: Vec<Option<[u8; 16]>> = vec![];
    if stream {
        let (send, mut recv) = a.db.mutation_stream();
        let ps: Vec<Parameters> = (0..n).map(|i| params(i)).collect();
        let sender = tokio::spawn(async move { for p in ps { let _ = send.send((txt.to_string(), Some(p))).await; } });
        for _ in 0..n { match recv.recv().await { Some(Ok(r)) => results.push(user_uid(&r)), _ => results.push(None) } }
        let _ = sender.await;
    } else {
        let mut hs = vec![];
        for i in 0..n { let db = a.db.clone(); let p = params(i); hs.push(tokio::spawn(async move { db.mutate_raw(txt, Some(p)).await })); }
        for h in hs { match h.await { Ok(Ok(r)) => results.push(user_uid(&r)), _ => results.push(None) } }
    }
    // the stream answers in commit order, the spawned calls in spawn order: each result belongs to the key of its index
    // only for the spawned variant; for the stream the i-th answer is the i-th request as well (one channel, in order)
    for r in &results { head.push(r.is_some() as i64); }
    uids.push(results);
    let live = quiet_room(&mut a.rx, &rid).await.expect("live room event");
    let probes = probes_of(au, d2);
    head.extend(decisions(ctx, &live, &probes));
    let nfin = strip(a.db.get_room_node(rid).await.unwrap().unwrap());
    let fresh = match f.db.add_room_node(nfin).await {
        Err(e) => vec![err_code(&e)],
        Ok(()) => match wait_room(&mut f.rx, &rid, 200).await { Some(room) => { let mut o = vec![1]; o.extend(decisions(ctx, &room, &probes)); o } None => vec![0] },
    };
    let ranks = rank_uids(&uids);
    let steps = vec![first, burst];
    let meta = json!({"burst": n, "stream": stream, "fresh_verdict": fresh[0]});
    Pending { burst: true, kind: kind.into(), author: au, steps, ranks, gm: group_map(&gids), probes, rid, head, fresh, chain: vec![], chain_dec: vec![], meta }
}

// ------------------------------------------------------------------ jumps: a peer that skipped versions
fn jump_obs(ctx: &mut Ctx, old: &RM, cand: &RM, probes: &[(u64, u64, i64)]) -> Vec<i64> {
    let old_real = ctx.room_node(old);
    let mut ra = RoomAuthorisations { signing_key: Ed25519SigningKey::create_from(&[7u8; 32]), rooms: HashMap::new(), max_node_size: 2000 };
    let known = match old_real.parse() { Ok(r) => r, Err(_) => return vec![-1] };
    ra.rooms.insert(known.id, known.clone());
    let mut c = ctx.room_node(cand);
    let mut obs = match ra.prepare_room_node(Some(old_real), &mut c) {
        Err(e) => vec![err_code(&e)],
        Ok(false) => { let mut o = vec![0]; o.extend(decisions(ctx, &known, probes)); o }
        Ok(true) => { let mut o = vec![1]; if let Ok(r) = c.parse() { o.extend(decisions(ctx, &r, probes)); } o }
    };
    let ra2 = RoomAuthorisations { signing_key: Ed25519SigningKey::create_from(&[7u8; 32]), rooms: HashMap::new(), max_node_size: 2000 };
    let mut c2 = ctx.room_node(cand);
    match ra2.prepare_room_node(None, &mut c2) {
        Err(e) => obs.push(err_code(&e)),
        Ok(_) => { obs.push(1); if let Ok(r) = c2.parse() { obs.extend(decisions(ctx, &r, probes)); } }
    }
    obs
}
/// honest multi-author histories (administrators adding administrators who add entries, user admins adding
/// users): every earlier state -> every later state, directly
fn jump_cases(rng: &mut Rng, ctx: &mut Ctx, out: &mut Out, nhist: usize, stats: &mut HashMap<String, u64>) {
    // directed: key 1 founds the room, makes key 2 administrator, key 2 makes key 3 administrator, key 3 makes key 4
    // administrator and user admin and gives key 5 a right as a user; every earlier version -> every later one
    {
        let d0 = BASE;
        let mut next = 100;
        let mut r = RM { id: 1, cdate: d0, date: d0, author: 1, aedges: vec![], anodes: vec![], gedges: vec![], gnodes: vec![] };
        add_u(&mut r.anodes, &mut r.aedges, &mut next, 1, L_ADMIN, d0, 1, 1, true);
        let mut g = AN { id: 10, date: d0, author: 1, cdate: d0, redges: vec![], rnodes: vec![], uedges: vec![], unodes: vec![], aedges: vec![], anodes: vec![] };
        add_r(&mut g, &mut next, d0, 1, 0, true, false);
        r.gedges.push(ED { src: 1, label: L_AUTHS, dest: 10, date: d0, author: 1 });
        r.gnodes.push(g);
        let mut states = vec![r.clone()];
        for (i, (author, newk)) in [(1u64, 2u64), (2, 3), (3, 4)].iter().enumerate() {
            let d = d0 + 2000 * (i as i64 + 1);
            add_u(&mut r.anodes, &mut r.aedges, &mut next, 1, L_ADMIN, d, *author, *newk, true);
            r.date = d; r.author = *author;
            if *author == 3 {
                let g = &mut r.gnodes[0];
                add_u(&mut g.anodes, &mut g.aedges, &mut next, 10, L_UADMIN, d, 3, 4, true);
                add_u(&mut g.unodes, &mut g.uedges, &mut next, 10, L_USERS, d, 3, 5, true);
                g.date = d; g.author = 3;
            }
            states.push(r.clone());
        }
        let probes: Vec<(u64, u64, i64)> = vec![(1, 1, d0 + 9000), (2, 1, d0 + 9000), (3, 1, d0 + 9000), (4, 1, d0 + 9000), (5, 1, d0 + 9000), (3, 1, d0 + 3000)];
        for p in 0..states.len() { for q in (p + 1)..states.len() {
            let obs = jump_obs(ctx, &states[p], &states[q], &probes);
            out.push(Case { kind: "jump:directed_admin_chain".into(), coq: format!("CJump {} {} {}", rm_coq(&states[p]), rm_coq(&states[q]), probes_coq(&probes)),
                meta: json!({"from": p, "to": q, "jump": obs[0]}), obs });
        } }
    }
    for _ in 0..nhist {
        let mut r = rng.fork();
        let creator = 1 + r.below(2);
        let also = if r.chance(1, 3) { Some(3 - creator) } else { None };
        let steps = 2 + r.below(5) as usize;
        let h = honest(&mut r, ctx, 1, 100, 10, steps, creator, also, false);
        let n = h.states.len();
        let mut dates = h.dates.clone(); dates.push(h.dates[n - 1] + 5000);
        for p in 0..n { for q in (p + 1)..n {
            if h.states[p] == h.states[q] || (q > p + 1 && r.chance(1, 3)) { continue; }
            let probes: Vec<(u64, u64, i64)> = (0..5).map(|_| (1 + r.below(6), r.below(3), *r.pick(&dates) + r.range(-1, 1))).collect();
            let obs = jump_obs(ctx, &h.states[p], &h.states[q], &probes);
            let fv = if obs[0] >= 0 && obs[0] <= 1 { obs[1 + 5 * probes.len()] } else { obs[1] };
            *stats.entry(format!("jump={} fresh={}", obs[0], fv)).or_insert(0) += 1;
            out.push(Case { kind: format!("jump:{}", if q == p + 1 { "next" } else { "skipping" }),
                coq: format!("CJump {} {} {}", rm_coq(&h.states[p]), rm_coq(&h.states[q]), probes_coq(&probes)),
                meta: json!({"from": p, "to": q, "jump": obs[0], "fresh": fv}), obs });
        } }
    }
}

async fn import_obs(ctx: &Ctx, inst: &mut Inst, n: RoomNode, rid: &[u8; 16], probes: &[(u64, u64, i64)], held: Option<Arc<discret::Room>>) -> Vec<i64> {
    match inst.db.add_room_node(n).await {
        Err(e) => vec![err_code(&e)],
        Ok(()) => match wait_room(&mut inst.rx, rid, 100).await {
            Some(room) => { let mut o = vec![1]; o.extend(decisions(ctx, &room, probes)); o }
            None => { let mut o = vec![0]; if let Some(r) = held { o.extend(decisions(ctx, &r, probes)); } o }
        },
    }
}
/// the same on real instances: `a` creates the room, `b` is the second author (made administrator, or user
/// admin, by `a`), `f` holds the first version only and receives the last one directly, `g` never saw the room
async fn jump_e2e(ctx: &mut Ctx, a: &mut Inst, b: &mut Inst, f: &mut Inst, g: &mut Inst, out: &mut Out, t0: i64) {
    for kind in ["admin_adds_admin_who_adds_admin", "admin_adds_admin_who_adds_group_with_user_admin_and_users"] {
        let d = t0 + if kind == "admin_adds_admin_who_adds_admin" { 0 } else { 100_000 };
        verif_clock::set(d);
        let mut p = Parameters::default();
        p.add("a", base64_encode(&ctx.vkey(a.key))).unwrap(); p.add("b", base64_encode(&ctx.vkey(b.key))).unwrap(); p.add("k2", base64_encode(&ctx.vkey(2))).unwrap();
        let txt = r#"mutate { sys.Room{ admin:[{verif_key:$a}] authorisations:[{ name:"g" rights:[{entity:"*" mutate_self:true mutate_all:false}] users:[{verif_key:$k2}] }] } }"#;
        let res = a.db.mutate_raw(txt, Some(p)).await.unwrap();
        let rid = res.mutate_entities[0].node_to_mutate.id;
        let gid = res.mutate_entities[0].sub_nodes.get("authorisations").unwrap()[0].node_to_mutate.id;
        let n1 = strip(a.db.get_room_node(rid).await.unwrap().unwrap());
        f.db.add_room_node(n1.clone()).await.expect("the first version is imported");
        let held = wait_room(&mut f.rx, &rid, 200).await;
        b.db.add_room_node(n1.clone()).await.expect("the first version is imported");
        let _ = wait_room(&mut b.rx, &rid, 200).await;
        {
            verif_clock::set(d + 2000);
            let mut p = Parameters::default();
            p.add("room", base64_encode(&rid)).unwrap(); p.add("b", base64_encode(&ctx.vkey(b.key))).unwrap();
            a.db.mutate_raw(r#"mutate { sys.Room{ id:$room admin:[{verif_key:$b}] } }"#, Some(p)).await.unwrap();
            let n2 = strip(a.db.get_room_node(rid).await.unwrap().unwrap());
            b.db.add_room_node(n2).await.expect("the second version is imported by the new administrator");
            let _ = wait_room(&mut b.rx, &rid, 200).await;
        }
        verif_clock::set(d + 4000);
        let mut p = Parameters::default();
        p.add("room", base64_encode(&rid)).unwrap(); p.add("g", base64_encode(&gid)).unwrap(); p.add("k3", base64_encode(&ctx.vkey(3))).unwrap();
        p.add("k4", base64_encode(&ctx.vkey(4))).unwrap();
        let txt2 = if kind == "admin_adds_admin_who_adds_admin" { r#"mutate { sys.Room{ id:$room admin:[{verif_key:$k3}] authorisations:[{ id:$g users:[{verif_key:$k4}] }] } }"# }
                   else { r#"mutate { sys.Room{ id:$room authorisations:[{ name:"g2" rights:[{entity:"ns.E1" mutate_self:true mutate_all:true}] user_admin:[{verif_key:$k4}] users:[{verif_key:$k3}] }] } }"# };
        let second = b.db.mutate_raw(txt2, Some(p)).await;
        let live_b = wait_room(&mut b.rx, &rid, 200).await;
        let n3 = strip(b.db.get_room_node(rid).await.unwrap().unwrap());
        let old = ctx.rm_of(&strip(f.db.get_room_node(rid).await.unwrap().unwrap()));
        let cand = ctx.rm_of(&n3);
        let probes: Vec<(u64, u64, i64)> = vec![(a.key, 1, d + 9000), (b.key, 1, d + 9000), (b.key, 1, d + 1000), (2, 1, d + 9000), (3, 1, d + 9000), (3, 1, d + 3000), (4, 1, d + 9000)];
        verif_clock::set(d + 8000);
        let mut obs = import_obs(ctx, f, n3.clone(), &rid, &probes, held).await;
        obs.extend(import_obs(ctx, g, n3, &rid, &probes, None).await);
        let live_agrees = live_b.map(|r| decisions(ctx, &r, &probes));
        out.push(Case { kind: format!("jump_e2e:{}", kind), coq: format!("CJump {} {} {}", rm_coq(&old), rm_coq(&cand), probes_coq(&probes)),
            meta: json!({"second_author_mutation_ok": second.is_ok(), "second_author_error": second.as_ref().err().map(|e| e.to_string()), "jump": obs[0], "live_room_of_second_author": live_agrees}), obs });
    }
}

/// LOAD_QUERY result of an instance, split by room, each room loaded on its own by load_json
async fn reload_by_room(ctx: &Ctx, inst: &Inst) -> HashMap<String, Option<discret::Room>> {
    let q = inst.db.query(RoomAuthorisations::LOAD_QUERY, None).await.unwrap();
    let v: serde_json::Value = serde_json::from_str(&q).unwrap();
    let mut out = HashMap::new();
    for r in v["sys.Room"].as_array().unwrap() {
        let id = r["id"].as_str().unwrap().to_string();
        let one = json!({"sys.Room": [r]}).to_string();
        let mut ra = RoomAuthorisations { signing_key: Ed25519SigningKey::create_from(&[7u8; 32]), rooms: HashMap::new(), max_node_size: 2000 };
        let room = match ra.load_json(&one) { Ok(()) => ra.rooms.into_values().next(), Err(_) => None };
        out.insert(id, room);
    }
    let _ = ctx;
    out
}

/// a history on an instance of its own, stopped and started again on the same folder
async fn restart_case(ctx: &mut Ctx, name: &str, steps: Vec<Step>, probes_of: fn(u64) -> Vec<(u64, u64, i64)>) -> Case {
    let mut r = start_inst(ctx, "restart").await;
    let author = r.key;
    let steps: Vec<Step> = steps.into_iter().map(|s| Step { date: s.date, evs: s.evs.into_iter().map(|e| match e {
        Ev::Admin(1, b) => Ev::Admin(author, b), Ev::User(g, 1, b) => Ev::User(g, author, b), Ev::UAdmin(g, 1, b) => Ev::UAdmin(g, author, b), x => x }).collect() }).collect();
    let probes = probes_of(author);
    let mut rid = None;
    let mut gids = HashMap::new();
    let mut obs = vec![];
    let mut uids = vec![];
    let mut live = None;
    for st in &steps {
        let ap = apply_step(ctx, &r, &mut rid, &mut gids, st).await;
        for _ in &st.evs { obs.push(ap.ok as i64); }
        uids.push(ap.uids);
        if let Some(room) = wait_room(&mut r.rx, &rid.unwrap(), 200).await { live = Some(room); }
    }
    obs.extend(decisions(ctx, live.as_ref().unwrap(), &probes));
    let (path, secret) = (r.path.clone(), r.secret);
    drop(r);
    tokio::time::sleep(std::time::Duration::from_millis(300)).await;
    let again = GraphDatabaseService::start("c10", MODEL, &secret, &random32(), path.clone(), &Configuration::default(), EventService::new()).await;
    obs.push(again.is_ok() as i64);
    let msg = again.as_ref().err().map(|e| e.to_string());
    drop(again);
    tokio::time::sleep(std::time::Duration::from_millis(200)).await;
    let _ = std::fs::remove_dir_all(&path);
    let ranks = rank_uids(&uids);
    Case { kind: format!("restart:{}", name), coq: format!("CRestart {} {} {}", gn(author), steps_coq(&steps, &ranks, &group_map(&gids)), probes_coq(&probes)),
           meta: json!({"restart_ok": obs[obs.len() - 1], "start_error": msg}), obs }
}

#[tokio::main(flavor = "multi_thread")]
async fn main() {
    let mut out = Out::create();
    let mut rng = Rng::from_env();
    let mut ctx = Ctx::new();
    let d = BASE + 5000;
    // ---- directed: restart of a real instance on its own data
    let pr: fn(u64) -> Vec<(u64, u64, i64)> = |a| vec![(a, 1, BASE + 20_000), (2, 1, BASE + 6000), (2, 1, BASE + 20_000), (3, 2, BASE + 20_000)];
    let base0 = vec![Ev::Admin(1, true), Ev::Group(10), Ev::Right(10, 0, true, false), Ev::User(10, 2, true)];
    let c = restart_case(&mut ctx, "user_enabled_then_disabled", vec![Step { date: d, evs: base0.clone() }, Step { date: d + 3000, evs: vec![Ev::User(10, 2, false)] }], pr).await;
    out.push(c);
    let c = restart_case(&mut ctx, "one_entry_per_key", vec![Step { date: d, evs: base0.clone() }, Step { date: d + 3000, evs: vec![Ev::User(10, 3, true), Ev::Right(10, 1, true, true)] }], pr).await;
    out.push(c);
    let c = restart_case(&mut ctx, "right_replaced_later", vec![Step { date: d, evs: base0.clone() }, Step { date: d + 3000, evs: vec![Ev::Right(10, 0, false, false)] }], pr).await;
    out.push(c);

    // ---- histories through A / B / F
    verif_clock::set(BASE);
    let mut a = start_inst(&mut ctx, "a").await;
    let mut b = start_inst(&mut ctx, "b").await;
    let mut f = start_inst(&mut ctx, "f").await;
    let au = a.key;
    let mut pend = vec![];
    let dp = vec![(au, 1, d + 20_000), (2, 1, d + 1000), (2, 1, d + 20_000), (2, 2, d + 20_000), (3, 1, d + 20_000)];
    let base1 = vec![Ev::Admin(au, true), Ev::Group(10), Ev::Right(10, 0, true, false), Ev::User(10, 2, true)];
    let directed: Vec<(&str, Vec<Step>)> = vec![
        ("directed:user_enabled_then_disabled", vec![Step { date: d, evs: base1.clone() }, Step { date: d + 3000, evs: vec![Ev::User(10, 2, false)] }]),
        ("directed:right_all_without_self", vec![Step { date: d, evs: vec![Ev::Admin(au, true), Ev::Group(10), Ev::Right(10, 1, false, true), Ev::User(10, 2, true)] }]),
        ("directed:same_date_tie", vec![Step { date: d, evs: base1.clone() }, Step { date: d + 3000, evs: vec![Ev::User(10, 3, true)] }, Step { date: d + 3000, evs: vec![Ev::User(10, 3, false)] }]),
        ("directed:one_entry_per_key", vec![Step { date: d, evs: base1.clone() }, Step { date: d + 3000, evs: vec![Ev::User(10, 3, true), Ev::UAdmin(10, 4, true)] }, Step { date: d + 6000, evs: vec![Ev::Group(11), Ev::Right(11, 2, true, true), Ev::User(11, 2, true)] }]),
    ];
    for (name, steps) in directed {
        // the import order of same-date rows follows their random uids: repeat the tie scenario so that both orders show up
        let reps = if name == "directed:same_date_tie" { 4 } else { 1 };
        for _ in 0..reps {
            let p = run_history(&mut ctx, &mut a, &mut b, &mut f, name, steps.clone(), dp.clone()).await;
            pend.push(p);
        }
    }
    // ---- bursts of room mutations in flight together (spawned calls, one stream)
    let bp: fn(u64, i64) -> Vec<(u64, u64, i64)> = |a, d| vec![(a, 1, d + 1), (2, 1, d + 1), (9, 1, d + 1), (9, 1, d - 1), (12, 2, d), (16, 1, d + 5), (20, 1, d + 5), (21, 1, d + 5)];
    let mut tb = d + 400_000;
    for (name, n, stream) in [("burst:spawned_12", 12u64, false), ("burst:spawned_4", 4, false), ("burst:stream_12", 12, true)] {
        for _ in 0..scale(2, 6) {
            tb += 20_000;
            let p = run_burst(&mut ctx, &mut a, &mut f, name, n, stream, bp, tb).await;
            pend.push(p);
        }
    }
    // ---- a peer that skipped versions, on real instances with two authors
    let mut g = start_inst(&mut ctx, "g").await;
    jump_e2e(&mut ctx, &mut a, &mut b, &mut f, &mut g, &mut out, tb + 500_000).await;
    // ---- the same on generated multi-author histories (prepare_room_node on validly signed rows)
    let mut jstats: HashMap<String, u64> = HashMap::new();
    jump_cases(&mut rng, &mut ctx, &mut out, scale(28, 500), &mut jstats);
    eprintln!("c10 jumps: {:?}", jstats);
    let n = scale(110, 1500);
    for i in 0..n {
        let mut r = rng.fork();
        let unique = r.chance(1, 2);
        let clean = r.chance(2, 3);
        let ties = i % 2 == 0;
        let steps = gen_history(&mut r, au, unique, clean, ties);
        let np = 5 + r.below(4) as usize;
        let probes = gen_probes(&mut r, au, &steps, np);
        let kind = format!("history:{}{}{}", if unique { "one_entry_per_key" } else { "several_entries" }, if clean { "" } else { ":raw_rights" }, if ties { ":ties" } else { "" });
        let p = run_history(&mut ctx, &mut a, &mut b, &mut f, &kind, steps, probes).await;
        pend.push(p);
    }
    // ---- reload path of A and of B, room by room
    let ra = reload_by_room(&ctx, &a).await;
    let rb = reload_by_room(&ctx, &b).await;
    let mut dist: HashMap<String, u64> = HashMap::new();
    for p in pend {
        let id = discret::verif_hooks::security::uid_encode(&p.rid);
        let part = |m: &HashMap<String, Option<discret::Room>>| match m.get(&id) { Some(Some(room)) => { let mut o = vec![1]; o.extend(decisions(&ctx, room, &p.probes)); o } _ => vec![0] };
        let mut obs = p.head.clone();
        obs.extend(part(&ra));
        obs.extend(p.fresh.clone());
        if !p.burst {
            obs.extend(p.chain.clone());
            obs.extend(p.chain_dec.clone());
            if p.chain.iter().all(|v| *v <= 1) { obs.extend(part(&rb)); }
        }
        let reload_ok = matches!(ra.get(&id), Some(Some(_)));
        *dist.entry(format!("reload_ok={} fresh={}", reload_ok, p.fresh[0])).or_insert(0) += 1;
        let mut meta = p.meta.clone();
        meta["reload_ok"] = json!(reload_ok);
        out.push(Case { kind: p.kind, coq: format!("{} {} {} {}", if p.burst { "CBurst" } else { "CHist" }, gn(p.author), steps_coq(&p.steps, &p.ranks, &p.gm), probes_coq(&p.probes)), obs, meta });
    }
    eprintln!("c10 distribution: {:?}", dist);
    verif_clock::clear();
    drop(a); drop(b); drop(f); drop(g);
    tokio::time::sleep(std::time::Duration::from_millis(300)).await;
    for dname in ["a", "b", "f", "g", "restart"] { let _ = std::fs::remove_dir_all(format!("{}/C10/{}", work_dir(), dname)); }
    out.finish();
}
