//! C08 correspondence: the real InboundQueryService::process_inbound of a real instance (several
//! rooms, several membership profiles of a harness-held key, rows / references / tombstones in
//! every room) driven with generated request sequences over every Query kind and identifiers from
//! all rooms, interleaved with the handshake result (key bound, ready flag), real room-definition
//! mutations and the RoomDefinitionChanged handling of the connection; vs the Gallina model
//! Outbound.v.  Every Answer is decoded with bincode to its payload type and each item is mapped to
//! the room it belongs to.
use discret::verif_hooks::configuration::Configuration;
use discret::verif_hooks::database::daily_log::{DailyLog, RoomDefinitionLog};
use discret::verif_hooks::database::edge::{Edge, EdgeDeletionEntry};
use discret::verif_hooks::database::graph_database::GraphDatabaseService;
use discret::verif_hooks::database::node::{Node, NodeDeletionEntry, NodeIdentifier};
use discret::verif_hooks::database::room::Room;
use discret::verif_hooks::database::room_node::RoomNode;
use discret::verif_hooks::date_utils::verif_clock;
use discret::verif_hooks::event_service::{Event, EventService};
use discret::verif_hooks::security::{base64_encode, random32, HardwareFingerprint};
use discret::verif_hooks::synchronisation::peer_outbound_service::{InboundQueryService, RemotePeerHandle};
use discret::verif_hooks::synchronisation::{Answer, Error as SyncError, IdentityAnswer, Query, QueryProtocol};
use discret::{Parameters, ParametersAdd};
use serde_json::json;
use std::collections::{BTreeSet, HashMap, HashSet, VecDeque};
use std::path::PathBuf;
use std::sync::atomic::{AtomicBool, Ordering};
use std::sync::Arc;
use tokio::sync::{broadcast, mpsc, Mutex};
use vharness::common::*;

type Uid = [u8; 16];
const BASE: i64 = 1_700_000_000_000;
const MODEL: &str = "ns { Person{ name:String, pets:[ns.Pet] } Pet{ name:String } }";
const UNKNOWN: u64 = 99;

// ---- model-side vocabulary -------------------------------------------------------------------
#[derive(Clone, Debug)]
enum Ev { Group(u64), Admin(u64, i64, bool), User(u64, u64, i64, bool), UAdmin(u64, u64, i64, bool), Right(u64, u64, i64, bool, bool) }
impl Ev {
    fn coq(&self) -> String {
        match self {
            Ev::Group(g) => format!("EvGroup {}", gn(*g)),
            Ev::Admin(k, d, b) => format!("EvAdmin {} {} {}", gn(*k), gz(*d), gb(*b)),
            Ev::User(g, k, d, b) => format!("EvUser {} {} {} {}", gn(*g), gn(*k), gz(*d), gb(*b)),
            Ev::UAdmin(g, k, d, b) => format!("EvUAdmin {} {} {} {}", gn(*g), gn(*k), gz(*d), gb(*b)),
            Ev::Right(g, e, d, s, a) => format!("EvRight {} {} {} {} {}", gn(*g), gn(*e), gz(*d), gb(*s), gb(*a)),
        }
    }
}
#[derive(Clone, Copy, Debug, PartialEq)]
enum Rk { Definition, Node, Log, LogAt, EdgeDel, NodeDel, DailyNodes, Peers }
impl Rk {
    fn coq(&self) -> &'static str {
        match self { Rk::Definition => "RDefinition", Rk::Node => "RNode", Rk::Log => "RLog", Rk::LogAt => "RLogAt", Rk::EdgeDel => "REdgeDeletionLog",
                     Rk::NodeDel => "RNodeDeletionLog", Rk::DailyNodes => "RDailyNodes", Rk::Peers => "RPeers" }
    }
    const ALL: [Rk; 8] = [Rk::Definition, Rk::Node, Rk::Log, Rk::LogAt, Rk::EdgeDel, Rk::NodeDel, Rk::DailyNodes, Rk::Peers];
}
#[derive(Clone, Debug)]
enum Qry { Prove, Fingerprint, RoomList, Room(Rk, u64, u64 /*entity selector*/, i64 /*date*/), Nodes(u64, Vec<u64>), Edges(u64, Vec<(u64, i64)>) }
#[derive(Clone, Debug)]
enum OEv { Bind, Ready(bool), Define(u64, Ev), DefChanged(u64), Query(Qry) }

// ---- the real instance ---------------------------------------------------------------------------
struct RoomInfo { id: Uid, groups: Vec<(u64, Uid)>, evs: Vec<Ev>, snapshot: Option<Arc<Room>> }
#[allow(dead_code)]
struct NodeInfo { id: Uid, room: Option<u64>, entity: String, mdate: i64 }
struct EdgeInfo { src: u64, dest: Uid, label: String, cdate: i64 }
struct World {
    app: GraphDatabaseService,
    events: broadcast::Receiver<Event>,
    me: Vec<u8>,
    keys: HashMap<u64, Vec<u8>>,     // model key index -> verifying key bytes (1 = the instance itself)
    rooms: Vec<RoomInfo>,            // index r-1
    nodes: Vec<NodeInfo>,            // index n-1
    edges: Vec<EdgeInfo>,            // index e-1
    path: PathBuf,
    clock: i64,
    ent_person: String,
    ent_pet: String,
    del_day: i64,
}
fn b64(k: &[u8]) -> String { base64_encode(k) }

impl World {
    fn set_clock(&mut self, t: i64) { self.clock = t; verif_clock::set(t); }
    fn room_index(&self, id: &Uid) -> u64 { self.rooms.iter().position(|r| &r.id == id).map(|p| p as u64 + 1).unwrap_or(999) }
    fn room_uid(&self, r: u64) -> Uid { if r >= 1 && (r as usize) <= self.rooms.len() { self.rooms[r as usize - 1].id } else { uid_of(r) } }
    fn node_uid(&self, n: u64) -> Uid { if n >= 1 && (n as usize) <= self.nodes.len() { self.nodes[n as usize - 1].id } else { uid_of(7000 + n) } }

    /// every row of _node and _edge, read with plain SQL through the instance's reader connection (not through any of
    /// the filtered data sources): rows the harness did not create itself (room / group / member / right rows, deleted
    /// persons' remains) are appended to its tables, with the room the row really has
    async fn refresh_tables(&mut self) {
        let (tx, rx) = tokio::sync::oneshot::channel::<(Vec<(Uid, Option<Uid>, String, i64)>, Vec<(Uid, Uid, String, i64)>)>();
        self.app.db.reader.send_async(Box::new(move |conn: &rusqlite::Connection| {
            let mut nodes = vec![]; let mut edges = vec![];
            { let mut st = conn.prepare("SELECT id, room_id, _entity, mdate FROM _node ORDER BY rowid").unwrap();
              let mut rows = st.query([]).unwrap();
              while let Some(r) = rows.next().unwrap() { nodes.push((r.get(0).unwrap(), r.get(1).unwrap(), r.get(2).unwrap(), r.get(3).unwrap())); } }
            { let mut st = conn.prepare("SELECT src, dest, label, cdate FROM _edge ORDER BY cdate, src, label, dest").unwrap();
              let mut rows = st.query([]).unwrap();
              while let Some(r) = rows.next().unwrap() { edges.push((r.get(0).unwrap(), r.get(1).unwrap(), r.get(2).unwrap(), r.get(3).unwrap())); } }
            let _ = tx.send((nodes, edges));
        })).await.unwrap();
        let (nodes, edges) = rx.await.unwrap();
        for (id, room, entity, mdate) in nodes {
            if !self.nodes.iter().any(|n| n.id == id) {
                let room = room.map(|r| self.room_index(&r));
                self.nodes.push(NodeInfo { id, room, entity, mdate });
            }
        }
        for (src, dest, label, cdate) in edges {
            let si = match self.nodes.iter().position(|n| n.id == src) { Some(p) => p as u64 + 1, None => continue };
            if !self.edges.iter().any(|e| e.src == si && e.dest == dest && e.label == label) {
                self.edges.push(EdgeInfo { src: si, dest, label, cdate });
            }
        }
    }
    /// sources whose outgoing references change when a definition entry is added (room and group rows)
    fn volatile_src(&self, n: u64) -> bool { let e = &self.nodes[n as usize - 1].entity; !(e == &self.ent_person || e == &self.ent_pet) }

    /// waits for the RoomModified event of that room (the instance publishes one per accepted definition change)
    async fn await_room_event(&mut self, room: &Uid) -> Option<Arc<Room>> {
        let deadline = tokio::time::Instant::now() + std::time::Duration::from_millis(15000);
        loop {
            match tokio::time::timeout_at(deadline, self.events.recv()).await {
                Ok(Ok(Event::RoomModified(r))) => { if &r.id == room { return Some(r); } }
                Ok(Ok(_)) => {}
                Ok(Err(broadcast::error::RecvError::Lagged(_))) => {}
                _ => return None,
            }
        }
    }

    /// applies one definition entry through a real room mutation at the current clock; true = accepted
    async fn define(&mut self, r: u64, ev: &Ev) -> bool {
        let room = self.rooms[r as usize - 1].id;
        let mut p = P::default();
        p.add("room_id", b64(&room)).unwrap();
        let text = match ev {
            Ev::Admin(k, _, b) => { p.add("k", b64(&self.keys[k])).unwrap(); format!(r#"mutate {{ sys.Room{{ id:$room_id admin:[{{verif_key:$k enabled:{} }}] }} }}"#, b) }
            Ev::User(g, k, _, b) | Ev::UAdmin(g, k, _, b) => {
                let gid = self.rooms[r as usize - 1].groups.iter().find(|x| x.0 == *g).map(|x| x.1);
                let gid = match gid { Some(x) => x, None => return false };
                p.add("k", b64(&self.keys[k])).unwrap(); p.add("auth_id", b64(&gid)).unwrap();
                let field = if matches!(ev, Ev::User(..)) { "users" } else { "user_admin" };
                format!(r#"mutate {{ sys.Room{{ id:$room_id authorisations:[{{ id:$auth_id {}:[{{verif_key:$k enabled:{} }}] }}] }} }}"#, field, b)
            }
            _ => return false,
        };
        let res = mutate_retry(&self.app, &text, Some(p)).await;
        if res.is_ok() {
            let snap = self.await_room_event(&room).await;
            if snap.is_some() { self.rooms[r as usize - 1].snapshot = snap; }
            self.rooms[r as usize - 1].evs.push(ev.clone());
            true
        } else {
            self.rooms[r as usize - 1].evs.push(ev.clone());   // the model skips refused entries the same way (Rights.build)
            false
        }
    }
}


/// string parameters of a request, rebuilt for every attempt (Parameters is not Clone)
#[derive(Default, Clone)]
struct P(Vec<(String, String)>);
impl P {
    fn add(&mut self, k: &str, v: String) -> Result<(), ()> { self.0.push((k.to_string(), v)); Ok(()) }
    fn build(&self) -> Parameters { let mut p = Parameters::default(); for (k, v) in &self.0 { p.add(k, v.clone()).unwrap(); } p }
}

/// a write that fails because SQLite is busy (heavy machine load) was not applied: it is repeated.
/// Any other failure is a verdict and is returned.
fn is_busy<T>(r: &Result<T, discret::verif_hooks::database::Error>) -> bool {
    match r { Err(e) => { let s = format!("{:?} {}", e, e); s.contains("DatabaseBusy") || s.contains("database is locked") } Ok(_) => false }
}
async fn mutate_retry(app: &GraphDatabaseService, text: &str, p: Option<P>) -> Result<discret::verif_hooks::database::mutation_query::MutationQuery, discret::verif_hooks::database::Error> {
    let mut n = 0;
    loop {
        let r = app.mutate_raw(text, p.as_ref().map(|x| x.build())).await;
        if is_busy(&r) && n < 40 { n += 1; tokio::time::sleep(std::time::Duration::from_millis(250)).await; continue; }
        return r;
    }
}
async fn delete_retry(app: &GraphDatabaseService, text: &str, p: Option<P>) {
    let mut n = 0;
    loop {
        let r = app.delete(text, p.as_ref().map(|x| x.build())).await;
        if is_busy(&r) && n < 40 { n += 1; tokio::time::sleep(std::time::Duration::from_millis(250)).await; continue; }
        r.unwrap(); return;
    }
}

#[derive(Clone, Copy, Debug, PartialEq)]
enum Profile { Member, Former, Never, AdminOnly, UserAdminOnly, FormerAdmin, MemberTwoGroups,
               /// the room has an entry for the EMPTY key (room mutations accept verif_key:""): what an unauthenticated connection presents
               EmptyUser, EmptyAdmin, EmptyUserAdmin }
const PROFILES: [Profile; 10] = [Profile::Member, Profile::Former, Profile::Never, Profile::AdminOnly, Profile::UserAdminOnly, Profile::FormerAdmin, Profile::MemberTwoGroups,
                                 Profile::EmptyUser, Profile::EmptyAdmin, Profile::EmptyUserAdmin];

async fn build_world(tag: u64, profiles: &[Profile], with_data: bool) -> World {
    let path: PathBuf = format!("{}/C08/inst_{}", std::env::var("VERIF_WORK").unwrap_or("/verif/work".into()), tag).into();
    let _ = std::fs::remove_dir_all(&path);
    std::fs::create_dir_all(&path).unwrap();
    let t0 = BASE - 10 * DAY;
    verif_clock::set(t0);
    let events = EventService::new();
    let rx = events.subcribe().await;
    let mut tries = 0;
    let (app, me, _) = loop {
        match GraphDatabaseService::start("c08", MODEL, &random32(), &random32(), path.clone(), &Configuration::default(), events.clone()).await {
            Ok(x) => break x,
            Err(e) => { tries += 1; if tries > 20 { panic!("instance does not start: {}", e); } tokio::time::sleep(std::time::Duration::from_millis(300)).await; }
        }
    };
    let mut keys = HashMap::new();
    keys.insert(0u64, vec![]);      // the empty key
    keys.insert(1u64, me.clone());
    keys.insert(2u64, random32().to_vec());
    keys.insert(3u64, random32().to_vec());
    let mut w = World { app, events: rx, me, keys, rooms: vec![], nodes: vec![], edges: vec![], path, clock: t0, ent_person: String::new(), ent_pet: String::new(), del_day: BASE - 8 * DAY };
    for (ri, prof) in profiles.iter().enumerate() {
        let r = ri as u64 + 1;
        let d = t0 + (ri as i64) * 1000;
        w.set_clock(d);
        let g1 = 10 * r + 1; let g2 = 10 * r + 2;
        let two = *prof == Profile::MemberTwoGroups;
        let mut p = P::default();
        p.add("me", b64(&w.me)).unwrap(); p.add("kh", b64(&w.keys[&2])).unwrap(); p.add("k3", b64(&w.keys[&3])).unwrap();
        let kh_admin = matches!(prof, Profile::AdminOnly | Profile::FormerAdmin);
        let kh_user = matches!(prof, Profile::Member | Profile::Former | Profile::MemberTwoGroups);
        let kh_uadmin = matches!(prof, Profile::UserAdminOnly);
        p.add("k0", b64(&w.keys[&0])).unwrap();
        let admin = if kh_admin { "admin:[{verif_key:$me},{verif_key:$kh}]" } else if *prof == Profile::EmptyAdmin { "admin:[{verif_key:$me},{verif_key:$k0}]" } else { "admin:[{verif_key:$me}]" };
        let users1 = if kh_user { "users:[{verif_key:$kh},{verif_key:$k3}]" } else if *prof == Profile::EmptyUser { "users:[{verif_key:$k0},{verif_key:$k3}]" } else { "users:[{verif_key:$k3}]" };
        let ua1 = if kh_uadmin { "user_admin:[{verif_key:$kh}]" } else if *prof == Profile::EmptyUserAdmin { "user_admin:[{verif_key:$k0}]" } else { "" };
        let grp2 = if two { r#",{ name:"g2" rights:[{entity:"ns.Pet" mutate_self:true mutate_all:false}] users:[{verif_key:$kh}] }"# } else { "" };
        let text = format!(r#"mutate {{ sys.Room{{ {} authorisations:[{{ name:"g1" rights:[{{entity:"*" mutate_self:true mutate_all:true}}] {} {} }}{}] }} }}"#, admin, users1, ua1, grp2);
        let res = mutate_retry(&w.app, &text, Some(p)).await.unwrap();
        let ri_ = &res.mutate_entities[0];
        let room_id = ri_.node_to_mutate.id;
        let auths = ri_.sub_nodes.get("authorisations").unwrap();
        let mut groups = vec![(g1, auths[0].node_to_mutate.id)];
        if two { groups.push((g2, auths[1].node_to_mutate.id)); }
        let mut evs = vec![Ev::Admin(1, d, true)];
        if kh_admin { evs.push(Ev::Admin(2, d, true)); }
        if *prof == Profile::EmptyAdmin { evs.push(Ev::Admin(0, d, true)); }
        evs.push(Ev::Group(g1)); evs.push(Ev::Right(g1, 0, d, true, true));
        if kh_user { evs.push(Ev::User(g1, 2, d, true)); }
        if *prof == Profile::EmptyUser { evs.push(Ev::User(g1, 0, d, true)); }
        evs.push(Ev::User(g1, 3, d, true));
        if kh_uadmin { evs.push(Ev::UAdmin(g1, 2, d, true)); }
        if *prof == Profile::EmptyUserAdmin { evs.push(Ev::UAdmin(g1, 0, d, true)); }
        if two { evs.push(Ev::Group(g2)); evs.push(Ev::Right(g2, 2, d, true, false)); evs.push(Ev::User(g2, 2, d, true)); }
        w.rooms.push(RoomInfo { id: room_id, groups, evs, snapshot: None });
        let snap = w.await_room_event(&room_id).await;
        w.rooms[ri].snapshot = snap;
    }
    // revocations that happened before the connection
    for (ri, prof) in profiles.iter().enumerate() {
        let r = ri as u64 + 1;
        let d = BASE - 5 * DAY + ri as i64;
        match prof {
            Profile::Former => { w.set_clock(d); let ev = Ev::User(10 * r + 1, 2, d, false); let evs_len = w.rooms[ri].evs.len(); assert!(w.define(r, &ev).await); assert_eq!(w.rooms[ri].evs.len(), evs_len + 1); }
            Profile::FormerAdmin => { w.set_clock(d); let ev = Ev::Admin(2, d, false); assert!(w.define(r, &ev).await); }
            _ => {}
        }
    }
    // rows, references, tombstones in every room (written by the instance itself, admin everywhere)
    if with_data {
        for ri in 0..profiles.len() {
            let r = ri as u64 + 1;
            let room_id = w.rooms[ri].id;
            let d = BASE - 9 * DAY + ri as i64 * 10;
            w.set_clock(d);
            let mut p = P::default();
            p.add("room_id", b64(&room_id)).unwrap();
            let res = mutate_retry(&w.app, r#"mutate { ns.Person{ room_id:$room_id name:"p" pets:[{name:"a"},{name:"b"}] } }"#, Some(p)).await.unwrap();
            let pe = &res.mutate_entities[0];
            let pn = pe.node_to_mutate.node.as_ref().unwrap();
            w.ent_person = pn._entity.clone();
            w.nodes.push(NodeInfo { id: pe.node_to_mutate.id, room: Some(r), entity: pn._entity.clone(), mdate: pn.mdate });
            let person_idx = w.nodes.len() as u64;
            let pets = pe.sub_nodes.get("pets").unwrap();
            for pet in pets {
                let n = pet.node_to_mutate.node.as_ref().unwrap();
                w.ent_pet = n._entity.clone();
                w.nodes.push(NodeInfo { id: pet.node_to_mutate.id, room: Some(r), entity: n._entity.clone(), mdate: n.mdate });
            }
            for e in &pe.edge_insertions { w.edges.push(EdgeInfo { src: person_idx, dest: e.dest, label: e.label.clone(), cdate: e.cdate }); }
            // one more row that is then deleted, and one reference that is removed: tombstones of this room
            w.set_clock(w.del_day + ri as i64 * 10);
            let mut p = P::default();
            p.add("room_id", b64(&room_id)).unwrap();
            let res = mutate_retry(&w.app, r#"mutate { ns.Person{ room_id:$room_id name:"gone" pets:[{name:"c"}] } }"#, Some(p)).await.unwrap();
            let gone = res.mutate_entities[0].node_to_mutate.id;
            let gone_pet = res.mutate_entities[0].sub_nodes.get("pets").unwrap()[0].node_to_mutate.id;
            let mut p = P::default();
            p.add("id", b64(&gone)).unwrap(); p.add("pid", b64(&gone_pet)).unwrap();
            delete_retry(&w.app, "delete { ns.Person { $id pets[$pid] } }", Some(p)).await;
            let mut p = P::default();
            p.add("id", b64(&gone_pet)).unwrap();
            delete_retry(&w.app, "delete { ns.Pet { $id } }", Some(p)).await;
        }
        // a row that is in no room
        w.set_clock(BASE - 9 * DAY + 500);
        let res = mutate_retry(&w.app, r#"mutate { ns.Pet{ name:"private" } }"#, None).await.unwrap();
        let pe = &res.mutate_entities[0];
        let n = pe.node_to_mutate.node.as_ref().unwrap();
        w.nodes.push(NodeInfo { id: pe.node_to_mutate.id, room: None, entity: n._entity.clone(), mdate: n.mdate });
        // daily logs
        w.app.compute_daily_log().await;
        for _ in 0..200 {
            let mut dirty = false;
            for ri in 0..profiles.len() {
                let mut rx = w.app.get_room_log(w.rooms[ri].id).await;
                let mut any = false;
                while let Some(Ok(batch)) = rx.recv().await { for l in batch { any = true; if l.need_recompute { dirty = true; } } }
                if !any { dirty = true; }
            }
            if !dirty { break; }
            tokio::time::sleep(std::time::Duration::from_millis(10)).await;
        }
    }
    w
}

// ---- one connection -----------------------------------------------------------------------------
struct Conn {
    peer: RemotePeerHandle,
    answers: mpsc::Receiver<Answer>,
    key: Arc<Mutex<Vec<u8>>>,
    ready: Arc<AtomicBool>,
    fp: HardwareFingerprint,
    key_index: u64,
    next_id: u64,
}
impl Conn {
    fn new(w: &World, key_index: u64) -> Conn {
        let (reply, answers) = mpsc::channel::<Answer>(4096);
        Conn { peer: RemotePeerHandle { allowed_room: HashSet::new(), db: w.app.clone(), verifying_key: w.me.clone(), reply }, answers,
               key: Arc::new(Mutex::new(vec![])), ready: Arc::new(AtomicBool::new(false)), fp: HardwareFingerprint { id: [3u8; 16], name: "hw".into() }, key_index, next_id: 1 }
    }
}

fn entity_of(w: &World, sel: u64) -> String { match sel { 0 => w.ent_person.clone(), 1 => w.ent_pet.clone(), _ => "zz.Unknown".to_string() } }

/// does the (unguarded) data source have anything for these arguments?  asked of the instance
/// directly, not through process_inbound
async fn source_nonempty(w: &World, k: Rk, r: u64, ent: u64, date: i64) -> bool {
    let room = w.room_uid(r);
    let e = entity_of(w, ent);
    match k {
        Rk::Definition => matches!(w.app.get_room_definition(room).await, Ok(Some(_))),
        Rk::Node => matches!(w.app.get_room_node(room).await, Ok(Some(_))),
        Rk::Log => { let mut rx = w.app.get_room_log(room).await; let mut any = false; while let Some(x) = rx.recv().await { if let Ok(b) = x { any |= !b.is_empty(); } } any }
        Rk::LogAt => matches!(w.app.get_room_log_at(room, date).await, Ok(v) if !v.is_empty()),
        Rk::EdgeDel => { let mut rx = w.app.get_room_edge_deletion_log(room, e, date).await; let mut any = false; while let Some(x) = rx.recv().await { if let Ok(b) = x { any |= !b.is_empty(); } } any }
        Rk::NodeDel => { let mut rx = w.app.get_room_node_deletion_log(room, e, date).await; let mut any = false; while let Some(x) = rx.recv().await { if let Ok(b) = x { any |= !b.is_empty(); } } any }
        Rk::DailyNodes => { let mut rx = w.app.get_room_daily_nodes(room, e, date).await; let mut any = false; while let Some(x) = rx.recv().await { if let Ok(b) = x { any |= !b.is_empty(); } } any }
        Rk::Peers => { let mut rx = w.app.peers_for_room(room).await; let mut any = false; while let Some(x) = rx.recv().await { if let Ok(b) = x { any |= !b.is_empty(); } } any }
    }
}

fn to_query(w: &World, q: &Qry) -> Query {
    match q {
        Qry::Prove => Query::ProveIdentity(vec![9, 9, 9]),
        Qry::Fingerprint => Query::HardwareFingerprint(),
        Qry::RoomList => Query::RoomList,
        Qry::Room(k, r, ent, date) => {
            let room = w.room_uid(*r);
            match k {
                Rk::Definition => Query::RoomDefinition(room), Rk::Node => Query::RoomNode(room), Rk::Log => Query::RoomLog(room), Rk::LogAt => Query::RoomLogAt(room, *date),
                Rk::EdgeDel => Query::EdgeDeletionLog(room, entity_of(w, *ent), *date), Rk::NodeDel => Query::NodeDeletionLog(room, entity_of(w, *ent), *date),
                Rk::DailyNodes => Query::RoomDailyNodes(room, entity_of(w, *ent), *date), Rk::Peers => Query::PeersForRoom(room),
            }
        }
        Qry::Nodes(r, ids) => Query::Nodes(w.room_uid(*r), ids.iter().map(|n| w.node_uid(*n)).collect()),
        Qry::Edges(r, l) => Query::Edges(w.room_uid(*r), l.iter().map(|(n, d)| (w.node_uid(*n), *d)).collect()),
    }
}

/// (code, items): code 0 nothing sent, 1 refused, 2 served, 3 technical error answer, 4 Err returned, 5 undecodable
async fn ask(w: &World, c: &mut Conn, q: &Qry) -> (i64, Vec<u64>) {
    let id = c.next_id; c.next_id += 1;
    let res = InboundQueryService::process_inbound(QueryProtocol { id, query: to_query(w, q) }, &mut c.peer, &c.key, &c.ready, &c.fp).await;
    let mut got = vec![];
    while let Ok(a) = c.answers.try_recv() { assert_eq!(a.id, id); got.push(a); }
    if res.is_err() { return (4, vec![]); }
    if got.is_empty() { return (0, vec![]); }
    if let Some(a) = got.iter().find(|a| !a.success) {
        return match bincode::deserialize::<SyncError>(&a.serialized) { Ok(SyncError::Authorisation(_)) => (1, vec![]), _ => (3, vec![]) };
    }
    let mut rooms: BTreeSet<u64> = BTreeSet::new();
    let mut items: BTreeSet<u64> = BTreeSet::new();
    let mut bad = false;
    let stream = |got: &Vec<Answer>| -> Vec<Vec<u8>> { got.iter().filter(|a| !a.complete).map(|a| a.serialized.clone()).collect() };
    match q {
        Qry::Prove => { if bincode::deserialize::<IdentityAnswer>(&got[0].serialized).is_err() { bad = true; } }
        Qry::Fingerprint => { if bincode::deserialize::<HardwareFingerprint>(&got[0].serialized).is_err() { bad = true; } }
        Qry::RoomList => for b in stream(&got) { match bincode::deserialize::<VecDeque<Uid>>(&b) { Ok(l) => for u in l { rooms.insert(w.room_index(&u)); }, Err(_) => bad = true } },
        Qry::Room(k, r, _, _) => match k {
            Rk::Definition => match bincode::deserialize::<Option<RoomDefinitionLog>>(&got[0].serialized) { Ok(Some(d)) => { rooms.insert(w.room_index(&d.room_id)); } Ok(None) => {} Err(_) => bad = true },
            Rk::Node => match bincode::deserialize::<Option<RoomNode>>(&got[0].serialized) { Ok(Some(d)) => { rooms.insert(w.room_index(&d.node.id)); } Ok(None) => {} Err(_) => bad = true },
            Rk::Log => for b in stream(&got) { match bincode::deserialize::<Vec<DailyLog>>(&b) { Ok(l) => for x in l { rooms.insert(w.room_index(&x.room_id)); }, Err(_) => bad = true } },
            Rk::LogAt => match bincode::deserialize::<Vec<DailyLog>>(&got[0].serialized) { Ok(l) => for x in l { rooms.insert(w.room_index(&x.room_id)); }, Err(_) => bad = true },
            Rk::EdgeDel => for b in stream(&got) { match bincode::deserialize::<Vec<EdgeDeletionEntry>>(&b) { Ok(l) => for x in l { rooms.insert(w.room_index(&x.room_id)); }, Err(_) => bad = true } },
            Rk::NodeDel => for b in stream(&got) { match bincode::deserialize::<Vec<NodeDeletionEntry>>(&b) { Ok(l) => for x in l { rooms.insert(w.room_index(&x.room_id)); }, Err(_) => bad = true } },
            Rk::DailyNodes => for b in stream(&got) { match bincode::deserialize::<HashSet<NodeIdentifier>>(&b) {
                Ok(l) => for x in l { match w.nodes.iter().find(|n| n.id == x.id) { Some(n) => { rooms.insert(n.room.unwrap_or(998)); } None => { rooms.insert(*r); } } },   // rows the harness did not index (deleted ones): the SQL restricts them to the requested room
                Err(_) => bad = true } },
            Rk::Peers => for b in stream(&got) { match bincode::deserialize::<Vec<Node>>(&b) { Ok(l) => if !l.is_empty() { rooms.insert(*r); }, Err(_) => bad = true } },
        },
        Qry::Nodes(_, _) => for b in stream(&got) { match bincode::deserialize::<Vec<Node>>(&b) {
            Ok(l) => for x in l { items.insert(w.nodes.iter().position(|n| n.id == x.id).map(|p| p as u64 + 1).unwrap_or(997)); }, Err(_) => bad = true } },
        Qry::Edges(_, _) => for b in stream(&got) { match bincode::deserialize::<Vec<Edge>>(&b) {
            Ok(l) => for x in l { items.insert(w.edges.iter().position(|e| w.nodes[e.src as usize - 1].id == x.src && e.dest == x.dest && e.label == x.label).map(|p| p as u64 + 1).unwrap_or(997)); }, Err(_) => bad = true } },
    }
    if bad { return (5, vec![]); }
    match q { Qry::Nodes(..) | Qry::Edges(..) => (2, items.into_iter().collect()), _ => (2, rooms.into_iter().collect()) }
}

fn qry_coq(q: &Qry, nonempty: bool) -> String {
    match q {
        Qry::Prove => "QryProveIdentity".into(), Qry::Fingerprint => "QryHardwareFingerprint".into(), Qry::RoomList => "QryRoomList".into(),
        Qry::Room(k, r, _, _) => format!("QryRoom {} {} {}", k.coq(), gn(*r), gb(nonempty)),
        Qry::Nodes(r, ids) => format!("QryNodes {} {}", gn(*r), glist(&ids.iter().map(|n| gn(*n)).collect::<Vec<_>>())),
        Qry::Edges(r, l) => format!("QryEdges {} {}", gn(*r), glist(&l.iter().map(|(n, d)| format!("({}, {})", gn(*n), gz(*d))).collect::<Vec<_>>())),
    }
}

struct Session { coq_events: Vec<String>, obs: Vec<i64>, stats: HashMap<String, u64> }

async fn run_session(w: &mut World, key_index: u64, evs: &[(i64, OEv)]) -> (String, Session) {
    // the instance as the case sees it at the start of the connection
    w.refresh_tables().await;
    let defs: Vec<String> = w.rooms.iter().enumerate().map(|(i, r)| format!("({}, {})", gn(i as u64 + 1), glist(&r.evs.iter().map(|e| e.coq()).collect::<Vec<_>>()))).collect();
    let nodes: Vec<String> = w.nodes.iter().enumerate().map(|(i, n)| format!("{{| n_id := {}; n_room := {} |}}", gn(i as u64 + 1), gon(n.room))).collect();
    let edges: Vec<String> = w.edges.iter().enumerate().map(|(i, e)| format!("{{| e_id := {}; e_src := {}; e_cdate := {} |}}", gn(i as u64 + 1), gn(e.src), gz(e.cdate))).collect();
    let inst = format!("{{| i_defs := {}; i_nodes := {}; i_edges := {} |}}", glist(&defs), glist(&nodes), glist(&edges));
    let mut c = Conn::new(w, key_index);
    let mut s = Session { coq_events: vec![], obs: vec![], stats: HashMap::new() };
    let bump = |s: &mut Session, k: &str| { *s.stats.entry(k.to_string()).or_insert(0) += 1; };
    for (t, e) in evs {
        w.set_clock(*t);
        match e {
            OEv::Bind => { *c.key.lock().await = w.keys[&c.key_index].clone(); s.coq_events.push("OBind".into()); s.obs.extend([0, 0]); }
            OEv::Ready(b) => { c.ready.store(*b, Ordering::Relaxed); s.coq_events.push(format!("OReady {}", gb(*b))); s.obs.extend([0, 0]); }
            OEv::Define(r, ev) => {
                let ok = w.define(*r, ev).await;
                s.coq_events.push(format!("ODefine {} ({})", gn(*r), ev.coq())); s.obs.extend([ok as i64, 0]);
                bump(&mut s, if ok { "define_ok" } else { "define_refused" });
            }
            OEv::DefChanged(r) => {
                // LocalPeerService::process_local_event, RoomDefinitionChanged arm (private): the two lines it consists of,
                // with the real Room the instance published and the real has_user
                if let Some(room) = w.rooms.get(*r as usize - 1).and_then(|x| x.snapshot.clone()) {
                    let key = c.key.lock().await;
                    if room.has_user(&key) { c.peer.allowed_room.insert(room.id); }
                }
                s.coq_events.push(format!("ODefChanged {} {}", gz(*t), gn(*r))); s.obs.extend([0, 0]);
            }
            OEv::Query(q) => {
                let nonempty = match q { Qry::Room(k, r, ent, d) => source_nonempty(w, *k, *r, *ent, *d).await, _ => false };
                let (code, items) = ask(w, &mut c, q).await;
                s.coq_events.push(format!("OQuery {} ({})", gz(*t), qry_coq(q, nonempty)));
                s.obs.push(code); s.obs.push(items.len() as i64); s.obs.extend(items.iter().map(|x| *x as i64));
                bump(&mut s, &format!("code{}", code));
                if code == 2 && !items.is_empty() { bump(&mut s, "served_with_data"); }
            }
        }
    }
    (format!("COut {} {} {} {}", gn(1), gn(key_index), inst, glist(&s.coq_events)), s)
}

fn gen_query(rng: &mut Rng, w: &World, now: i64) -> Qry {
    let nrooms = w.rooms.len() as u64;
    let room = |rng: &mut Rng| if rng.chance(1, 12) { UNKNOWN } else { 1 + rng.below(nrooms) };
    match rng.below(20) {
        0 => Qry::Prove, 1 => Qry::Fingerprint, 2..=3 => Qry::RoomList,
        4..=11 => {
            let k = *rng.pick(&Rk::ALL);
            let r = room(rng);
            let ent = rng.below(3).min(if rng.chance(1, 10) { 2 } else { 1 });
            let ri = if r == UNKNOWN { 0 } else { r as i64 - 1 };
            let date = match rng.below(6) { 0..=1 => BASE - 9 * DAY + ri * 10, 2..=3 => w.del_day + ri * 10, 4 => now, _ => BASE - 100 * DAY };
            // RoomLogAt compares the date itself, the others the day
            let date = if k == Rk::LogAt { date - date.rem_euclid(DAY) } else { date };
            Qry::Room(k, r, ent, date)
        }
        12..=15 => {
            // batches of 1..250 identifiers: rows of the room, rows of other rooms, rows of other entities (room / group /
            // member rows), rows in no room, repeated and unknown identifiers
            let n = match rng.below(10) { 0..=3 => 1 + rng.below(4), 4..=6 => 5 + rng.below(36), _ => 41 + rng.below(210) };
            let nn = w.nodes.len() as u64;
            Qry::Nodes(room(rng), (0..n).map(|_| if rng.chance(1, 12) { 9000 + rng.below(50) } else { 1 + rng.below(nn.max(1)) }).collect())
        }
        _ => {
            let n = match rng.below(10) { 0..=3 => 1 + rng.below(3), 4..=6 => 4 + rng.below(30), _ => 34 + rng.below(217) };
            let nn = w.nodes.len() as u64;
            let stable: Vec<u64> = (1..=nn).filter(|x| !w.volatile_src(*x)).collect();
            Qry::Edges(room(rng), (0..n).map(|_| {
                let x = if rng.chance(1, 12) || stable.is_empty() { 9000 + rng.below(50) } else { *rng.pick(&stable) };
                let d = match rng.below(6) { 0..=2 => 0, 3 => BASE - 9 * DAY + rng.range(-5, 40), 4 => w.edges.iter().find(|e| e.src == x).map(|e| e.cdate + rng.range(-1, 1)).unwrap_or(0), _ => BASE + 400 * DAY };
                (x, d)
            }).collect())
        }
    }
}

fn gen_session(rng: &mut Rng, w: &World, len: usize) -> Vec<(i64, OEv)> {
    let mut t = BASE + rng.range(0, 5) * 1000;
    let mut evs = vec![];
    let nrooms = w.rooms.len() as u64;
    let bind_at = if rng.chance(1, 5) { len } else { rng.below(4) as usize };      // one connection in five never proves a key
    let ready_at = if rng.chance(1, 10) { len } else { rng.below(4) as usize };
    let mut last_defined: Option<u64> = None;
    for i in 0..len {
        t += match rng.below(10) { 0..=5 => rng.range(1, 2000), 6..=8 => rng.range(1, 3) * 3_600_000, _ => DAY + rng.range(0, 1000) };
        if i == bind_at { evs.push((t, OEv::Bind)); continue; }
        if i == ready_at { evs.push((t, OEv::Ready(true))); continue; }
        let roll = rng.below(100);
        let e = if roll < 70 { OEv::Query(gen_query(rng, w, t)) }
        else if roll < 82 {
            let r = 1 + rng.below(nrooms);
            let g = 10 * r + 1;
            let k = match rng.below(10) { 0..=6 => 2, 7..=8 => 3, _ => 0 };
            let b = rng.chance(1, 2);
            // sometimes an entry dated before the last one of that key (refused by add_*)
            let d = if rng.chance(1, 12) { BASE - 3 * DAY + rng.range(0, 1000) } else { t };   // after every room was created: the instance's key is admin at that date
            let ev = match rng.below(6) { 0..=2 => Ev::User(g, k, d, b), 3 => Ev::UAdmin(g, k, d, b), 4 => Ev::Admin(k, d, b), _ => Ev::User(g + if rng.chance(1, 3) { 1 } else { 0 }, k, d, b) };
            last_defined = Some(r);
            if d != t { evs.push((d, OEv::Define(r, ev))); continue; }
            OEv::Define(r, ev)
        }
        // LocalPeerService::start enters its loop (where definition events are handled) only after the handshake has stored the key
        else if roll < 94 && i > bind_at { OEv::DefChanged(match last_defined { Some(r) if rng.chance(3, 4) => r, _ => 1 + rng.below(nrooms) }) }
        else if roll < 94 { OEv::Query(Qry::RoomList) }
        else if roll < 97 { OEv::Ready(rng.chance(2, 3)) }
        else { OEv::Query(Qry::RoomList) };
        evs.push((t, e));
    }
    evs
}

fn push_case(out: &mut Out, kind: &str, coq: String, s: Session, profiles: &[Profile]) {
    let meta = json!({"events": s.coq_events.len(), "profiles": profiles.iter().map(|p| format!("{:?}", p)).collect::<Vec<_>>(), "stats": s.stats});
    out.push(Case { kind: kind.into(), coq, obs: s.obs, meta });
}

async fn finish(w: World) { let p = w.path.clone(); drop(w); verif_clock::clear(); let _ = std::fs::remove_dir_all(&p); }

#[tokio::main(flavor = "multi_thread", worker_threads = 4)]
async fn main() {
    let mut out = Out::create();
    let mut rng = Rng::from_env();
    let all_room_kinds = |r: u64, d: i64| -> Vec<OEv> { Rk::ALL.iter().map(|k| OEv::Query(Qry::Room(*k, r, 0, d))).collect() };
    let stamp = |evs: Vec<OEv>, t0: i64| -> Vec<(i64, OEv)> { evs.into_iter().enumerate().map(|(i, e)| (t0 + i as i64 * 1000, e)).collect() };
    let day9 = BASE - 9 * DAY;
    let mut tag = 0u64;

    // ---- directed: K1, a member that is disabled while connected keeps being served ----
    { tag += 1;
      let profs = [Profile::Member, Profile::Never];
      let mut w = build_world(tag, &profs, true).await;
      let mut evs = vec![OEv::Bind, OEv::Ready(true), OEv::Query(Qry::RoomList), OEv::Query(Qry::Nodes(1, vec![1, 2, 3])),
                         OEv::Define(1, Ev::User(11, 2, BASE + 4000, false)), OEv::Query(Qry::RoomList), OEv::Query(Qry::Nodes(1, vec![1, 2, 3])), OEv::Query(Qry::Edges(1, vec![(1, 0)]))];
      evs.extend(all_room_kinds(1, day9));
      let (coq, s) = run_session(&mut w, 2, &stamp(evs, BASE)).await;
      push_case(&mut out, "directed-K1-disabled-while-connected", coq, s, &profs); finish(w).await; }
    // ---- directed: K2, a former member is admitted again by the next definition event (has_user) ----
    { tag += 1;
      let profs = [Profile::Former, Profile::Member];
      let mut w = build_world(tag, &profs, true).await;
      let mut evs = vec![OEv::Bind, OEv::Ready(true), OEv::Query(Qry::RoomList), OEv::Query(Qry::Nodes(1, vec![1, 2, 3])),
                         OEv::Define(1, Ev::User(11, 3, BASE + 4000, false)), OEv::DefChanged(1), OEv::Query(Qry::Nodes(1, vec![1, 2, 3]))];
      evs.extend(all_room_kinds(1, day9));
      let (coq, s) = run_session(&mut w, 2, &stamp(evs, BASE)).await;
      push_case(&mut out, "directed-K2-former-member-readmitted", coq, s, &profs); finish(w).await; }
    // ---- directed: every kind before authentication, for every profile; then after, own vs foreign identifiers ----
    { tag += 1;
      let profs = [Profile::Member, Profile::Never, Profile::AdminOnly, Profile::UserAdminOnly, Profile::Former];
      let mut w = build_world(tag, &profs, true).await;
      let mut evs = vec![OEv::Query(Qry::Prove), OEv::Query(Qry::Fingerprint), OEv::Query(Qry::RoomList)];
      for r in 1..=5 { evs.extend(all_room_kinds(r, day9)); evs.push(OEv::Query(Qry::Nodes(r, vec![1, 4, 7, 16]))); evs.push(OEv::Query(Qry::Edges(r, vec![(1, 0), (4, 0)]))); }
      evs.push(OEv::DefChanged(1)); evs.push(OEv::Query(Qry::Nodes(1, vec![1]))); evs.push(OEv::Ready(true)); evs.push(OEv::Query(Qry::RoomList)); evs.push(OEv::Bind); evs.push(OEv::Ready(false)); evs.push(OEv::Query(Qry::RoomList)); evs.push(OEv::Ready(true)); evs.push(OEv::Query(Qry::RoomList));
      for r in [1u64, 2, 3, 4, 5, UNKNOWN] { evs.extend(all_room_kinds(r, day9 + (r as i64 - 1) * 10)); evs.push(OEv::Query(Qry::Nodes(r, vec![1, 2, 4, 5, 7, 10, 16, 90]))); evs.push(OEv::Query(Qry::Edges(r, vec![(1, 0), (4, 0), (7, 0), (10, 0)]))); }
      evs.push(OEv::Query(Qry::Fingerprint)); evs.push(OEv::Query(Qry::Prove));
      // every row of _node / every source of _edge (room, group, member and right rows included), asked for under every room
      w.refresh_tables().await;
      let all: Vec<u64> = (1..=w.nodes.len() as u64).chain([9001, 9002]).collect();
      for r in [1u64, 2, 3, 4, 5, UNKNOWN] {
          evs.push(OEv::Query(Qry::Nodes(r, all.clone())));
          evs.push(OEv::Query(Qry::Edges(r, all.iter().map(|n| (*n, 0)).collect())));
          evs.push(OEv::Query(Qry::Edges(r, all.iter().rev().map(|n| (*n, BASE - 9 * DAY + 1)).chain(all.iter().map(|n| (*n, 0))).collect())));
      }
      let (coq, s) = run_session(&mut w, 2, &stamp(evs, BASE)).await;
      push_case(&mut out, "directed-every-kind-before-and-after-auth", coq, s, &profs); finish(w).await; }
    // ---- directed: the peer is the instance's own key on another device (fingerprint), and an unknown key ----
    { tag += 1;
      let profs = [Profile::Member, Profile::Never];
      let mut w = build_world(tag, &profs, true).await;
      let evs = vec![OEv::Bind, OEv::Ready(true), OEv::Query(Qry::Fingerprint), OEv::Query(Qry::Nodes(2, vec![4, 5]))];
      let (coq, s) = run_session(&mut w, 1, &stamp(evs, BASE)).await;
      push_case(&mut out, "directed-own-key", coq, s, &profs);
      let evs = vec![OEv::Bind, OEv::Ready(true), OEv::Query(Qry::RoomList), OEv::Query(Qry::Fingerprint), OEv::Query(Qry::Nodes(1, vec![1, 2])), OEv::DefChanged(2), OEv::Query(Qry::Nodes(2, vec![4, 5]))];
      let (coq, s) = run_session(&mut w, 3, &stamp(evs, BASE + 100_000)).await;
      push_case(&mut out, "directed-other-key", coq, s, &profs); finish(w).await; }

    // ---- directed: rooms with an entry for the EMPTY key; a connection that never proves a key but is (wrongly) marked ready
    //      asks for the room list first, then for everything: nothing may be served before a key is proven ----
    { tag += 1;
      let profs = [Profile::EmptyUser, Profile::EmptyAdmin, Profile::EmptyUserAdmin, Profile::Member];
      let mut w = build_world(tag, &profs, true).await;
      w.refresh_tables().await;
      let all: Vec<u64> = (1..=w.nodes.len() as u64).collect();
      let mut evs = vec![OEv::Query(Qry::RoomList), OEv::Ready(true), OEv::Query(Qry::RoomList)];
      for r in 1..=4u64 { evs.extend(all_room_kinds(r, day9 + (r as i64 - 1) * 10)); evs.push(OEv::Query(Qry::Nodes(r, all.clone()))); evs.push(OEv::Query(Qry::Edges(r, all.iter().map(|n| (*n, 0)).collect()))); }
      evs.push(OEv::Define(1, Ev::User(11, 0, BASE + 200_000, false))); evs.push(OEv::Query(Qry::RoomList)); evs.push(OEv::Query(Qry::Nodes(1, all.clone())));
      let (coq, s) = run_session(&mut w, 2, &stamp(evs, BASE)).await;
      push_case(&mut out, "directed-unauthenticated-ready-empty-key-rooms", coq, s, &profs);
      // the same rooms for a connection that does prove a key
      let mut evs = vec![OEv::Bind, OEv::Ready(true), OEv::Query(Qry::RoomList)];
      for r in 1..=4u64 { evs.push(OEv::Query(Qry::Nodes(r, all.clone()))); evs.push(OEv::DefChanged(r)); evs.push(OEv::Query(Qry::Nodes(r, all.clone()))); }
      let (coq, s) = run_session(&mut w, 2, &stamp(evs, BASE + 400_000)).await;
      push_case(&mut out, "directed-authenticated-empty-key-rooms", coq, s, &profs); finish(w).await; }

    // ---- generated connections ----
    let worlds = scale(14, 150);
    for wi in 0..worlds {
        let mut r = rng.fork();
        tag += 1;
        let nrooms = 2 + r.below(3) as usize;
        let profs: Vec<Profile> = (0..nrooms).map(|i| if i == 0 && r.chance(2, 3) { Profile::Member } else { *r.pick(&PROFILES) }).collect();
        let mut w = build_world(tag, &profs, true).await;
        for si in 0..8 {
            let len = 12 + r.below(20) as usize;
            let evs = gen_session(&mut r, &w, len);
            // later connections start later than everything that happened so far (dated entries must not go back)
            let shift = (wi as i64 * 0) + si as i64 * 40 * DAY;
            let evs: Vec<(i64, OEv)> = evs.into_iter().map(|(t, e)| (t + shift, match e { OEv::Define(r, ev) => OEv::Define(r, redate(ev, shift)), x => x })).collect();
            let key = if r.chance(9, 10) { 2 } else { 3 };
            let (coq, s) = run_session(&mut w, key, &evs).await;
            push_case(&mut out, "generated", coq, s, &profs);
        }
        finish(w).await;
    }
    out.finish();
    // leave without tearing down the runtime, the database threads and the room tasks still waiting on their timeouts
    std::process::exit(0);
}

fn redate(ev: Ev, shift: i64) -> Ev {
    match ev { Ev::Admin(k, d, b) => Ev::Admin(k, d + shift, b), Ev::User(g, k, d, b) => Ev::User(g, k, d + shift, b), Ev::UAdmin(g, k, d, b) => Ev::UAdmin(g, k, d + shift, b), x => x }
}
