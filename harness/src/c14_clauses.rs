// one entity selected with the whole clause language of query.pest (aggregate functions, order_by,
// first / skip, before / after, filters also on aggregates, json selectors, search, nullable),
// values as literals or parameters, long values with multi-byte characters at every offset;
// and deletions by parameter (included by bin/c14.rs)

const CL_MODEL: &str = "agg { Person { nat: String, age: Integer nullable, w: Float nullable, ok: Boolean nullable, b64: Base64 nullable, js: Json nullable, dflt: String default \"d\", pets: [agg.Pet] nullable, best: agg.Pet nullable, req: [agg.Pet] } Pet { name: String } }";
// scalar fields of agg.Person: name, type, nullable
const CL_FIELDS: [(&str, FT, bool); 7] = [("nat", FT::Str, false), ("age", FT::Int, true), ("w", FT::Float, true), ("ok", FT::Bool, true), ("b64", FT::Base64, true), ("js", FT::Json, true), ("dflt", FT::Str, false)];
const CL_REFS: [(&str, bool); 3] = [("pets", true), ("best", true), ("req", false)];
const AGG_FNS: [(&str, &str); 5] = [("count", "ACount"), ("avg", "AAvg"), ("max", "AMax"), ("min", "AMin"), ("sum", "ASum")];

/// text of 0..300 bytes: an ASCII prefix of 0..3 bytes, then one multi-byte character repeated, so
/// that over the prefixes every byte offset falls inside a character; lengths cluster around the
/// usual buffer / truncation boundaries. No '"' and no '\'.
pub fn mb_string(rng: &mut Rng) -> String {
    let unit = *rng.pick(&["é", "€", "😀", "я", "名"]);
    let target = match rng.below(4) { 0 => rng.below(301) as usize, _ => (*rng.pick(&[31usize, 32, 33, 63, 64, 65, 66, 127, 128, 129, 255, 256, 257]) + rng.below(20) as usize) };
    let mut s = "abc"[..rng.below(4) as usize].to_string();
    while s.len() < target { s.push_str(unit); }
    s
}
pub fn long_b64(rng: &mut Rng) -> String { let n = *rng.pick(&[32usize, 64, 66, 88, 128, 256, 300]); "QUJD".repeat(n / 4) }

#[derive(Clone, Debug)]
enum ASel { Field(usize, Option<String>), Sys, Agg(usize, usize, String), Json(String), Sub(usize, Option<String>) }
#[derive(Clone, Debug)]
enum AKey { Ent(usize), EntSys, EntRef(usize), Sel(usize, String), Unknown }
#[derive(Clone, Debug)]
enum AVal { Var(u64), Null, Bool, Int, Float, Str(String) }
#[derive(Clone, Debug)]
enum ASearch { Lit(String), Var(u64, Option<String>) }
#[derive(Clone, Debug, Default)]
struct AQuery { sel: Vec<ASel>, search: Option<ASearch>, order: Vec<(AKey, bool)>, first: Option<Option<u64>>, skip: Option<Option<u64>>,
                before: Vec<AVal>, after: Vec<AVal>, filters: Vec<(AKey, String, AVal)>, nullable: Vec<usize>, params: Vec<(u64, PV)> }

fn key_name(k: &AKey) -> String { match k { AKey::Ent(f) => CL_FIELDS[*f].0.into(), AKey::EntSys => "mdate".into(), AKey::EntRef(r) => CL_REFS[*r].0.into(), AKey::Sel(_, a) => a.clone(), AKey::Unknown => "nosuchname".into() } }
fn akey_coq(k: &AKey) -> String { match k { AKey::Ent(f) => format!("KEnt {} {}", CL_FIELDS[*f].1.coq(), gb(CL_FIELDS[*f].2)), AKey::EntSys => "KEntSys".into(), AKey::EntRef(_) => "KEntRef".into(), AKey::Sel(i, _) => format!("KSel {}", i), AKey::Unknown => "KNone".into() } }
fn val_text(v: &AVal) -> String { match v { AVal::Var(x) => format!("$v{}", x), AVal::Null => "null".into(), AVal::Bool => "true".into(), AVal::Int => "3".into(), AVal::Float => "1.5".into(), AVal::Str(s) => format!("\"{}\"", s) } }
fn val_coq(v: &AVal, ctx: &UidCtx) -> String { match v { AVal::Var(x) => format!("AVar {}", gn(*x)), AVal::Null => "ANull".into(), AVal::Bool => "ABool".into(), AVal::Int => "AInt".into(), AVal::Float => "AFloat".into(), AVal::Str(s) => format!("AStr {}", strc(s, ctx, None, 0)) } }
fn pv_coq(v: &PV, ctx: &UidCtx) -> String { match v { PV::Bool => "PBool".into(), PV::Int => "PInt".into(), PV::Float(b) => format!("PFloat {}", gb(*b)), PV::Str(s) => format!("PStr {}", strc(s, ctx, None, 0)), PV::Bin(s) => format!("PBin {}", strc(s, ctx, None, 0)), PV::Null => "PNull".into() } }
fn pv_add(p: &mut Parameters, k: &str, v: &PV) {
    match v { PV::Bool => p.add(k, true).unwrap(), PV::Int => p.add(k, 5i64).unwrap(), PV::Float(true) => p.add(k, 2.5f64).unwrap(), PV::Float(false) => p.add(k, f64::NAN).unwrap(),
              PV::Str(s) => p.add(k, s.clone()).unwrap(), PV::Bin(s) => { p.params.insert(k.to_string(), ParamValue::Binary(s.clone())); } PV::Null => p.add_null(k).unwrap() }
}
fn is_blank(s: &str) -> bool { s.chars().all(|c| c == ' ') }

impl AQuery {
    fn text(&self) -> String {
        let mut ps: Vec<String> = vec![];
        if let Some(s) = &self.search { ps.push(match s { ASearch::Lit(t) => format!("search(\"{}\")", t), ASearch::Var(x, _) => format!("search($v{})", x) }); }
        if !self.order.is_empty() { ps.push(format!("order_by({})", self.order.iter().map(|(k, d)| format!("{} {}", key_name(k), if *d { "desc" } else { "asc" })).collect::<Vec<_>>().join(", "))); }
        if let Some(f) = &self.first { ps.push(match f { Some(x) => format!("first $v{}", x), None => "first 2".into() }); }
        if let Some(f) = &self.skip { ps.push(match f { Some(x) => format!("skip $v{}", x), None => "skip 1".into() }); }
        if !self.before.is_empty() { ps.push(format!("before({})", self.before.iter().map(val_text).collect::<Vec<_>>().join(", "))); }
        if !self.after.is_empty() { ps.push(format!("after({})", self.after.iter().map(val_text).collect::<Vec<_>>().join(", "))); }
        for (k, op, v) in &self.filters { ps.push(format!("{} {} {}", key_name(k), op, val_text(v))); }
        if !self.nullable.is_empty() { ps.push(format!("nullable({})", self.nullable.iter().map(|i| match self.sel.get(*i) { Some(ASel::Sub(r, a)) => a.clone().unwrap_or(CL_REFS[*r].0.to_string()), Some(ASel::Field(f, a)) => a.clone().unwrap_or(CL_FIELDS[*f].0.to_string()), Some(ASel::Agg(_, _, a)) | Some(ASel::Json(a)) => a.clone(), Some(ASel::Sys) => "mdate".into(), None => "nosuchname".into() }).collect::<Vec<_>>().join(", "))); }
        let fields: Vec<String> = self.sel.iter().map(|s| match s {
            ASel::Field(f, a) => match a { Some(a) => format!("{}: {}", a, CL_FIELDS[*f].0), None => CL_FIELDS[*f].0.to_string() },
            ASel::Sys => "mdate".into(),
            ASel::Agg(g, arg, a) => if *g == 0 { format!("{}: count()", a) } else { format!("{}: {}({})", a, AGG_FNS[*g].0, CL_FIELDS[*arg].0) },
            ASel::Json(a) => format!("{}: js->$.a", a),
            ASel::Sub(r, a) => format!("{}{} {{ name }}", match a { Some(a) => format!("{}: ", a), None => "".into() }, CL_REFS[*r].0),
        }).collect();
        format!("query {{ agg.Person{} {{ {} }} }}", if ps.is_empty() { "".to_string() } else { format!(" ({})", ps.join(", ")) }, fields.join(" "))
    }
    fn coq(&self, ctx: &UidCtx) -> String {
        let sel: Vec<String> = self.sel.iter().map(|s| match s {
            ASel::Field(f, _) => format!("ASField {} {}", CL_FIELDS[*f].1.coq(), gb(CL_FIELDS[*f].2)), ASel::Sys => "ASSys".into(),
            ASel::Agg(g, arg, _) => format!("ASAgg {} {}", AGG_FNS[*g].1, CL_FIELDS[*arg].1.coq()), ASel::Json(_) => "ASJson".into(), ASel::Sub(r, _) => format!("ASSub {}", gb(CL_REFS[*r].1)) }).collect();
        let lim = |l: &Option<Option<u64>>| match l { None => "None".to_string(), Some(None) => "(Some LimLit)".to_string(), Some(Some(x)) => format!("(Some (LimVar {}))", gn(*x)) };
        let search = match &self.search { None => "None".to_string(), Some(ASearch::Lit(t)) => format!("(Some (SrchLit {}))", gb(is_blank(t))),
            Some(ASearch::Var(x, v)) => format!("(Some (SrchVar {} {}))", gn(*x), gb(v.as_ref().map(|t| is_blank(t)).unwrap_or(false))) };
        format!("{{| aq_sel := {}; aq_search := {}; aq_order := {}; aq_first := {}; aq_skip := {}; aq_before := {}; aq_after := {}; aq_filters := {}; aq_nullable := {}; aq_params := {} |}}",
            glist(&sel), search, glist(&self.order.iter().map(|(k, _)| akey_coq(k)).collect::<Vec<_>>()), lim(&self.first), lim(&self.skip),
            glist(&self.before.iter().map(|v| val_coq(v, ctx)).collect::<Vec<_>>()), glist(&self.after.iter().map(|v| val_coq(v, ctx)).collect::<Vec<_>>()),
            glist(&self.filters.iter().map(|(k, op, v)| format!("({}, {}, {})", akey_coq(k), gb(op == "=" || op == "!="), val_coq(v, ctx))).collect::<Vec<_>>()),
            glist(&self.nullable.iter().map(|i| format!("{}%nat", i)).collect::<Vec<_>>()),
            glist(&self.params.iter().map(|(x, v)| format!("({}, {})", gn(*x), pv_coq(v, ctx))).collect::<Vec<_>>()))
    }
    fn parameters(&self) -> Parameters { let mut p = Parameters::default(); for (x, v) in &self.params { pv_add(&mut p, &format!("v{}", x), v); } p }
}

/// type of what a key denotes (None: a reference or nothing)
fn key_type(q: &AQuery, k: &AKey) -> Option<FT> {
    match k { AKey::Ent(f) => Some(CL_FIELDS[*f].1), AKey::EntSys => Some(FT::Int), AKey::EntRef(_) | AKey::Unknown => None,
              AKey::Sel(i, _) => match q.sel.get(*i) { Some(ASel::Field(f, _)) => Some(CL_FIELDS[*f].1), Some(ASel::Agg(..)) => Some(FT::Float), Some(ASel::Json(_)) => Some(FT::Json), Some(ASel::Sys) => Some(FT::Int), _ => None } }
}
/// a value for a key of that type: mostly fitting; `params` receives the parameter when a variable is used
fn gen_val(rng: &mut Rng, t: Option<FT>, var: &mut u64, params: &mut Vec<(u64, PV)>, wrong: bool) -> AVal {
    let t = if wrong { Some(*rng.pick(&FTS)) } else { t };
    if rng.chance(2, 5) {
        *var += 1;
        let pv = match (t, rng.below(10)) {
            (_, 0) => None,
            (_, 1) => Some(PV::Null),
            (_, 2) => Some(PV::Str(mb_string(rng))),                       // mostly a refused value, long, multi-byte
            (_, 3) => Some(rng.pick(&[PV::Bool, PV::Int, PV::Float(true)]).clone()),
            (Some(FT::Bool), _) => Some(PV::Bool), (Some(FT::Int), _) => Some(PV::Int), (Some(FT::Float), _) => Some(if rng.chance(1, 3) { PV::Int } else { PV::Float(true) }),
            (Some(FT::Base64), _) => Some(PV::Str(if rng.chance(1, 2) { long_b64(rng) } else { "AAAA".into() })),
            _ => Some(PV::Str(mb_string(rng))),
        };
        if let Some(p) = pv { params.push((*var, p)); }
        return AVal::Var(*var);
    }
    match t { Some(FT::Bool) => AVal::Bool, Some(FT::Int) => AVal::Int, Some(FT::Float) => if rng.chance(1, 3) { AVal::Int } else { AVal::Float },
              Some(FT::Base64) => AVal::Str(if rng.chance(1, 2) { long_b64(rng) } else { "AAAA".into() }),
              Some(FT::Str) => AVal::Str(if rng.chance(1, 2) { mb_string(rng) } else { "en".into() }),
              _ => AVal::Str("x".into()) }
}

fn gen_aquery(rng: &mut Rng) -> AQuery {
    let mut q = AQuery::default();
    let mut var = 0u64;
    let bad = rng.chance(1, 8);           // one deliberate violation of a rule
    let agg = rng.chance(2, 5);
    let mut names: Vec<String> = vec![];
    let nsel = 1 + rng.below(3);
    for i in 0..nsel {
        let alias = format!("a{}", i);
        let s = if agg && (i == 0 || rng.chance(1, 3)) { let g = rng.below(5) as usize; let arg = if g == 1 || g == 4 { if bad && rng.chance(1, 4) { 0 } else { *rng.pick(&[1usize, 2]) } } else { rng.below(7) as usize }; ASel::Agg(g, arg, alias) }
            else { match rng.below(10) {
                0 => ASel::Sys,
                1 => ASel::Json(alias),
                2 | 3 if !agg || (bad && rng.chance(1, 3)) => ASel::Sub(rng.below(3) as usize, if rng.chance(1, 3) { Some(alias) } else { None }),
                _ => ASel::Field(rng.below(7) as usize, if rng.chance(1, 3) { Some(alias) } else { None }) } };
        let name = match &s { ASel::Field(f, a) => a.clone().unwrap_or(CL_FIELDS[*f].0.to_string()), ASel::Sys => "mdate".into(), ASel::Agg(_, _, a) | ASel::Json(a) => a.clone(), ASel::Sub(r, a) => a.clone().unwrap_or(CL_REFS[*r].0.to_string()) };
        if names.contains(&name) { continue; }
        names.push(name);
        q.sel.push(s);
    }
    // keys that can be named: entity fields, and the aliases of selected fields
    let mut keys: Vec<AKey> = (0..7).map(AKey::Ent).collect();
    keys.push(AKey::EntSys);
    for (i, s) in q.sel.iter().enumerate() { match s { ASel::Field(_, Some(a)) => keys.push(AKey::Sel(i, a.clone())), ASel::Agg(_, _, a) | ASel::Json(a) => keys.push(AKey::Sel(i, a.clone())), _ => {} } }
    let agg_keys: Vec<AKey> = keys.iter().filter(|k| matches!(k, AKey::Sel(i, _) if matches!(q.sel[*i], ASel::Agg(..)))).cloned().collect();
    if rng.chance(1, 6) { q.search = Some(match rng.below(4) { 0 => ASearch::Lit(if rng.chance(1, 2) { "".into() } else { "  ".into() }), 1 => ASearch::Lit("probe".into()),
        _ => { var += 1; let v = match rng.below(6) { 0 => None, 1 => Some("".to_string()), _ => Some("probe".to_string()) }; if let Some(t) = &v { q.params.push((var, PV::Str(t.clone()))); } else if rng.chance(1, 2) { q.params.push((var, PV::Int)); } ASearch::Var(var, v) } }); }
    if (q.search.is_none() || (bad && rng.chance(1, 4))) && rng.chance(3, 5) {
        for _ in 0..(1 + rng.below(2)) {
            let k = if bad && rng.chance(1, 6) { if rng.chance(1, 2) { AKey::EntRef(0) } else { AKey::Unknown } } else if !agg_keys.is_empty() && rng.chance(1, 2) { rng.pick(&agg_keys).clone() } else { rng.pick(&keys).clone() };
            q.order.push((k, rng.chance(1, 2)));
        }
        if rng.chance(3, 5) {
            let n = if bad && rng.chance(1, 5) { q.order.len() + 1 } else { 1 + rng.below(q.order.len() as u64) as usize };
            let mut vals = vec![];
            for i in 0..n { let t = q.order.get(i).and_then(|(k, _)| key_type(&q, k)); let mut ps = vec![]; let wrong = bad && rng.chance(1, 5); let v = gen_val(rng, t, &mut var, &mut ps, wrong); let v = if matches!(v, AVal::Null) && !bad { AVal::Int } else { v }; q.params.extend(ps); vals.push(v); }
            if rng.chance(1, 2) { q.before = vals.clone(); } else { q.after = vals.clone(); }
            if bad && rng.chance(1, 6) { q.before = vals.clone(); q.after = vals; }
        }
    }
    if rng.chance(1, 3) { q.first = Some(if rng.chance(1, 2) { var += 1; match rng.below(5) { 0 => {} 1 => q.params.push((var, PV::Str(mb_string(rng)))), _ => q.params.push((var, PV::Int)) } Some(var) } else { None }); }
    if rng.chance(1, 4) { q.skip = Some(if rng.chance(1, 2) { var += 1; match rng.below(5) { 0 => q.params.push((var, PV::Null)), 1 => q.params.push((var, PV::Float(true))), _ => q.params.push((var, PV::Int)) } Some(var) } else { None }); }
    for _ in 0..rng.below(3) {
        let k = if bad && rng.chance(1, 8) { AKey::Unknown } else if rng.chance(1, 8) { AKey::EntRef(rng.below(3) as usize) } else if !agg_keys.is_empty() && rng.chance(1, 2) { rng.pick(&agg_keys).clone() } else { rng.pick(&keys).clone() };
        let is_ref = matches!(k, AKey::EntRef(_));
        let op = if is_ref && !(bad && rng.chance(1, 3)) { (*rng.pick(&["=", "!="])).to_string() } else { (*rng.pick(&["=", "!=", ">", ">=", "<", "<="])).to_string() };
        let t = key_type(&q, &k);
        let mut ps = vec![];
        let nullable = match &k { AKey::Ent(f) => CL_FIELDS[*f].2, AKey::Sel(i, _) => match &q.sel[*i] { ASel::Field(f, _) => CL_FIELDS[*f].2, ASel::Json(_) => true, _ => false }, _ => false };
        let v = if is_ref { if bad && rng.chance(1, 3) { AVal::Int } else { AVal::Null } } else if (nullable && rng.chance(1, 4)) || (bad && rng.chance(1, 6)) { AVal::Null } else { let wrong = bad && rng.chance(1, 5); gen_val(rng, t, &mut var, &mut ps, wrong) };
        q.params.extend(ps);
        q.filters.push((k, op, v));
    }
    if q.sel.iter().any(|s| matches!(s, ASel::Sub(..))) && rng.chance(1, 3) { for (i, s) in q.sel.iter().enumerate() { if matches!(s, ASel::Sub(..)) || (bad && rng.chance(1, 4)) { q.nullable.push(i); } } }
    if bad && rng.chance(1, 10) { q.nullable.push(9); }
    // whether a blank search text reaches FTS5 depends on the engine's plan when other filters are
    // present (no row left, no MATCH evaluated): blank text is only generated without filters
    let blank = match &q.search { Some(ASearch::Lit(t)) => is_blank(t), Some(ASearch::Var(_, Some(t))) => is_blank(t), _ => false };
    if blank { let used: Vec<u64> = q.filters.iter().filter_map(|(_, _, v)| if let AVal::Var(x) = v { Some(*x) } else { None }).collect(); q.params.retain(|(x, _)| !used.contains(x)); q.filters.clear(); }
    q
}

pub async fn clause_streams(rng: &mut Rng, out: &mut Out, stats: &mut serde_json::Map<String, serde_json::Value>) {
    let ctx = UidCtx { rows: vec![], rows_ent: 0, room: None };
    let mut inst = Inst::start(CL_MODEL).await;
    let seed_rows = |inst: &Inst| { let app = inst.app.clone(); async move {
        for (nat, age) in [("en", 3), ("fr", 5), ("en", 7), ("probe", 9)] { setup_mutate(&app, &format!("mutate {{ agg.Person {{ nat: \"{}\" age: {} w: 1.5 ok: true b64: \"AAAA\" js: \"{{\\\"a\\\":1}}\" pets: [{{name:\"kiki\"}}] req: [{{name:\"r\"}}] }} }}", nat, age), None).await; } } };
    seed_rows(&inst).await;
    let f = |i: usize| ASel::Field(i, None);
    let mut directed: Vec<(AQuery, &str)> = vec![
        (AQuery { sel: vec![f(0), ASel::Agg(0, 0, "total".into())], order: vec![(AKey::Ent(0), false)], after: vec![AVal::Str("en".into())], ..Default::default() }, "aggregate with order_by and after(), no filter on the aggregate"),
        (AQuery { sel: vec![f(0), ASel::Agg(0, 0, "total".into())], order: vec![(AKey::Ent(0), true)], before: vec![AVal::Str("fr".into())], ..Default::default() }, "aggregate with order_by and before()"),
        (AQuery { sel: vec![f(0)], order: vec![(AKey::Ent(0), false)], after: vec![AVal::Null], ..Default::default() }, "null in after(): not in the grammar, a parse error"),
        (AQuery { sel: vec![f(0), f(1)], order: vec![(AKey::Ent(1), true)], before: vec![AVal::Null], ..Default::default() }, "null in before(): not in the grammar, a parse error"),
        (AQuery { sel: vec![f(0), ASel::Agg(0, 0, "total".into())], order: vec![(AKey::Sel(1, "total".into()), false)], after: vec![AVal::Int], filters: vec![(AKey::Sel(1, "total".into()), ">".into(), AVal::Int)], ..Default::default() }, "aggregate with a filter on the aggregate and after()"),
        (AQuery { sel: vec![f(0), ASel::Agg(1, 1, "av".into()), ASel::Agg(4, 2, "sm".into())], filters: vec![(AKey::Sel(1, "av".into()), ">=".into(), AVal::Float), (AKey::Ent(0), "!=".into(), AVal::Str("xx".into()))], first: Some(None), skip: Some(None), ..Default::default() }, "aggregates, filters on both sides of GROUP BY, first and skip"),
        (AQuery { sel: vec![ASel::Agg(0, 0, "total".into())], filters: vec![(AKey::Sel(0, "total".into()), ">".into(), AVal::Int)], ..Default::default() }, "aggregate without any grouped field, filter on it (HAVING without GROUP BY)"),
        (AQuery { sel: vec![f(0), f(1)], order: vec![(AKey::Ent(1), false), (AKey::Ent(0), true)], after: vec![AVal::Int, AVal::Str("en".into())], skip: Some(None), ..Default::default() }, "two order keys with after() and skip without first"),
        (AQuery { sel: vec![f(0), ASel::Json("sel".into()), ASel::Sub(0, None)], search: Some(ASearch::Lit("probe".into())), first: Some(None), nullable: vec![2], ..Default::default() }, "search, json selector, sub-selection, nullable, first"),
        (AQuery { sel: vec![f(0)], search: Some(ASearch::Var(1, Some("".into()))), params: vec![(1, PV::Str("".into()))], ..Default::default() }, "K5 blank search text given as a parameter"),
        (AQuery { sel: vec![f(0), ASel::Agg(0, 0, "total".into()), ASel::Sub(0, None)], ..Default::default() }, "aggregate together with a sub-selection (refused by the language)"),
        (AQuery { sel: vec![f(0)], filters: vec![(AKey::Ent(1), "=".into(), AVal::Var(1))], params: vec![(1, PV::Str(format!("{}{}", "a".repeat(63), "é".repeat(20))))], ..Default::default() }, "refused parameter (text for an Integer filter) with a 2-byte character over byte 64"),
        (AQuery { sel: vec![f(0)], filters: vec![(AKey::Ent(4), "=".into(), AVal::Var(1))], params: vec![(1, PV::Str(format!("{}{}", "a".repeat(63), "é".repeat(20))))], ..Default::default() }, "refused parameter (not base64) with a 2-byte character over byte 64"),
        (AQuery { sel: vec![f(0)], first: Some(Some(1)), params: vec![(1, PV::Str(format!("{}{}", "a".repeat(50), "€".repeat(40))))], ..Default::default() }, "refused parameter for first"),
    ];
    let n_dir = directed.len();
    let n = n_dir + scale(380, 6000);
    let mut verdicts = [0usize; 4];
    let mut clause_use = [0usize; 9];
    for i in 0..n {
        let (q, what) = if i < n_dir { let d = directed.remove(0); (d.0, d.1.to_string()) } else { (gen_aquery(rng), "random".to_string()) };
        if !inst.healthy { inst.close(); inst = Inst::start(CL_MODEL).await; seed_rows(&inst).await; }
        let text = q.text();
        let err = std::sync::Arc::new(Mutex::new(String::new()));
        let err2 = err.clone();
        let o = call_t(|| async { let r = inst.app.query(&text, Some(q.parameters())).await; if let Err(e) = &r { *err2.lock().unwrap() = e.to_string().replace('\n', " ").chars().take(160).collect(); } r }).await;
        let p = inst.probe(false).await as i64;
        verdicts[o as usize] += 1;
        for (j, b) in [q.sel.iter().any(|s| matches!(s, ASel::Agg(..))), !q.order.is_empty(), q.first.is_some(), q.skip.is_some(), !q.before.is_empty() || !q.after.is_empty(), !q.filters.is_empty(), q.search.is_some(), q.sel.iter().any(|s| matches!(s, ASel::Json(_))), !q.params.is_empty()].iter().enumerate() { if *b { clause_use[j] += 1; } }
        if o >= 2 || p == 0 { inst.healthy = false; }
        out.push(Case { kind: (if i < n_dir { "clauses-directed" } else { "clauses" }).into(), coq: format!("CAgg {}", q.coq(&ctx)), obs: vec![o, p],
            meta: json!({"what": what, "text": text, "params": format!("{:?}", q.params), "error": err.lock().unwrap().clone(), "panic": if o == 2 { last_panic() } else { String::new() }}) });
    }
    stats.insert("clause_query_verdicts_ok_err_panic_timeout".into(), json!(verdicts));
    stats.insert("clause_use_agg_order_first_skip_paging_filter_search_json_params".into(), json!(clause_use));

    // ---- deletions by parameter
    let known = { let r = setup_mutate(&inst.app, "mutate { agg.Pet { name: \"to delete\" } }", None).await; base64_encode(&r.mutate_entities[0].node_to_mutate.id) };
    let n_del = scale(120, 1500);
    for i in 0..n_del {
        if !inst.healthy { inst.close(); inst = Inst::start(CL_MODEL).await; }
        let pv: Option<PV> = if i == 0 { Some(PV::Str(known.clone())) } else { match rng.below(12) {
            0 => None, 1 => Some(PV::Null), 2 => Some(PV::Int), 3 => Some(PV::Bool), 4 => Some(PV::Float(true)), 5 => Some(PV::Bin(base64_encode(&new_uid()))),
            6 => Some(PV::Str(long_b64(rng))), 7 | 8 => Some(PV::Str(base64_encode(&new_uid()))), _ => Some(PV::Str(mb_string(rng))) } };
        let mut p = Parameters::default();
        if let Some(v) = &pv { pv_add(&mut p, "id", v); }
        let o = call(inst.app.delete("delete { agg.Pet { $id } }", Some(p))).await;
        let pr = inst.probe(false).await as i64;
        if o >= 2 || pr == 0 { inst.healthy = false; }
        out.push(Case { kind: "delete".into(), coq: format!("CDel {}", match &pv { Some(v) => format!("(Some ({}))", pv_coq(v, &ctx)), None => "None".into() }), obs: vec![o, pr],
            meta: json!({"param": format!("{:?}", pv), "panic": if o == 2 { last_panic() } else { String::new() }}) });
    }
    inst.close();
}
