// stream (a): grammar-derived queries over generated data models, identifiers drawn from SQL
// keywords / digit-first / Unicode letters and numbers (included by bin/c14.rs)

const PLAIN: [&str; 10] = ["name", "title", "a_b", "x1", "Val", "pets2", "owner", "kids", "note", "zz"];
const RESERVED: [&str; 22] = ["group", "order", "index", "select", "table", "from", "where", "join", "left", "all", "to", "in", "is", "as", "on", "values", "limit", "exists", "Group", "ORDER", "Index", "transaction"];
const FALLBACK: [&str; 12] = ["key", "abort", "action", "first", "last", "desc", "query", "rows", "view", "offset", "end", "filter"];
const DIGIT: [&str; 4] = ["1a", "9", "007x", "2fast"];
const UNI: [&str; 8] = ["été", "名前", "Ωmega", "naïve", "ß", "данные", "²x", "٣a"];
const SYSNAMES: [&str; 7] = ["id", "room_id", "cdate", "mdate", "sys_peer", "sys_room", "verifying_key"];

fn is_type_name(s: &str) -> bool { matches!(s.to_lowercase().as_str(), "boolean" | "float" | "integer" | "string" | "base64" | "json") }
fn pick_ident(rng: &mut Rng, odd: u64) -> String {
    // odd = percentage of identifiers drawn from the odd pools
    if rng.below(100) >= odd { return (*rng.pick(&PLAIN)).to_string(); }
    match rng.below(10) {
        0..=3 => (*rng.pick(&RESERVED)).to_string(),
        4..=5 => (*rng.pick(&FALLBACK)).to_string(),
        6..=7 => (*rng.pick(&DIGIT)).to_string(),
        _ => (*rng.pick(&UNI)).to_string(),
    }
}
fn ident_coq(s: &str) -> String { glist(&s.chars().map(|c| gn(c as u64)).collect::<Vec<_>>()) }
fn oident_coq(o: &Option<String>) -> String { match o { Some(s) => format!("(Some {})", ident_coq(s)), None => "None".into() } }

#[derive(Clone, Debug)]
enum DKind { Scalar { ty: &'static str, json: bool, dflt: Option<&'static str> }, Ref { arr: bool, target: usize, nullable: bool } }
#[derive(Clone, Debug)]
struct DEntity { ns: String, name: String, fields: Vec<(String, DKind)> }
#[derive(Clone, Debug)]
struct DModel { ents: Vec<DEntity> }
impl DEntity { fn full(&self) -> String { if self.ns.is_empty() { self.name.clone() } else { format!("{}.{}", self.ns, self.name) } } }
impl DModel {
    fn text(&self) -> String {
        let mut nss: Vec<String> = vec![];
        for e in &self.ents { if !nss.contains(&e.ns) { nss.push(e.ns.clone()); } }
        let mut s = String::new();
        for ns in nss {
            s.push_str(&format!("{} {{\n", ns));
            for e in self.ents.iter().filter(|e| e.ns == ns) {
                let fs: Vec<String> = e.fields.iter().map(|(n, k)| match k {
                    DKind::Scalar { ty, dflt, .. } => format!("{}: {}{}", n, ty, match dflt { Some(d) => format!(" default {}", d), None => "".into() }),
                    DKind::Ref { arr, target, nullable } => { let t = self.ents[*target].full(); format!("{}: {}{}", n, if *arr { format!("[{}]", t) } else { t }, if *nullable { " nullable" } else { "" }) }
                }).collect();
                s.push_str(&format!("  {} {{ {} }}\n", e.name, fs.join(", ")));
            }
            s.push_str("}\n");
        }
        s
    }
    fn coq(&self) -> String {
        glist(&self.ents.iter().map(|e| format!("{{| de_ns := {}; de_name := {}; de_fields := {} |}}", ident_coq(&e.ns), ident_coq(&e.name),
            glist(&e.fields.iter().map(|(n, k)| format!("({}, {})", ident_coq(n), match k {
                DKind::Scalar { json, dflt, .. } => format!("KScalar {} {}", gb(*json), gb(dflt.is_some())),
                DKind::Ref { arr, target, nullable } => format!("KRef {} {} {}", gb(*arr), target, gb(*nullable)) })).collect::<Vec<_>>()))).collect::<Vec<_>>())
    }
}
const SCALARS: [(&str, bool, Option<&str>); 8] = [("String", false, None), ("String", false, Some("\"d\"")), ("Integer", false, Some("3")), ("Integer", false, None),
    ("Json", true, None), ("Json", true, Some("\"[1]\"")), ("Base64", false, None), ("Boolean", false, Some("true"))];

fn gen_dmodel(rng: &mut Rng, odd: u64) -> DModel {
    let nns = 1 + rng.below(2);
    let mut nss: Vec<String> = vec![];
    for i in 0..nns {
        let ns = if i == 1 || rng.chance(1, 4) { "".to_string() } else { loop { let c = pick_ident(rng, odd).to_lowercase(); if c.to_lowercase() == c && !nss.contains(&c) { break c; } } };
        if !nss.contains(&ns) { nss.push(ns); }
    }
    let mut ents: Vec<DEntity> = vec![];
    for ns in &nss {
        for _ in 0..(1 + rng.below(3)) {
            let name = loop { let c = pick_ident(rng, odd); if !is_type_name(&c) && !ents.iter().any(|e| &e.ns == ns && e.name == c) { break c; } };
            ents.push(DEntity { ns: ns.clone(), name, fields: vec![] });
        }
    }
    let n = ents.len();
    for i in 0..n {
        let mut fields: Vec<(String, DKind)> = vec![];
        let nf = 1 + rng.below(4);
        let nr = rng.below(4);
        for j in 0..(nf + nr) {
            let name = loop { let c = pick_ident(rng, odd); if !is_type_name(&c) && !c.starts_with('_') && !SYSNAMES.contains(&c.as_str()) && !fields.iter().any(|(f, _)| *f == c) { break c; } };
            let kind = if j < nf { let (ty, json, dflt) = *rng.pick(&SCALARS); DKind::Scalar { ty, json, dflt } }
                       else { DKind::Ref { arr: rng.chance(1, 2), target: rng.below(n as u64) as usize, nullable: rng.chance(2, 3) } };
            fields.push((name, kind));
        }
        ents[i].fields = fields;
    }
    DModel { ents }
}

#[derive(Clone, Debug)]
enum RField { Named(Option<String>, String), Json(String, String), Sub(Option<String>, String, Vec<RField>) }
#[derive(Clone, Debug)]
struct REntity { alias: Option<String>, ent: usize, ns: String, name: String, search: Option<String>, fields: Vec<RField> }

fn rfield_text(f: &RField) -> String {
    match f {
        RField::Named(a, n) => match a { Some(a) => format!("{}: {}", a, n), None => n.clone() },
        RField::Json(a, n) => format!("{}: {}->$.a", a, n),
        RField::Sub(a, n, subs) => format!("{}{} {{ {} }}", match a { Some(a) => format!("{}: ", a), None => "".into() }, n, subs.iter().map(rfield_text).collect::<Vec<_>>().join(" ")),
    }
}
fn rfield_coq(f: &RField) -> String {
    match f {
        RField::Named(a, n) => format!("RNamed {} {}", oident_coq(a), ident_coq(n)),
        RField::Json(a, n) => format!("RJson {} {}", ident_coq(a), ident_coq(n)),
        RField::Sub(a, n, subs) => format!("RSub {} {} {}", oident_coq(a), ident_coq(n), glist(&subs.iter().map(rfield_coq).collect::<Vec<_>>())),
    }
}
impl REntity {
    fn text(&self) -> String {
        let full = if self.ns.is_empty() { self.name.clone() } else { format!("{}.{}", self.ns, self.name) };
        format!("{}{}{} {{ {} }}", match &self.alias { Some(a) => format!("{}: ", a), None => "".into() }, full,
            match &self.search { Some(s) => format!("(search(\"{}\"))", s), None => "".into() }, self.fields.iter().map(rfield_text).collect::<Vec<_>>().join(" "))
    }
    fn coq(&self) -> String {
        format!("{{| re_alias := {}; re_ns := {}; re_name := {}; re_search := {}; re_fields := {} |}}", oident_coq(&self.alias), ident_coq(&self.ns), ident_coq(&self.name),
            match &self.search { Some(s) => format!("(Some {})", ident_coq(s)), None => "None".into() }, glist(&self.fields.iter().map(rfield_coq).collect::<Vec<_>>()))
    }
}
fn query_text(qs: &[REntity]) -> String { format!("query {{ {} }}", qs.iter().map(|q| q.text()).collect::<Vec<_>>().join(" ")) }

/// fields selected on entity `e`: mostly valid, `bad` = per-mille of deliberate semantic errors
fn gen_fields(rng: &mut Rng, dm: &DModel, e: usize, depth: u32, odd: u64, bad: u64) -> Vec<RField> {
    let ent = &dm.ents[e];
    let mut out: Vec<RField> = vec![];
    let mut keys: Vec<String> = vec![];
    let n = 1 + rng.below(3);
    let mut tries = 0;
    while (out.len() as u64) < n && tries < 20 {
        tries += 1;
        let alias = if rng.chance(1, 3) { Some(pick_ident(rng, odd)) } else { None };
        let f = match rng.below(10) {
            0 => RField::Named(alias, (*rng.pick(&["id", "mdate", "cdate", "room_id", "verifying_key", "_entity"])).to_string()),
            _ => { let (fname, k) = rng.pick(&ent.fields).clone();
                   match k {
                       DKind::Scalar { json, .. } => if json && rng.chance(1, 2) { RField::Json(alias.unwrap_or_else(|| "sel".into()), fname) } else { RField::Named(alias, fname) },
                       DKind::Ref { target, .. } => if depth == 0 { continue } else { RField::Sub(alias, fname, gen_fields(rng, dm, target, depth - 1, odd, bad)) } } }
        };
        let key = match &f { RField::Named(a, n) | RField::Sub(a, n, _) => a.clone().unwrap_or(n.clone()), RField::Json(a, _) => a.clone() };
        let bad_alias = match &f { RField::Named(Some(a), _) | RField::Sub(Some(a), _, _) => a.starts_with('_') || ent.fields.iter().any(|(n, _)| n == a) || SYSNAMES.contains(&a.as_str()) || ["_entity", "_json", "_binary", "_signature"].contains(&a.as_str()), _ => false };
        if (keys.contains(&key) || bad_alias) && rng.below(1000) >= bad { continue; }
        keys.push(key);
        out.push(f);
    }
    if out.is_empty() { out.push(RField::Named(None, "id".into())); }
    if rng.below(1000) < bad {
        match rng.below(3) {
            0 => out.push(RField::Named(None, "nosuchfield".into())),
            1 => if let Some((n, _)) = ent.fields.iter().find(|(_, k)| matches!(k, DKind::Ref { .. })) { out.push(RField::Named(None, n.clone())) },
            _ => if let Some((n, _)) = ent.fields.iter().find(|(_, k)| matches!(k, DKind::Scalar { .. })) { out.push(RField::Sub(None, n.clone(), vec![RField::Named(None, "id".into())])) },
        }
    }
    out
}
fn gen_query(rng: &mut Rng, dm: &DModel, odd: u64, bad: u64, max_depth: u32) -> Vec<REntity> {
    let mut qs: Vec<REntity> = vec![];
    for _ in 0..(1 + rng.below(2)) {
        let e = rng.below(dm.ents.len() as u64) as usize;
        let alias = if rng.chance(1, 3) { Some(pick_ident(rng, odd)) } else { None };
        let depth = rng.below(max_depth as u64 + 1) as u32;
        let search = match rng.below(12) { 0 => Some("probe".to_string()), 1 => Some(if rng.chance(1, 2) { "".to_string() } else { "  ".to_string() }), _ => None };
        let q = REntity { alias, ent: e, ns: dm.ents[e].ns.clone(), name: dm.ents[e].name.clone(), search, fields: gen_fields(rng, dm, e, depth, odd, bad) };
        let an = q.alias.clone().unwrap_or(dm.ents[e].full());
        let dup = qs.iter().any(|p| p.alias.clone().unwrap_or(dm.ents[p.ent].full()) == an);
        if dup && rng.below(1000) >= bad { continue; }
        qs.push(q);
    }
    qs
}

fn count_sub(h: &str, n: &str) -> i64 { h.matches(n).count() as i64 }

pub async fn query_streams(rng: &mut Rng, out: &mut Out, stats: &mut serde_json::Map<String, serde_json::Value>) {
    let mut verdicts = [0usize; 4];
    // ---- directed: one fixed data model
    let s = |x: &str| x.to_string();
    let sc = |ty: &'static str, json: bool, dflt: Option<&'static str>| DKind::Scalar { ty, json, dflt };
    let dm = DModel { ents: vec![
        DEntity { ns: s("d"), name: s("Person"), fields: vec![(s("name"), sc("String", false, None)), (s("pets"), DKind::Ref { arr: true, target: 1, nullable: true }),
                  (s("order"), DKind::Ref { arr: false, target: 1, nullable: true }), (s("group"), DKind::Ref { arr: true, target: 1, nullable: true }),
                  (s("jd"), sc("Json", true, Some("\"[1]\""))), (s("jn"), sc("Json", true, None)), (s("dflt"), sc("String", false, Some("\"d\"")))] },
        DEntity { ns: s("d"), name: s("Pet"), fields: vec![(s("name"), sc("String", false, None))] },
        DEntity { ns: s("d"), name: s("Tree"), fields: vec![(s("name"), sc("String", false, None)), (s("kids"), DKind::Ref { arr: true, target: 2, nullable: true }),
                  (s("one"), DKind::Ref { arr: false, target: 2, nullable: true }), (s("nn"), DKind::Ref { arr: true, target: 2, nullable: false }), (s("nn1"), DKind::Ref { arr: false, target: 2, nullable: false })] },
        DEntity { ns: s(""), name: s("Group"), fields: vec![(s("name"), sc("String", false, None))] },
        DEntity { ns: s(""), name: s("Plain"), fields: vec![(s("name"), sc("String", false, None))] },
    ] };
    let named = |n: &str| RField::Named(None, n.to_string());
    let top = |alias: Option<&str>, e: usize, search: Option<&str>, fields: Vec<RField>| REntity { alias: alias.map(|a| a.to_string()), ent: e, ns: dm.ents[e].ns.clone(), name: dm.ents[e].name.clone(), search: search.map(|a| a.to_string()), fields };
    fn chain(path: &str, leaf: RField) -> RField {
        match path.chars().next() { None => leaf, Some(c) => { let n = match c { 'a' => "kids", 's' => "one", 'n' => "nn", _ => "nn1" };
            let inner = chain(&path[1..], leaf.clone());
            RField::Sub(None, n.to_string(), if path.len() == 1 { vec![inner] } else { vec![RField::Named(None, "name".into()), inner] }) } }
    }
    let directed: Vec<(Vec<REntity>, &str)> = vec![
        (vec![top(None, 0, None, vec![named("name"), RField::Sub(None, s("pets"), vec![named("name")])])], "plain nested query"),
        (vec![top(Some("group"), 0, None, vec![named("name")])], "former K3 top-level alias is an SQL keyword (fixed 601cdc3, must be Ok)"),
        (vec![top(Some("1a"), 0, None, vec![named("name")])], "former K3 top-level alias starts with a digit (fixed 601cdc3, must be Ok)"),
        (vec![top(None, 3, None, vec![named("name")])], "former K3 entity without namespace named Group (fixed 601cdc3, must be Ok)"),
        (vec![top(None, 0, None, vec![named("name"), RField::Sub(None, s("order"), vec![named("name")])])], "former K3 reference field named order (fixed 601cdc3, must be Ok)"),
        (vec![top(None, 0, None, vec![RField::Sub(Some(s("index")), s("pets"), vec![named("name")])])], "former K3 sub-selection alias is an SQL keyword (fixed 601cdc3, must be Ok)"),
        (vec![top(Some("été"), 0, None, vec![RField::Sub(Some(s("名前")), s("pets"), vec![named("name")])])], "Unicode aliases"),
        (vec![top(Some("key"), 0, None, vec![RField::Named(Some(s("group")), s("name"))])], "keyword that falls back to an identifier; scalar alias is only quoted"),
        (vec![top(None, 0, None, vec![RField::Json(s("a"), s("jd"))])], "former K4 json selector on a Json field with a default (fixed 601cdc3, must be Ok)"),
        (vec![top(None, 0, None, vec![RField::Json(s("a"), s("jn")), named("dflt"), named("jd")])], "json selector without default; defaults on plain selections"),
        (vec![top(None, 0, Some(""), vec![named("name")])], "K5 empty search text"),
        (vec![top(None, 0, Some("probe"), vec![named("name")])], "search for a word"),
        (vec![top(None, 2, None, vec![chain("aaaa", named("name"))])], "4 array levels"),
        (vec![top(None, 2, None, vec![chain("aaaaa", named("name"))])], "K6 5 array levels"),
        (vec![top(None, 2, None, vec![chain("sssssss", named("name"))])], "7 single levels"),
        (vec![top(None, 2, None, vec![chain("ssssssss", named("name"))])], "K6 8 single levels"),
        (vec![top(None, 2, None, vec![chain("asasas", named("name"))])], "3 arrays + 3 singles"),
        (vec![top(None, 2, None, vec![chain("aaassss", named("name"))])], "K6 3 arrays + 4 singles") ,
        (vec![top(Some("Plain"), 0, None, vec![named("name")])], "alias equal to an entity without namespace"),
        (vec![top(Some("_x"), 0, None, vec![named("name")])], "alias starting with _"),
        (vec![top(None, 0, None, vec![RField::Named(Some(s("pets")), s("name"))])], "alias equal to a field name"),
        (vec![top(None, 0, None, vec![named("name"), named("name")])], "field selected twice"),
        (vec![top(None, 0, None, vec![named("name")]), top(None, 0, None, vec![named("name")])], "entity selected twice without alias"),
    ];
    let mut inst = Inst::start(&dm.text()).await;
    setup_mutate(&inst.app, r#"mutate { d.Person { name: "probe" pets: [{name:"kiki"}] order: {name:"o"} jn: "{\"a\":1}" } }"#, None).await;
    for (qs, what) in &directed {
        if !inst.healthy { inst.close(); inst = Inst::start(&dm.text()).await; }
        let text = query_text(qs);
        let o = call_t(|| inst.app.query(&text, None)).await;
        let p = inst.probe(false).await as i64;
        verdicts[o as usize] += 1;
        if o >= 2 || p == 0 { inst.healthy = false; }
        out.push(Case { kind: "query-directed".into(), coq: format!("CQuery {} {}", dm.coq(), glist(&qs.iter().map(|q| q.coq()).collect::<Vec<_>>())), obs: vec![o, p], meta: json!({"what": what, "text": text}) });
    }
    // ---- every keyword of the linked engine, as top-level alias and as sub-selection alias
    let nkw = unsafe { rusqlite::ffi::sqlite3_keyword_count() };
    for i in 0..nkw {
        let mut ptr: *const std::os::raw::c_char = std::ptr::null();
        let mut len: std::os::raw::c_int = 0;
        unsafe { rusqlite::ffi::sqlite3_keyword_name(i, &mut ptr, &mut len) };
        let kw = unsafe { std::str::from_utf8(std::slice::from_raw_parts(ptr as *const u8, len as usize)).unwrap().to_string() };
        let kw = if i % 3 == 0 { kw.to_lowercase() } else if i % 3 == 1 { kw } else { let l = kw.to_lowercase(); let mut c = l.chars(); match c.next() { Some(f) => f.to_uppercase().collect::<String>() + c.as_str(), None => l } };
        for pos in 0..2 {
            let qs = if pos == 0 { vec![top(Some(&kw), 0, None, vec![named("name")])] } else { vec![top(None, 0, None, vec![named("name"), RField::Sub(Some(kw.clone()), s("pets"), vec![named("name")])])] };
            let text = query_text(&qs);
            let o = call_t(|| inst.app.query(&text, None)).await;
            let p = inst.probe(false).await as i64;
            verdicts[o as usize] += 1;
            out.push(Case { kind: "query-keyword".into(), coq: format!("CQuery {} {}", dm.coq(), glist(&qs.iter().map(|q| q.coq()).collect::<Vec<_>>())), obs: vec![o, p], meta: json!({"keyword": kw, "position": pos, "text": text}) });
        }
    }
    stats.insert("engine_keywords".into(), json!(nkw));
    // ---- statement sizes (K7) on the fixed model: real parser + real compiler, no engine
    let mut rdm = DataModel::new();
    rdm.update(&dm.text()).unwrap();
    let mut size_cases: Vec<REntity> = vec![];
    for path in ["n", "nn", "nnn", "nnnnnnnnnn", "NNNN", "nana", "anan", "aaaa", "ssss", "nsss", "sssn"] { size_cases.push(top(None, 2, None, vec![named("name"), chain(path, named("name"))])); }
    size_cases.push(top(None, 0, None, vec![RField::Json(s("a"), s("jd")), named("id")]));
    size_cases.push(top(None, 0, None, vec![named("nosuchfield")]));
    for _ in 0..scale(60, 600) {
        let mut q = gen_query(rng, &dm, 10, 30, 5);
        size_cases.push(q.remove(0));
    }
    for q in &size_cases {
        let text = query_text(std::slice::from_ref(q));
        let obs = match QueryParser::parse(&text, &rdm) {
            Err(_) => vec![0, 0, 0, 0],
            Ok(p) => match PreparedQueries::build(&p) { Err(_) => vec![0, 0, 0, 0], Ok(b) => { let sql = &b.sql_queries[0].sql_query; vec![1, count_sub(sql, "SELECT \n"), count_sub(sql, "("), count_sub(sql, ")")] } },
        };
        out.push(Case { kind: "query-size".into(), coq: format!("CQSize {} {}", dm.coq(), q.coq()), obs, meta: json!({"text": text}) });
    }
    inst.close();
    // ---- generated data models and queries
    let n_models = scale(7, 40);
    let per_model = scale(45, 250);
    let mut depth_hist = [0usize; 8];
    for mi in 0..n_models {
        let odd = if mi % 2 == 0 { 35 } else { 12 };
        let gdm = gen_dmodel(rng, odd);
        let mut inst = Inst::start(&gdm.text()).await;
        for _ in 0..per_model {
            if !inst.healthy { inst.close(); inst = Inst::start(&gdm.text()).await; }
            let qs = gen_query(rng, &gdm, odd / 2, 25, 6);
            let text = query_text(&qs);
            let o = call_t(|| inst.app.query(&text, None)).await;
            let p = inst.probe(false).await as i64;
            verdicts[o as usize] += 1;
            fn d(f: &RField) -> usize { match f { RField::Sub(_, _, s) => 1 + s.iter().map(d).max().unwrap_or(0), _ => 0 } }
            depth_hist[qs.iter().flat_map(|q| q.fields.iter().map(d)).max().unwrap_or(0).min(7)] += 1;
            if o >= 2 || p == 0 { inst.healthy = false; }
            out.push(Case { kind: "query".into(), coq: format!("CQuery {} {}", gdm.coq(), glist(&qs.iter().map(|q| q.coq()).collect::<Vec<_>>())), obs: vec![o, p], meta: json!({"text": text, "model": gdm.text(), "panic": if o == 2 { last_panic() } else { String::new() }}) });
        }
        inst.close();
    }
    stats.insert("query_verdicts_ok_err_panic_timeout".into(), json!(verdicts));
    stats.insert("query_nesting_depth_histogram".into(), json!(depth_hist));
}
