// room definitions received from a peer: the RoomNode another instance exports, with one member of
// one sys.* row replaced (null, wrong type, missing) and the row re-signed with the author's key,
// given to add_room_node of a receiving instance; then a probe, then a restart of the receiver on
// the same folder, which must succeed and answer. (included by bin/c14.rs)
use discret::verif_hooks::security::derive_key;

#[derive(Clone, Copy, Debug, PartialEq)]
enum RMember { UserKey, UserEnabled, RightEntity, RightSelf, RightAll, AuthName }
impl RMember {
    fn coq(&self) -> &'static str { match self { RMember::UserKey => "MUserKey", RMember::UserEnabled => "MUserEnabled", RMember::RightEntity => "MRightEntity", RMember::RightSelf => "MRightSelf", RMember::RightAll => "MRightAll", RMember::AuthName => "MAuthName" } }
    fn short(&self) -> &'static str { match self { RMember::UserKey | RMember::RightEntity | RMember::AuthName => "32", RMember::UserEnabled | RMember::RightSelf => "33", RMember::RightAll => "34" } }
}
fn jclass_coq(v: &Option<serde_json::Value>) -> String {
    match v { None => "JMissing".into(), Some(serde_json::Value::Null) => "JNull".into(), Some(serde_json::Value::Bool(_)) => "JBoolean".into(), Some(serde_json::Value::Number(_)) => "JNumber".into(),
              Some(serde_json::Value::String(s)) => format!("(JString {})", gb(base64_decode(s.as_bytes()).is_ok())), Some(_) => "JOther".into() }
}
/// replace (or remove) one member of the row's json and sign the row again
fn rewrite(node: &mut Node, member: &str, v: &Option<serde_json::Value>, sk: &Ed25519SigningKey) {
    let mut j: serde_json::Value = serde_json::from_str(node._json.as_deref().unwrap_or("{}")).unwrap();
    let o = j.as_object_mut().unwrap();
    match v { Some(val) => { o.insert(member.to_string(), val.clone()); } None => { o.remove(member); } }
    node._json = Some(serde_json::to_string(&j).unwrap());
    node.sign(sk).unwrap();
}

pub async fn room_definition_stream(rng: &mut Rng, out: &mut Out, stats: &mut serde_json::Map<String, serde_json::Value>) {
    let model = "rd { Doc { name: String } }";
    // the author: an instance whose signing key the harness can recompute
    let a = Inst::start(model).await;
    let sk = Ed25519SigningKey::create_from(&derive_key(&format!("{} SIGNING_KEY", "c14"), &a.km));
    assert_eq!(sk.export_verifying_key(), a.vk, "the signing key of the authoring instance is derived as the harness expects");
    let values: Vec<Option<serde_json::Value>> = vec![None, Some(json!(null)), Some(json!("x y")), Some(json!(5)), Some(json!(1.5)), Some(json!([true])), Some(json!({"a": 1})), Some(json!("")), Some(json!(true))];
    let mut plan: Vec<(RMember, usize, Option<serde_json::Value>, &str)> = vec![];
    // member x where the row sits (0 admin list, 1 users, 2 user_admin ; rights and the authorisation itself have one place)
    for m in [RMember::UserEnabled, RMember::UserKey] { for place in 0..3 { for v in &values { if m == RMember::UserKey && matches!(v, Some(serde_json::Value::Bool(_))) { continue; } plan.push((m, place, v.clone(), "")); } } }
    for m in [RMember::RightEntity, RMember::RightSelf, RMember::RightAll, RMember::AuthName] { for v in &values { plan.push((m, 0, v.clone(), "")); } }
    // quick tier: every member with missing / null / one wrong type / unchanged type; thorough: everything
    let plan: Vec<_> = if tier_thorough() { plan } else {
        let mut p: Vec<_> = plan.into_iter().filter(|(m, place, v, _)| (*place == (*m as usize) % 3 || *place == 0 && !matches!(m, RMember::UserEnabled | RMember::UserKey))
            && (v.is_none() || matches!(v, Some(serde_json::Value::Null)) || matches!(v, Some(serde_json::Value::Number(n)) if n.is_i64()) || matches!(v, Some(serde_json::Value::Bool(_))) || matches!(v, Some(serde_json::Value::String(s)) if s == "x y" && matches!(m, RMember::UserEnabled | RMember::UserKey | RMember::RightEntity)))).collect();
        // the witness of the former class 11 in all three places, first
        for place in [2usize, 1, 0] { p.insert(0, (RMember::UserEnabled, place, None, "former K11 (fixed 86aa554): a user row without `enabled`: the receiver must start again")); }
        p
    };
    let mut b: Option<Inst> = None;
    let (mut accepted, mut refused, mut dead_starts) = (0usize, 0usize, 0usize);
    for (m, place, v, what) in plan {
        let _ = rng.below(2);
        // a new room for every case, authored by A
        let mut p = Parameters::default();
        p.add("user_id", base64_encode(&a.vk)).unwrap();
        let room = setup_mutate(&a.app, r#"mutate { sys.Room{ admin:[{verif_key:$user_id}] authorisations:[{ name:"g" rights:[{entity:"rd.Doc" mutate_self:true mutate_all:false}] users:[{verif_key:$user_id}] user_admin:[{verif_key:$user_id}] }] } }"#, Some(p)).await;
        let room_id = room.mutate_entities[0].node_to_mutate.id;
        let rn = a.app.get_room_node(room_id).await.ok().flatten().expect("the author exports its room");
        let mut rn: RoomNode = bincode::deserialize(&bincode::serialize(&rn).unwrap()).unwrap();
        {
            let auth = &mut rn.auth_nodes[0];
            let node: &mut Node = match (m, place) {
                (RMember::UserEnabled | RMember::UserKey, 0) => &mut rn.admin_nodes[0].node,
                (RMember::UserEnabled | RMember::UserKey, 1) => &mut auth.user_nodes[0].node,
                (RMember::UserEnabled | RMember::UserKey, _) => &mut auth.user_admin_nodes[0].node,
                (RMember::AuthName, _) => &mut auth.node,
                _ => &mut auth.right_nodes[0].node,
            };
            // a string for the key member keeps the author's key (anything else would be another user)
            let v2 = if m == RMember::UserKey && matches!(&v, Some(serde_json::Value::String(s)) if base64_decode(s.as_bytes()).is_ok() && !s.is_empty()) { Some(json!(base64_encode(&a.vk))) } else { v.clone() };
            rewrite(node, m.short(), &v2, &sk);
        }
        if b.is_none() { b = Some(Inst::start(model).await); }
        let recv = b.take().unwrap();
        let o = call(recv.app.add_room_node(rn)).await;
        let pr = recv.probe(true).await as i64;
        if o == 0 { accepted += 1 } else { refused += 1 }
        // the receiver is stopped and started again on the same folder
        let restarted = recv.restart().await;
        let r = restarted.is_some() as i64;
        if restarted.is_none() { dead_starts += 1; }
        b = restarted;
        let place_name = ["admin", "users", "user_admin"][place];
        out.push(Case { kind: "room-definition".into(), coq: format!("CRoomDef {} {}", m.coq(), jclass_coq(&v)), obs: vec![o, pr, r],
            meta: json!({"what": what, "member": format!("{:?}", m), "place": place_name, "value": v, "panic": if r == 0 || o == 2 { last_panic() } else { String::new() }}) });
    }
    if let Some(i) = b { i.close(); }
    a.close();
    stats.insert("room_definitions_accepted_refused_dead_restarts".into(), json!([accepted, refused, dead_starts]));
}
