//! shared by the C07 and C10 harnesses: the abstract shape of a room definition (what
//! coq/model/RoomNode.v talks about), its translation to real signed rows / references and back,
//! Gallina printing, canonical verdict codes and decision probes.
#![allow(dead_code)]
use vharness::common::*;
use discret::verif_hooks::database::edge::Edge;
use discret::verif_hooks::database::node::Node;
use discret::verif_hooks::database::room::{RightType, Room};
use discret::verif_hooks::database::room_node::{AuthorisationNode, EntityRightNode, RoomNode, UserNode};
use discret::verif_hooks::database::Error as DbError;
use discret::verif_hooks::security::{base64_decode, base64_encode, Ed25519SigningKey, SigningKey};
use std::collections::HashMap;

pub const BASE: i64 = 1_700_000_000_000;

#[derive(Clone, Debug, PartialEq, Eq, Hash)]
pub struct UN { pub id: u64, pub date: i64, pub author: u64, pub key: u64, pub enabled: bool, pub cd: i64 }   // cdate = date + cd
#[derive(Clone, Debug, PartialEq, Eq, Hash)]
pub struct RN { pub id: u64, pub date: i64, pub author: u64, pub ent: u64, pub s: bool, pub a: bool, pub cd: i64 }
#[derive(Clone, Debug, PartialEq, Eq, Hash)]
pub struct ED { pub src: u64, pub label: u64, pub dest: u64, pub date: i64, pub author: u64 }
#[derive(Clone, Debug, PartialEq, Eq)]
pub struct AN { pub id: u64, pub date: i64, pub author: u64, pub cdate: i64,
    pub redges: Vec<ED>, pub rnodes: Vec<RN>, pub uedges: Vec<ED>, pub unodes: Vec<UN>, pub aedges: Vec<ED>, pub anodes: Vec<UN> }
#[derive(Clone, Debug, PartialEq, Eq)]
pub struct RM { pub id: u64, pub cdate: i64, pub date: i64, pub author: u64,
    pub aedges: Vec<ED>, pub anodes: Vec<UN>, pub gedges: Vec<ED>, pub gnodes: Vec<AN> }

pub const L_ADMIN: u64 = 32;
pub const L_AUTHS: u64 = 33;
pub const L_RIGHTS: u64 = 33;
pub const L_USERS: u64 = 34;
pub const L_UADMIN: u64 = 35;

impl AN {
    pub fn read_order(&self) -> AN { self.clone() }
}
impl RM {
    /// RoomNode::read returns every entry list oldest first (83dc3ea): a definition whose lists are in
    /// insertion order is read back as it is
    pub fn read_order(&self) -> RM { self.clone() }
}

/// keys by model index; uids by model index (real instance uids get indices >= 1000 on first sight)
pub struct Ctx {
    pub keys: Vec<Ed25519SigningKey>,
    pub vkeys: Vec<Vec<u8>>,
    pub extra_keys: Vec<Vec<u8>>,               // verifying keys of real instances (index 50+i), no signing key held
    pub uids: HashMap<[u8; 16], u64>,
    pub uid_rev: HashMap<u64, [u8; 16]>,
    pub next_uid: u64,
    cache_n: HashMap<String, Node>,
    cache_e: HashMap<ED, Edge>,
}
pub const NKEYS: u64 = 24;
impl Ctx {
    pub fn new() -> Ctx {
        let keys: Vec<Ed25519SigningKey> = (0..=NKEYS).map(|k| Ed25519SigningKey::create_from(&[k as u8 + 1; 32])).collect();
        let vkeys = keys.iter().map(|k| k.export_verifying_key()).collect();
        Ctx { keys, vkeys, extra_keys: vec![], uids: HashMap::new(), uid_rev: HashMap::new(), next_uid: 1000, cache_n: HashMap::new(), cache_e: HashMap::new() }
    }
    pub fn vkey(&self, k: u64) -> Vec<u8> {
        if k >= 50 { self.extra_keys[(k - 50) as usize].clone() } else { self.vkeys[k as usize].clone() }
    }
    pub fn add_instance_key(&mut self, vk: &[u8]) -> u64 { self.extra_keys.push(vk.to_vec()); 50 + self.extra_keys.len() as u64 - 1 }
    pub fn key_ix(&self, vk: &[u8]) -> u64 {
        if let Some(i) = self.vkeys.iter().position(|v| v == vk) { return i as u64; }
        if let Some(i) = self.extra_keys.iter().position(|v| v == vk) { return 50 + i as u64; }
        999
    }
    pub fn uid(&self, n: u64) -> [u8; 16] { if let Some(u) = self.uid_rev.get(&n) { *u } else { uid_of(n) } }
    pub fn uid_ix(&mut self, u: &[u8; 16]) -> u64 {
        if u[0] == 0x77 && u[1..8].iter().all(|b| *b == 0) { return u64::from_be_bytes(u[8..16].try_into().unwrap()); }
        if let Some(i) = self.uids.get(u) { return *i; }
        let i = self.next_uid; self.next_uid += 1;
        self.uids.insert(*u, i); self.uid_rev.insert(i, *u);
        i
    }
    fn signed_node(&mut self, tag: &str, id: u64, cdate: i64, mdate: i64, ent: &str, json: String, author: u64) -> Node {
        let k = format!("{}|{}|{}|{}|{}|{}|{}", tag, id, cdate, mdate, ent, json, author);
        if let Some(n) = self.cache_n.get(&k) { return n.clone(); }
        let mut n = Node { id: self.uid(id), room_id: None, cdate, mdate, _entity: ent.to_string(), _json: Some(json), ..Default::default() };
        n.sign(&self.keys[author as usize]).unwrap();
        self.cache_n.insert(k, n.clone());
        n
    }
    pub fn user_node(&mut self, u: &UN) -> UserNode {
        let json = format!("{{\"32\":\"{}\",\"33\":{}}}", base64_encode(&self.vkey(u.key)), u.enabled);
        UserNode { node: self.signed_node("u", u.id, u.date + u.cd, u.date, "0.2", json, u.author) }
    }
    pub fn right_node(&mut self, r: &RN) -> EntityRightNode {
        let json = format!("{{\"32\":\"{}\",\"33\":{},\"34\":{}}}", ent_name(r.ent), r.s, r.a);
        EntityRightNode { node: self.signed_node("r", r.id, r.date + r.cd, r.date, "0.3", json, r.author) }
    }
    pub fn edge(&mut self, e: &ED, src_entity: &str) -> Edge {
        if let Some(x) = self.cache_e.get(e) { if x.src_entity == src_entity { return x.clone(); } }
        let mut x = Edge { src: self.uid(e.src), src_entity: src_entity.to_string(), label: e.label.to_string(), dest: self.uid(e.dest), cdate: e.date, ..Default::default() };
        x.sign(&self.keys[e.author as usize]).unwrap();
        self.cache_e.insert(e.clone(), x.clone());
        x
    }
    pub fn auth_node(&mut self, a: &AN) -> AuthorisationNode {
        AuthorisationNode {
            node: self.signed_node("g", a.id, a.cdate, a.date, "0.1", "{\"32\":\"g\"}".to_string(), a.author),
            last_modified: a.date,
            right_edges: a.redges.iter().map(|e| self.edge(e, "0.1")).collect(),
            right_nodes: a.rnodes.iter().map(|n| self.right_node(n)).collect(),
            user_edges: a.uedges.iter().map(|e| self.edge(e, "0.1")).collect(),
            user_nodes: a.unodes.iter().map(|n| self.user_node(n)).collect(),
            user_admin_edges: a.aedges.iter().map(|e| self.edge(e, "0.1")).collect(),
            user_admin_nodes: a.anodes.iter().map(|n| self.user_node(n)).collect(),
            need_update: true,
        }
    }
    /// the real, validly signed RoomNode of an abstract definition
    pub fn room_node(&mut self, r: &RM) -> RoomNode {
        RoomNode {
            node: self.signed_node("room", r.id, r.cdate, r.date, "0.0", "{}".to_string(), r.author),
            last_modified: r.date,
            admin_edges: r.aedges.iter().map(|e| self.edge(e, "0.0")).collect(),
            admin_nodes: r.anodes.iter().map(|n| self.user_node(n)).collect(),
            auth_edges: r.gedges.iter().map(|e| self.edge(e, "0.0")).collect(),
            auth_nodes: r.gnodes.iter().map(|g| self.auth_node(g)).collect(),
        }
    }

    // ---- real -> abstract
    pub fn un_of(&mut self, n: &Node) -> UN {
        let v: serde_json::Value = serde_json::from_str(n._json.as_ref().unwrap()).unwrap();
        let key = base64_decode(v["32"].as_str().unwrap().as_bytes()).unwrap();
        UN { id: self.uid_ix(&n.id), date: n.mdate, author: self.key_ix(&n.verifying_key), key: self.key_ix(&key), enabled: v.get("33").and_then(|b| b.as_bool()).unwrap_or(true), cd: n.cdate - n.mdate }
    }
    pub fn rn_of(&mut self, n: &Node) -> RN {
        let v: serde_json::Value = serde_json::from_str(n._json.as_ref().unwrap()).unwrap();
        RN { id: self.uid_ix(&n.id), date: n.mdate, author: self.key_ix(&n.verifying_key), ent: ent_ix(v["32"].as_str().unwrap()), s: v["33"].as_bool().unwrap(), a: v["34"].as_bool().unwrap(), cd: n.cdate - n.mdate }
    }
    pub fn ed_of(&mut self, e: &Edge) -> ED {
        ED { src: self.uid_ix(&e.src), label: e.label.parse::<u64>().unwrap_or(99), dest: self.uid_ix(&e.dest), date: e.cdate, author: self.key_ix(&e.verifying_key) }
    }
    pub fn an_of(&mut self, a: &AuthorisationNode) -> AN {
        AN { id: self.uid_ix(&a.node.id), date: a.node.mdate, author: self.key_ix(&a.node.verifying_key), cdate: a.node.cdate,
             redges: a.right_edges.iter().map(|e| self.ed_of(e)).collect(), rnodes: a.right_nodes.iter().map(|n| self.rn_of(&n.node)).collect(),
             uedges: a.user_edges.iter().map(|e| self.ed_of(e)).collect(), unodes: a.user_nodes.iter().map(|n| self.un_of(&n.node)).collect(),
             aedges: a.user_admin_edges.iter().map(|e| self.ed_of(e)).collect(), anodes: a.user_admin_nodes.iter().map(|n| self.un_of(&n.node)).collect() }
    }
    pub fn rm_of(&mut self, r: &RoomNode) -> RM {
        RM { id: self.uid_ix(&r.node.id), cdate: r.node.cdate, date: r.node.mdate, author: self.key_ix(&r.node.verifying_key),
             aedges: r.admin_edges.iter().map(|e| self.ed_of(e)).collect(), anodes: r.admin_nodes.iter().map(|n| self.un_of(&n.node)).collect(),
             gedges: r.auth_edges.iter().map(|e| self.ed_of(e)).collect(), gnodes: r.auth_nodes.iter().map(|g| self.an_of(g)).collect() }
    }
}

pub fn ent_ix(name: &str) -> u64 {
    if name == "*" { 0 } else { name.trim_start_matches("ns.E").parse::<u64>().unwrap_or(77) }
}

// ---- Gallina printing
pub fn un_coq(u: &UN) -> String {
    format!("(Build_unode {} {} {} {} {} {})", gn(u.id), gz(u.date), gn(u.author), gn(u.key), gb(u.enabled), gz(u.date + u.cd))
}
pub fn rn_coq(r: &RN) -> String {
    format!("(Build_rnode {} {} {} {} {} {} {})", gn(r.id), gz(r.date), gn(r.author), gn(r.ent), gb(r.s), gb(r.a), gz(r.date + r.cd))
}
pub fn ed_coq(e: &ED) -> String {
    format!("(Build_edge {} {} {} {} {})", gn(e.src), gn(e.label), gn(e.dest), gz(e.date), gn(e.author))
}
fn l<T>(v: &[T], f: fn(&T) -> String) -> String { glist(&v.iter().map(f).collect::<Vec<_>>()) }
pub fn an_coq(a: &AN) -> String {
    format!("(Build_anode {} {} {} {} {} {} {} {} {})",
        gn(a.id), gz(a.date), gn(a.author), l(&a.redges, ed_coq), l(&a.rnodes, rn_coq), l(&a.uedges, ed_coq), l(&a.unodes, un_coq), l(&a.aedges, ed_coq), l(&a.anodes, un_coq))
}
pub fn rm_coq(r: &RM) -> String {
    format!("(Build_roomnode {} {} {} {} {} {} {} {})",
        gn(r.id), gz(r.cdate), gz(r.date), gn(r.author), l(&r.aedges, ed_coq), l(&r.anodes, un_coq), l(&r.gedges, ed_coq), l(&r.gnodes, an_coq))
}
pub fn probes_coq(p: &[(u64, u64, i64)]) -> String {
    glist(&p.iter().map(|(k, e, d)| format!("({}, {}, {})", gn(*k), gn(*e), gz(*d))).collect::<Vec<_>>())
}

// ---- observation encoding (Run_C07.encode_result)
fn enc_u(out: &mut Vec<i64>, kind: i64, g: u64, u: &UN) { out.extend([kind, g as i64, u.id as i64, u.date, u.author as i64, u.key as i64, u.enabled as i64, 0, u.date + u.cd]); }
pub fn encode_result(r: &RM) -> Vec<i64> {
    let mut ents = vec![];
    let mut n = 0i64;
    for u in &r.anodes { enc_u(&mut ents, 1, 0, u); n += 1; }
    for g in &r.gnodes {
        ents.extend([5, 0, g.id as i64, g.date, g.author as i64, 0, 0, 0, 0]); n += 1;
        for u in &g.unodes { enc_u(&mut ents, 2, g.id, u); n += 1; }
        for u in &g.anodes { enc_u(&mut ents, 3, g.id, u); n += 1; }
        for x in &g.rnodes { ents.extend([4, g.id as i64, x.id as i64, x.date, x.author as i64, x.ent as i64, x.s as i64, x.a as i64, x.date + x.cd]); n += 1; }
    }
    let mut eds = vec![];
    let mut m = 0i64;
    let mut pe = |out: &mut Vec<i64>, kind: i64, g: u64, e: &ED| { out.extend([kind, g as i64, e.src as i64, e.label as i64, e.dest as i64, e.date, e.author as i64]); };
    for e in &r.aedges { pe(&mut eds, 1, 0, e); m += 1; }
    for e in &r.gedges { pe(&mut eds, 5, 0, e); m += 1; }
    for g in &r.gnodes {
        for e in &g.uedges { pe(&mut eds, 2, g.id, e); m += 1; }
        for e in &g.aedges { pe(&mut eds, 3, g.id, e); m += 1; }
        for e in &g.redges { pe(&mut eds, 4, g.id, e); m += 1; }
    }
    let mut out = vec![n];
    out.extend(ents); out.push(m); out.extend(eds);
    out
}

/// RoomNode.decide on a real Room
pub fn decisions(ctx: &Ctx, room: &Room, probes: &[(u64, u64, i64)]) -> Vec<i64> {
    let mut out = vec![];
    for (k, e, d) in probes {
        let kb = ctx.vkey(*k);
        let en = ent_name(*e);
        out.push(room.can(&kb, &en, *d, &RightType::MutateSelf) as i64);
        out.push(room.can(&kb, &en, *d, &RightType::MutateAll) as i64);
        out.push(room.is_admin(&kb, *d) as i64);
        out.push(room.is_user_valid_at(&kb, *d) as i64);
        out.push(room.authorisations.values().any(|a| a.can_admin_users(&kb, *d)) as i64);
    }
    out
}

/// error -> RoomNode.perr_code (every Err site of room_node.rs has its own message)
pub fn err_code(e: &DbError) -> i64 {
    match e {
        DbError::InvalidUserDate() => 3,
        DbError::InvalidRightDate() => 4,
        DbError::AuthorisationExists() => 5,
        DbError::InvalidNode(m) => 100 + match m.as_str() {
            "RoomNode admin edge and node have different size" => 1,
            "Invalid RoomNode admin edge src" => 2,
            "RoomNode has an invalid admin egde" => 3,
            "RoomNode authorisation edge and node have different size" => 4,
            "Invalid RoomNode authorisation edge src" => 5,
            "RoomNode has an invalid authorisation egde" => 6,
            "AuthorisationNode Rights edges and nodes have different size" => 7,
            "Invalid AuthorisationNode Right edge source" => 8,
            "AuthorisationNode has an invalid Right egde" => 9,
            "AuthorisationNode user edges and nodes have different size" => 10,
            "Invalid AuthorisationNode user edge source" => 11,
            "AuthorisationNode has an invalid user egde" => 12,
            "New RoomNode Administrator not authorised" => 20,
            "New RoomNode Authorisation User not authorised" => 21,
            "New RoomNode Authorisation Right not authorised" => 22,
            "New RoomNode User Administrator not authorised" => 23,
            "New RoomNode Authorisation not authorised" => 25,
            "RoomNode Authorisation new user is not authorised" => 30,
            "RoomNode Authorisation new Right is not authorised" => 31,
            "Invalid RoomNode, User Administrator nodes cannot be mutated " => 40,
            "RoomNode User Administrator is not authorised" => 41,
            "Invalid RoomNode, User Authorisation nodes cannot be mutated " => 42,
            "RoomNode Authorisation new User not authorised" => 43,
            "Invalid RoomNode Authorisation, Right nodes cannot be mutated " => 44,
            "Invalid RoomNode, Administrator nodes cannot be mutated " => 50,
            "RoomNode Administrator is not authorised" => 51,
            "RoomNode Authorisation mutation not authorised" => 52,
            "RoomNode new Authorisation mutation not authorised" => 53,
            "the room exists should have an existing old_room_node" => 60,
            "RoomNode contains two nodes with the same id" => 70,
            "RoomNode contains a node that is not referenced in its list" => 71,
            _ => 899,
        },
        _ => 99,
    }
}

// ------------------------------------------------------------------ honest histories
pub struct Hist { pub states: Vec<RM>, pub dates: Vec<i64> }

pub fn real_room(ctx: &mut Ctx, r: &RM) -> discret::Room { ctx.room_node(r).parse().expect("honest definition parses") }

pub fn add_u(list: &mut Vec<UN>, edges: &mut Vec<ED>, next: &mut u64, src: u64, label: u64, date: i64, author: u64, key: u64, enabled: bool) {
    let id = *next; *next += 1;
    list.push(UN { id, date, author, key, enabled, cd: 0 });
    edges.push(ED { src, label, dest: id, date, author });
}
pub fn add_r(g: &mut AN, next: &mut u64, date: i64, author: u64, ent: u64, s: bool, a: bool) {
    let id = *next; *next += 1;
    g.rnodes.push(RN { id, date, author, ent, s, a, cd: 0 });
    g.redges.push(ED { src: g.id, label: L_RIGHTS, dest: id, date, author });
}
pub fn new_group(rng: &mut Rng, room: &mut RM, next: &mut u64, gid: u64, date: i64, author: u64) {
    let mut g = AN { id: gid, date, author, cdate: date, redges: vec![], rnodes: vec![], uedges: vec![], unodes: vec![], aedges: vec![], anodes: vec![] };
    for _ in 0..rng.below(3) { add_r(&mut g, next, date, author, rng.below(3), rng.chance(1, 2), rng.chance(1, 3)); }
    let mut seen = vec![];
    for _ in 0..rng.below(3) { let k = 1 + rng.below(5); if !seen.contains(&k) { seen.push(k); add_u(&mut g.unodes, &mut g.uedges, next, gid, L_USERS, date, author, k, true); } }
    if rng.chance(1, 2) { let k = 1 + rng.below(5); add_u(&mut g.anodes, &mut g.aedges, next, gid, L_UADMIN, date, author, k, true); }
    room.gedges.push(ED { src: room.id, label: L_AUTHS, dest: gid, date, author });
    room.gnodes.push(g);
}

/// an honest history of room `rid`: every step is one mutation by a key entitled at that date
/// `uadmin_steps`: also let a user admin that is not a room administrator add users (accepted by the import of an
/// update, refused by the local mutation path and by a peer that never saw the room: not a history a live room can have)
pub fn honest(rng: &mut Rng, ctx: &mut Ctx, rid: u64, first_id: u64, first_gid: u64, steps: usize, creator: u64, also_admin: Option<u64>, uadmin_steps: bool) -> Hist {
    let mut next = first_id;
    let mut gid = first_gid;
    let d0 = BASE + rng.range(0, 3) * 1000;
    let mut room = RM { id: rid, cdate: d0, date: d0, author: creator, aedges: vec![], anodes: vec![], gedges: vec![], gnodes: vec![] };
    add_u(&mut room.anodes, &mut room.aedges, &mut next, rid, L_ADMIN, d0, creator, creator, true);
    if let Some(k) = also_admin { add_u(&mut room.anodes, &mut room.aedges, &mut next, rid, L_ADMIN, d0, creator, k, true); }
    for _ in 0..(1 + rng.below(2)) { new_group(rng, &mut room, &mut next, gid, d0, creator); gid += 1; }
    let mut states = vec![room.clone()];
    let mut dates = vec![d0];
    let mut d = d0;
    for _ in 0..steps {
        d += 1000 * rng.range(1, 3) + if rng.chance(1, 6) { DAY } else { 0 };
        let cur = real_room(ctx, &room);
        let admins: Vec<u64> = (1..=6).filter(|k| cur.is_admin(&ctx.vkey(*k), d)).collect();
        let uadmins: Vec<(usize, u64)> = room.gnodes.iter().enumerate().flat_map(|(i, g)| {
            let a = cur.authorisations.get(&ctx.uid(g.id)).unwrap();
            (1..=6).filter(|k| a.can_admin_users(&ctx.vkey(*k), d)).map(|k| (i, k)).collect::<Vec<_>>() }).collect();
        let ng = room.gnodes.len();
        let uadmins: Vec<(usize, u64)> = if uadmin_steps { uadmins } else { uadmins.into_iter().filter(|(_, k)| admins.contains(k)).collect() };
        if !uadmins.is_empty() && rng.chance(1, 4) {
            // a user admin adds / disables a user of its group (the group row is not re-signed)
            let (gi, a) = *rng.pick(&uadmins);
            let g = &mut room.gnodes[gi];
            let gid0 = g.id;
            add_u(&mut g.unodes, &mut g.uedges, &mut next, gid0, L_USERS, d, a, 1 + rng.below(6), !rng.chance(1, 3));
        } else if !admins.is_empty() {
            let a = *rng.pick(&admins);
            match rng.below(10) {
                0..=1 => { // administrators: never disable the acting key itself (refused locally)
                    let k = 1 + rng.below(6);
                    let en = if k == a { true } else { !rng.chance(1, 3) };
                    add_u(&mut room.anodes, &mut room.aedges, &mut next, rid, L_ADMIN, d, a, k, en);
                    room.date = d; room.author = a;
                }
                2..=4 => { let g = &mut room.gnodes[rng.below(ng as u64) as usize]; let gid0 = g.id;
                    add_u(&mut g.unodes, &mut g.uedges, &mut next, gid0, L_USERS, d, a, 1 + rng.below(6), !rng.chance(1, 3));
                    if rng.chance(1, 2) { g.date = d; g.author = a; } }
                5 => { let g = &mut room.gnodes[rng.below(ng as u64) as usize]; let gid0 = g.id;
                    add_u(&mut g.anodes, &mut g.aedges, &mut next, gid0, L_UADMIN, d, a, 1 + rng.below(6), !rng.chance(1, 4));
                    if rng.chance(1, 2) { g.date = d; g.author = a; } }
                6..=7 => { let g = &mut room.gnodes[rng.below(ng as u64) as usize];
                    add_r(g, &mut next, d, a, rng.below(3), rng.chance(1, 2), rng.chance(1, 3));
                    if rng.chance(1, 2) { g.date = d; g.author = a; } }
                8 => { if ng < 3 { new_group(rng, &mut room, &mut next, gid, d, a); gid += 1; room.date = d; room.author = a; } }
                _ => { let g = &mut room.gnodes[rng.below(ng as u64) as usize]; g.date = d; g.author = a; } // renamed
            }
        }
        states.push(room.clone());
        dates.push(d);
    }
    Hist { states, dates }
}

