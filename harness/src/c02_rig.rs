//! shared by the C02 and C12 harnesses (included with #[path]): a real receiver instance whose
//! room definitions are injected through the real loader (AuthorisationMessage::Load), real signing
//! keys, room-history generation, raw table access and the Gallina printers of the remote model.
#![allow(dead_code)]
use discret::verif_hooks::configuration::Configuration;
use discret::verif_hooks::database::authorisation_service::AuthorisationMessage;
use discret::verif_hooks::database::edge::{Edge, EdgeDeletionEntry};
use discret::verif_hooks::database::graph_database::GraphDatabaseService;
use discret::verif_hooks::database::node::{Node, NodeDeletionEntry};
use discret::verif_hooks::database::query_language::data_model_parser::DataModel;
use discret::verif_hooks::database::query_language::FieldType;
use discret::verif_hooks::database::room::{Authorisation, EntityRight, Room, User};
use discret::verif_hooks::database::sqlite_database::Writeable;
use discret::verif_hooks::database::system_entities::SYSTEM_DATA_MODEL;
use discret::verif_hooks::event_service::EventService;
use discret::verif_hooks::security::{base64_encode, random32, Ed25519SigningKey, SigningKey};
use std::collections::HashMap;
use std::path::PathBuf;
use vharness::common::*;

pub const BASE: i64 = 1_700_000_000_000;
/// receiver's data model: required / nullable / defaulted scalars of several types, references
pub const MODEL: &str = r#"ns { E1{ name:String, n:Integer nullable, subs:[ns.E2], one:ns.E2 } E2{ name:String } E3{ name:String default "d", f:Float nullable, b:Boolean nullable, k:Base64 nullable, j:Json nullable, di:Integer default 3, df:Float default 1.5, db:Boolean default true, dk:Base64 default "YWJj", dj:Json default "{}" } }"#;
pub const NKEYS: u64 = 5;
pub const UNKNOWN_ENT: &str = "zz9";
pub const MAX_NODE_KB: u64 = 1;

// ------------------------------------------------------------------ room histories
#[derive(Clone, Debug)]
pub enum Ev { Group(u64), Admin(u64, i64, bool), User(u64, u64, i64, bool), UAdmin(u64, u64, i64, bool), Right(u64, u64, i64, bool, bool) }
impl Ev {
    pub fn coq(&self) -> String {
        match self {
            Ev::Group(g) => format!("EvGroup {}", gn(*g)),
            Ev::Admin(k, d, b) => format!("EvAdmin {} {} {}", gn(*k), gz(*d), gb(*b)),
            Ev::User(g, k, d, b) => format!("EvUser {} {} {} {}", gn(*g), gn(*k), gz(*d), gb(*b)),
            Ev::UAdmin(g, k, d, b) => format!("EvUAdmin {} {} {} {}", gn(*g), gn(*k), gz(*d), gb(*b)),
            Ev::Right(g, e, d, s, a) => format!("EvRight {} {} {} {} {}", gn(*g), gn(*e), gz(*d), gb(*s), gb(*a)),
        }
    }
    pub fn date(&self) -> Option<i64> {
        match self { Ev::Group(_) => None, Ev::Admin(_, d, _) | Ev::User(_, _, d, _) | Ev::UAdmin(_, _, d, _) | Ev::Right(_, _, d, _, _) => Some(*d) }
    }
}
pub fn evs_coq(evs: &[Ev]) -> String { glist(&evs.iter().map(|e| e.coq()).collect::<Vec<_>>()) }
pub fn defs_coq(defs: &[(u64, Vec<Ev>)]) -> String {
    glist(&defs.iter().map(|(r, e)| format!("({}, {})", gn(*r), evs_coq(e))).collect::<Vec<_>>())
}

pub struct Keys { pub sk: Vec<Ed25519SigningKey>, pub vk: Vec<Vec<u8>> }
impl Keys {
    pub fn new() -> Keys {
        let sk: Vec<_> = (0..=NKEYS).map(|k| Ed25519SigningKey::create_from(&[40 + k as u8; 32])).collect();
        let vk = sk.iter().map(|s| s.export_verifying_key()).collect();
        Keys { sk, vk }
    }
    pub fn vk(&self, k: u64) -> Vec<u8> { self.vk[k as usize].clone() }
    pub fn sk(&self, k: u64) -> &Ed25519SigningKey { &self.sk[k as usize] }
}

/// uid of a case-local index: first byte 0x77, then the case number, then the index
pub fn cuid(case: u64, n: u64) -> [u8; 16] {
    let mut u = [0u8; 16];
    u[0] = 0x77;
    u[1..8].copy_from_slice(&case.to_be_bytes()[1..8]);
    u[8..16].copy_from_slice(&n.to_be_bytes());
    u
}
pub fn uid_index(u: &[u8]) -> i64 { let mut b = [0u8; 8]; b.copy_from_slice(&u[8..16]); u64::from_be_bytes(b) as i64 }
pub fn case_range(case: u64) -> (Vec<u8>, Vec<u8>) { (cuid(case, 0).to_vec(), cuid(case + 1, 0).to_vec()) }
pub fn group_uid(case: u64, room: u64, g: u64) -> [u8; 16] { cuid(case, 50_000 + room * 100 + g) }

pub fn gen_date(rng: &mut Rng) -> i64 {
    match rng.below(10) {
        0..=5 => BASE + rng.range(0, 12) * 1000,
        6..=7 => BASE + rng.range(-2, 3) * DAY + rng.range(0, 3) * 1000,
        8 => BASE + rng.range(0, 12) * 1000 + rng.range(-1, 1),
        _ => BASE - rng.range(0, 400) * DAY,
    }
}

pub fn gen_events(rng: &mut Rng, n: usize, mostly_sorted: bool, nkeys: u64) -> Vec<Ev> {
    let mut evs = vec![];
    let ngroups = 1 + rng.below(3);
    for g in 1..=ngroups { evs.push(Ev::Group(g)); }
    let mut clock = BASE - 5 * DAY;
    for _ in 0..n {
        let d = if mostly_sorted && !rng.chance(1, 8) { clock += rng.range(0, 3) * 1000 * rng.range(0, 2) + rng.range(0, 1) * DAY; clock } else { gen_date(rng) };
        let extra = if rng.chance(1, 15) { 1 } else { 0 };
        let g = 1 + rng.below(ngroups + extra);
        let k = 1 + rng.below(nkeys);
        let b = !rng.chance(1, 3);
        evs.push(match rng.below(12) {
            0..=1 => Ev::Admin(k, d, b),
            2..=5 => Ev::User(g, k, d, b),
            6..=7 => Ev::UAdmin(g, k, d, b),
            8 => Ev::Group(g),
            _ => Ev::Right(g, rng.below(4), d, rng.chance(1, 2), rng.chance(1, 3)),
        });
    }
    evs
}

/// applies the events with the real add_* functions; returns the Room and which were accepted
pub fn build_room(room_uid: [u8; 16], guid: &dyn Fn(u64) -> [u8; 16], evs: &[Ev], keys: &Keys) -> (Room, Vec<bool>) {
    let mut room = Room { id: room_uid, ..Default::default() };
    let mut oks = vec![];
    for ev in evs {
        let ok = match ev {
            Ev::Group(g) => room.add_auth(Authorisation { id: guid(*g), ..Default::default() }).is_ok(),
            Ev::Admin(k, d, b) => room.add_admin_user(User { verifying_key: keys.vk(*k), date: *d, enabled: *b }).is_ok(),
            Ev::User(g, k, d, b) => match room.get_auth_mut(&guid(*g)) {
                Some(a) => a.add_user(User { verifying_key: keys.vk(*k), date: *d, enabled: *b }).is_ok(),
                None => false,
            },
            Ev::UAdmin(g, k, d, b) => match room.get_auth_mut(&guid(*g)) {
                Some(a) => a.add_user_admin(User { verifying_key: keys.vk(*k), date: *d, enabled: *b }).is_ok(),
                None => false,
            },
            Ev::Right(g, e, d, s, a) => match room.get_auth_mut(&guid(*g)) {
                Some(au) => au.add_right(EntityRight::new(*d, ent_name(*e), *s, *a)).is_ok(),
                None => false,
            },
        };
        oks.push(ok);
    }
    (room, oks)
}

/// the accepted entries of a history as the JSON document RoomAuthorisations::load_json reads
pub fn room_json(room_uid: &[u8; 16], guid: &dyn Fn(u64) -> [u8; 16], evs: &[Ev], oks: &[bool], keys: &Keys) -> serde_json::Value {
    let user = |k: &u64, d: &i64, b: &bool| serde_json::json!({"mdate": d, "verif_key": base64_encode(&keys.vk(*k)), "enabled": b});
    let mut admins = vec![];
    let mut groups: Vec<(u64, Vec<serde_json::Value>, Vec<serde_json::Value>, Vec<serde_json::Value>)> = vec![];
    for (ev, ok) in evs.iter().zip(oks) {
        if !*ok { continue; }
        match ev {
            Ev::Group(g) => groups.push((*g, vec![], vec![], vec![])),
            Ev::Admin(k, d, b) => admins.push(user(k, d, b)),
            Ev::User(g, k, d, b) => groups.iter_mut().find(|x| x.0 == *g).unwrap().1.push(user(k, d, b)),
            Ev::UAdmin(g, k, d, b) => groups.iter_mut().find(|x| x.0 == *g).unwrap().2.push(user(k, d, b)),
            Ev::Right(g, e, d, s, a) => groups.iter_mut().find(|x| x.0 == *g).unwrap().3.push(
                serde_json::json!({"mdate": d, "entity": ent_name(*e), "mutate_self": *s || *a, "mutate_all": a})),
        }
    }
    let auths: Vec<_> = groups.into_iter().map(|(g, u, ua, r)| serde_json::json!({
        "id": base64_encode(&guid(g)), "mdate": 0, "users": u, "user_admin": ua, "rights": r })).collect();
    serde_json::json!({"id": base64_encode(room_uid), "mdate": 0, "admin": admins, "authorisations": auths})
}

// ------------------------------------------------------------------ data model of the receiver
#[derive(Clone, Debug)]
pub struct FieldInfo { pub name: String, pub short: u64, pub ty: &'static str, pub nullable: bool, pub default: bool }
pub struct Dm { pub dm: DataModel, pub ents: Vec<(u64, String, String, Vec<FieldInfo>)> }   // (index, name, short, scalar fields)
impl Dm {
    pub fn parse(model: &str) -> Dm {
        let mut dm = DataModel::new();
        dm.update_system(SYSTEM_DATA_MODEL).unwrap();
        dm.update(model).unwrap();
        let mut ents = vec![];
        for e in 1..=3u64 {
            let name = ent_name(e);
            let ent = dm.get_entity(&name).unwrap();
            let mut fields = vec![];
            for (fname, f) in &ent.fields {
                if f.is_system { continue; }
                let ty = match f.field_type {
                    FieldType::Boolean => "TBool", FieldType::Float => "TFloat", FieldType::Base64 => "TBase64",
                    FieldType::Integer => "TInt", FieldType::String => "TString", FieldType::Json => "TJson",
                    FieldType::Array(_) | FieldType::Entity(_) => continue,
                };
                fields.push(FieldInfo { name: fname.clone(), short: f.short_name.parse().unwrap(), ty, nullable: f.nullable, default: f.default_value.is_some() });
            }
            fields.sort_by_key(|f| f.short);
            ents.push((e, name, ent.short_name.clone(), fields));
        }
        Dm { dm, ents }
    }
    pub fn short(&self, e: u64) -> String { self.ents.iter().find(|x| x.0 == e).unwrap().2.clone() }
    pub fn field(&self, e: u64, name: &str) -> FieldInfo { self.ents.iter().find(|x| x.0 == e).unwrap().3.iter().find(|f| f.name == name).unwrap().clone() }
    pub fn coq(&self) -> String {
        glist(&self.ents.iter().map(|(e, _, _, fs)| format!("({}, {})", gn(*e), glist(&fs.iter().map(|f|
            format!("{{| f_short := {}; f_type := {}; f_nullable := {}; f_default := {} |}}", gn(f.short), f.ty, gb(f.nullable), gb(f.default))).collect::<Vec<_>>()))).collect::<Vec<_>>())
    }
}

/// the kind of a JSON value as the remote model reads it
pub fn jval_coq(v: &serde_json::Value) -> String {
    match v {
        serde_json::Value::Null => "JNull".into(),
        serde_json::Value::Bool(_) => "JBool".into(),
        serde_json::Value::Number(n) => if n.is_i64() || n.is_u64() { "JInt".into() } else { "JFloat".into() },
        serde_json::Value::String(s) => format!("(JStr {})", gb(discret::verif_hooks::security::base64_decode(s.as_bytes()).is_ok())),
        serde_json::Value::Object(_) => "JObj".into(),
        serde_json::Value::Array(_) => "JArr".into(),
    }
}
/// Gallina term (option json) of a node's _json text
pub fn json_coq(j: &Option<String>) -> String {
    match j {
        None => "None".into(),
        Some(s) => {
            let v: serde_json::Value = serde_json::from_str(s).unwrap();
            let o = v.as_object().unwrap();
            let items: Vec<String> = o.iter().filter_map(|(k, v)| k.parse::<u64>().ok().map(|kk| format!("({}, {})", gn(kk), jval_coq(v)))).collect();
            format!("(Some {})", glist(&items))
        }
    }
}

// ------------------------------------------------------------------ the receiver instance
pub struct EdgeW(pub Edge);
impl Writeable for EdgeW {
    fn write(&mut self, conn: &rusqlite::Connection) -> std::result::Result<(), rusqlite::Error> { self.0.write(conn) }
}

pub struct Rig { pub db: GraphDatabaseService, pub vk: Vec<u8>, pub path: PathBuf, pub dm: Dm, pub keys: Keys }
#[derive(Default, Debug)]
pub struct RawDump { pub nodes: Vec<Vec<u8>>, pub edges: Vec<Vec<u8>>, pub ndels: Vec<Vec<u8>>, pub edels: Vec<Vec<u8>> }

impl Rig {
    pub async fn start(prop: &str, tag: &str, model: &str) -> Rig {
        let work = std::env::var("VERIF_WORK").unwrap_or("/verif/work".into());
        let path: PathBuf = format!("{}/{}/inst_{}_{}", work, prop, std::process::id(), tag).into();
        let _ = std::fs::remove_dir_all(&path);
        std::fs::create_dir_all(&path).unwrap();
        let mut conf = Configuration::default();
        conf.max_object_size_in_kb = MAX_NODE_KB;
        let (db, vk, _) = GraphDatabaseService::start("verif", model, &random32(), &random32(), path.clone(), &conf, EventService::new()).await.unwrap();
        Rig { db, vk, path, dm: Dm::parse(model), keys: Keys::new() }
    }
    pub fn stop(self) { let _ = std::fs::remove_dir_all(&self.path); }

    /// gives the instance the rooms of a case: histories are replayed with the real add_* functions
    /// (to know which entries are accepted), the accepted entries go through the real loader
    pub async fn load_rooms(&self, case: u64, defs: &[(u64, Vec<Ev>)]) -> HashMap<u64, Room> {
        let mut rooms = HashMap::new();
        let mut docs = vec![];
        for (rid, evs) in defs {
            let ru = cuid(case, *rid);
            let r = *rid;
            let guid = move |g: u64| group_uid(case, r, g);
            let (room, oks) = build_room(ru, &guid, evs, &self.keys);
            docs.push(room_json(&ru, &guid, evs, &oks, &self.keys));
            rooms.insert(*rid, room);
        }
        let doc = serde_json::json!({"sys.Room": docs}).to_string();
        let (reply, recv) = tokio::sync::oneshot::channel();
        self.db.auth.send(AuthorisationMessage::Load(doc, reply)).await.unwrap();
        recv.await.unwrap().expect("room loader refused an accepted history");
        rooms
    }

    pub async fn write_raw(&self, w: Box<dyn Writeable + Send>) { self.db.db.writer.write(w).await.unwrap(); }

    /// signatures of the rows of a case in the four tables
    pub async fn raw_dump(&self, case: u64) -> RawDump {
        let (lo, hi) = case_range(case);
        let (reply, recv) = tokio::sync::oneshot::channel();
        self.db.db.reader.send_async(Box::new(move |conn| {
            let q = |sql: &str| -> Vec<Vec<u8>> {
                let mut st = conn.prepare(sql).unwrap();
                let rows = st.query_map((&lo, &hi), |r| r.get::<_, Vec<u8>>(0)).unwrap();
                rows.map(|x| x.unwrap()).collect()
            };
            let d = RawDump {
                nodes: q("SELECT _signature FROM _node WHERE id >= ? AND id < ?"),
                edges: q("SELECT signature FROM _edge WHERE src >= ? AND src < ?"),
                ndels: q("SELECT signature FROM _node_deletion_log WHERE room_id >= ? AND room_id < ?"),
                edels: q("SELECT signature FROM _edge_deletion_log WHERE room_id >= ? AND room_id < ?"),
            };
            let _ = reply.send(d);
        })).await.unwrap();
        recv.await.unwrap()
    }
}

pub fn clone_ndel(d: &NodeDeletionEntry) -> NodeDeletionEntry { bincode::deserialize(&bincode::serialize(d).unwrap()).unwrap() }
pub fn clone_edel(d: &EdgeDeletionEntry) -> EdgeDeletionEntry { bincode::deserialize(&bincode::serialize(d).unwrap()).unwrap() }
pub fn clone_node(n: &Node) -> Node { let mut c = n.clone(); c._local_id = None; c }
