From DV Require Import Run_C12.
