(* C12 — Local acceptance and peer acceptance give the same verdict.
   Property theorems only: statement, exact, Print Assumptions.  Proofs: proofs/C12P.v
   (models: Authz.v local side, AuthzRemote.v peer side, LocalJson.v field values;
   oracle and entry points: run/Run_C12.v). *)
From DV Require Import RightsP Run_C01 C01P Run_C02 C02P Run_C12 C12P.

(* The full statement over the operations modelled (one-row write with added / removed references,
   row deletion, reference deletion, creation from literal field values): for the same author,
   entity, rooms, date and prior rows, what the local path accepts every peer stores, and what the
   local path refuses some peer-side check refuses too (Run_C12.violations12 finds nothing). *)
Definition C12_full : Prop := forall c, violations12 c (run_C12 c) = [].

(* The unchanged code violates it: closed witnesses, one per class (replayed against the real code
   by the harness as directed cases): 1 explicit null stored as "short":null, 2 scalar in a Json
   field (by literal, by default), 3 a mutation removing another author's reference with the
   own-rows right only (accepted locally, the tombstone is refused by peers) *)
Theorem C12_refuted :
  violations12 w12_null (run_C12 w12_null) = [1] /\
  violations12 w12_scalar (run_C12 w12_scalar) = [2] /\
  violations12 w12_scalar_default (run_C12 w12_scalar_default) = [2] /\
  violations12 w12_ref (run_C12 w12_ref) = [3] /\ run_C12 w12_ref = [0; 1; 1; 1].
Proof. exact witnesses12. Qed.
Print Assumptions C12_refuted.

(* the two validation functions agree on a row: for ANY rooms, caller and mutation head of an
   ordinary entity that writes a row into a room, the local head check passes iff the peer's
   validate_node passes on the row as received, with the old room / old author the peer reads
   from its identical copy *)
Theorem C12_row_verdicts_agree : forall me rooms h rid,
  h_kind h = KNormal -> h_has_node h = true -> h_room h = Some rid ->
  (check_head me rooms h = None <->
   validate_node rooms (sent_row me h) (old_room_of h) (old_author_of h) = true).
Proof. exact node_agree. Qed.
Print Assumptions C12_row_verdicts_agree.

(* one-row write (create / update / move), any number of added references, removing references
   the caller wrote itself: every room history, caller, date: no disagreement *)
Theorem C12_write_holds : forall defs dm me h nadd rm,
  h_kind h = KNormal -> peer_knows dm (h_ent h) = true -> forallb (N.eqb me) rm = true ->
  violations12 (CWrite defs dm me h nadd rm) (run_C12 (CWrite defs dm me h nadd rm)) = [].
Proof. exact write_agree. Qed.
Print Assumptions C12_write_holds.

(* ... removing references of any authors: the only possible disagreement is class 3 *)
Theorem C12_write_outside_known : forall defs dm me h nadd rm v,
  h_kind h = KNormal -> peer_knows dm (h_ent h) = true ->
  In v (violations12 (CWrite defs dm me h nadd rm) (run_C12 (CWrite defs dm me h nadd rm))) -> v = 3.
Proof. exact write_outside_known. Qed.
Print Assumptions C12_write_outside_known.

(* deletion of a row (the API takes the deletion date and `now` from the same clock) *)
Theorem C12_delete_row_holds : forall defs me now n,
  dn_date n = now ->
  violations12 (CDelNode defs me now n) (run_C12 (CDelNode defs me now n)) = [].
Proof. exact delete_row_agree. Qed.
Print Assumptions C12_delete_row_holds.

(* deletion of a reference: tombstone and re-signed source row *)
Theorem C12_delete_reference_holds : forall defs me now src ea,
  violations12 (CDelRef defs me now src ea) (run_C12 (CDelRef defs me now src ea)) = [].
Proof. exact delete_reference_agree. Qed.
Print Assumptions C12_delete_reference_holds.

(* field values: outside classes 1 and 2 (no explicit null; no scalar in a Json field, by literal or
   by default; defaults of the declared type) whatever creation request the local parser accepts
   yields JSON content every peer's validate_json_for_entity accepts — any entity, any literals *)
Theorem C12_json_outside_known : forall fs lits,
  NoDup (map short_of fs) ->
  forallb (fun f => lit_clean f (lget lits (short_of f))) fs = true ->
  forallb default_typed fs = true ->
  violations12 (CJson fs lits) (run_C12 (CJson fs lits)) = [].
Proof. exact json_agree. Qed.
Print Assumptions C12_json_outside_known.

(* hypotheses are satisfiable: a move between rooms with references added and removed is accepted
   on both sides; a foreign row with the own-rows right is refused on both; an integer literal
   for a Float field is accepted and stored as a float *)
Example C12_nonvacuous :
  run_C12 w12_ok = [0; 1; 2; 1] /\ spec_C12 w12_ok (run_C12 w12_ok) = true /\
  run_C12 w12_refused = [1; 0; 1; 0] /\ spec_C12 w12_refused (run_C12 w12_refused) = true /\
  run_C12 (CJson [fld 32 TString false None; fld 33 TFloat true None] [(32%N, LStr false None); (33%N, LInt)]) = [1; 1; 4; 3].
Proof. exact nonvacuous12. Qed.
Print Assumptions C12_nonvacuous.
