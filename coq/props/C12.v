(* C12 — Local acceptance and peer acceptance give the same verdict.
   Property theorems only: statement, exact, Print Assumptions.  Proofs: proofs/C12P.v
   (models: Authz.v local side, AuthzRemote.v peer side, LocalJson.v field values;
   oracle and entry points: run/Run_C12.v). *)
From DV Require Import RightsP Run_C01 C01P Run_C02 C02P Run_C12 C12P.

(* The full statement over the operations modelled (one-row write with added / removed references,
   row deletion, reference deletion, creation from literal field values): for the same author,
   entity, rooms, date and prior rows, what the local path accepts every peer stores, and what the
   local path refuses some peer-side check refuses too (Run_C12.violations12 finds nothing). *)
Definition C12_full : Prop := forall c, violations12 c (run_C12 c) = [].

(* The current code still violates it in one delimited way (closed witnesses, replayed against the
   real code by the harness as directed cases 1 and 2): class 2, a scalar in a Json field (by
   literal, by default) is accepted locally and refused by peers *)
Theorem C12_refuted :
  violations12 w12_scalar (run_C12 w12_scalar) = [2] /\
  violations12 w12_scalar_default (run_C12 w12_scalar_default) = [2].
Proof. exact witnesses12. Qed.
Print Assumptions C12_refuted.

(* The witnesses of the classes repaired by d170035 / 8ac9d00 (explicit null) and 25ca1a0 (removal of
   another author's reference with the own-rows right) now get the same verdict on both sides:
   the null is stored and accepted by peers; the removal is refused locally as peers refuse it *)
Theorem C12_repaired_witnesses_hold :
  run_C12 w12_null = [1; 1; 4; 0; 0] /\ violations12 w12_null (run_C12 w12_null) = [] /\
  run_C12 w12_ref = [1; 1; 1; 1] /\ violations12 w12_ref (run_C12 w12_ref) = [].
Proof. exact repaired_witnesses12. Qed.
Print Assumptions C12_repaired_witnesses_hold.

(* the two validation functions agree on a row: for ANY rooms, caller, time and mutation head of
   an ordinary entity that writes a row into a room, the local head check passes iff the peer's
   validate_node passes on the row as received (with the old room / old author the peer reads from
   its identical copy) and the removed references pass the local check in the room entered *)
Theorem C12_row_verdicts_agree : forall me now rooms h rid,
  h_kind h = KNormal -> h_has_node h = true -> h_room h = Some rid ->
  (check_head me now rooms h = None <->
   validate_node rooms (sent_row me h) (old_room_of h) (old_author_of h) = true /\
   match find_room rooms rid with Some r => dels_ok me now r h = true | None => False end).
Proof. exact node_agree. Qed.
Print Assumptions C12_row_verdicts_agree.

(* the peer's verdict on the tombstone of a removed reference is the local check of that removal *)
Theorem C12_tombstone_verdict : forall defs me h rid r p,
  find_room (build_rooms defs) rid = Some r -> In p (numbered 0%N (h_edge_dels h)) ->
  edel_ok (build_rooms defs) (peer_store h (h_edge_dels h)) (ref_tombstone me rid (h_date h) (stored_ref h p)) =
  can r me (h_ent h) (h_date h) (needed (N.eqb (snd p) me)).
Proof. exact tombstone_verdict. Qed.
Print Assumptions C12_tombstone_verdict.

(* one-row write (create / update / move), any number of added references, removal of references of
   ANY authors: every room history, caller, date: no disagreement (full strength; the class 3 of the
   first round is gone) *)
Theorem C12_write_holds : forall defs dm me h nadd,
  h_kind h = KNormal -> peer_knows dm (h_ent h) = true ->
  violations12 (CWrite defs dm me h nadd) (run_C12 (CWrite defs dm me h nadd)) = [].
Proof. exact write_agree. Qed.
Print Assumptions C12_write_holds.

(* an UPDATE request submitted as text (parser -> MutationQuery::execute -> validate_mutation), touching one
   reference field (single reference set for the first time / replaced / same target, array add, null) with or
   without another field: whatever the glue of get_mutate_query produces (model/LocalGlue.v: the row is rewritten
   iff some field changed; a reference is inserted only together with a rewritten row), the local verdict and the
   peer's verdict on exactly the row, references and tombstones produced agree, for every history and caller *)
Theorem C12_request_holds : forall defs dm me e room date author other op,
  peer_knows dm e = true ->
  violations12 (CReq defs dm me e room date author other op) (run_C12 (CReq defs dm me e room date author other op)) = [].
Proof. exact request_agree. Qed.
Print Assumptions C12_request_holds.

(* deletion of a row (the API takes the deletion date and `now` from the same clock) *)
Theorem C12_delete_row_holds : forall defs me now n,
  dn_date n = now ->
  violations12 (CDelNode defs me now n) (run_C12 (CDelNode defs me now n)) = [].
Proof. exact delete_row_agree. Qed.
Print Assumptions C12_delete_row_holds.

(* deletion of a reference: tombstone and re-signed source row *)
Theorem C12_delete_reference_holds : forall defs me now src ea,
  violations12 (CDelRef defs me now src ea) (run_C12 (CDelRef defs me now src ea)) = [].
Proof. exact delete_reference_agree. Qed.
Print Assumptions C12_delete_reference_holds.

(* rows at the size limit: both paths measure bincode::serialized_size of the row AS SIGNED (key and
   signature included: model/NodeSize.v says which bytes), hence the same number and the same side of
   max_node_size, for creations and updates alike; a local refusal reports exactly that size; the bit
   the row models of C12_write_holds carry is therefore the same on both sides; the limit is sharp *)
Theorem C12_size_limit_holds : forall max update signed,
  violations12 (CSize max update signed) (run_C12 (CSize max update signed)) = [].
Proof. exact size_agree. Qed.
Print Assumptions C12_size_limit_holds.

Theorem C12_size_bit_transfers : forall max r me h,
  h_too_big h = exceeds max (local_measured r) -> n_too_big (sent_row me h) = exceeds max (peer_measured r).
Proof. exact size_bit_transfers. Qed.
Print Assumptions C12_size_bit_transfers.

Theorem C12_size_one_more_byte : forall r l,
  sr_json_len r = Some l ->
  node_size {| sr_room := sr_room r; sr_ent_len := sr_ent_len r; sr_json_len := Some (l + 1)%N; sr_bin_len := sr_bin_len r;
               sr_key_len := sr_key_len r; sr_sig_len := sr_sig_len r |} = (node_size r + 1)%N.
Proof. exact size_one_more_byte. Qed.
Print Assumptions C12_size_one_more_byte.

(* field values: outside class 2 (no scalar in a Json field, by literal or by default; defaults of
   the declared type) whatever creation request the local parser accepts — explicit nulls included —
   yields JSON content every peer's validate_json_for_entity accepts: any entity, any literals *)
Theorem C12_json_outside_known : forall fs lits,
  NoDup (map short_of fs) ->
  forallb (fun f => lit_clean f (lget lits (short_of f))) fs = true ->
  forallb default_typed fs = true ->
  violations12 (CJson fs lits) (run_C12 (CJson fs lits)) = [].
Proof. exact json_agree. Qed.
Print Assumptions C12_json_outside_known.

(* the refusal direction, without any hypothesis on literals or defaults: a request the local parser
   refuses only for its explicit nulls (a null for a field that is not nullable, with or without a
   default) has content that every peer refuses too *)
Theorem C12_json_null_refusal_agrees : forall fs lits j,
  NoDup (map short_of fs) ->
  local_store fs lits = None -> forced_store fs lits = Some j -> conform (map lf fs) (Some j) = false.
Proof. exact json_null_refusal_agrees. Qed.
Print Assumptions C12_json_null_refusal_agrees.

(* hypotheses are satisfiable: a move between rooms with two references added, an own and a foreign
   reference removed under the all-rows right is accepted on both sides; a foreign row with the
   own-rows right is refused on both; an integer literal for a Float field is stored as a float *)
Example C12_nonvacuous :
  run_C12 w12_ok = [0; 1; 2; 2] /\ spec_C12 w12_ok (run_C12 w12_ok) = true /\
  run_C12 w12_refused = [1; 0; 1; 0] /\ spec_C12 w12_refused (run_C12 w12_refused) = true /\
  run_C12 (CJson [fld 32 TString false None; fld 33 TFloat true None] [(32%N, LStr false None); (33%N, LInt)]) = [1; 1; 4; 3].
Proof. exact nonvacuous12. Qed.
Print Assumptions C12_nonvacuous.
