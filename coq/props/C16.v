(* C16 — placeholder while the harness is brought up *)
From DV Require Import Pipeline Run_C16 C16P.
