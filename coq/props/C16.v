(* C16 — Concurrent mutations of one row do not lose acknowledged changes.
   Property theorems only: statement, exact, Print Assumptions.  Proofs: proofs/C16P.v.
   Model: model/Pipeline.v (read / validate / write phases of MutationQuery and DeletionQuery —
   updates, creations, deletions of whole rows, rights of the rooms entered and left — and the
   schedules the reader pool, the authorisation actor and the batch writer allow). *)
From Coq Require Import Permutation.
From DV Require Import Pipeline Run_C16 C16P.

(* The statement at full strength: after any schedule in which every mutation went through its
   phases, the state is what the acknowledged mutations give when applied one after another in
   some order, each with the abstract semantics spec_apply of run/Run_C16.v (assigned fields
   change, all others keep their value; single reference = replace, array reference = add,
   null = remove; a given room moves the row; a creation adds the row, a deletion removes it and
   the references that start from it). *)
Definition C16_full : Prop :=
  forall rt d ms sigma s,
    wf_db d = true -> run_sched rt d ms sigma = Some s -> complete (length ms) sigma = true ->
    exists pi, Permutation (s_acked s) pi /\ s_db s = fold_left (spec_apply_i ms) pi d.

(* (1) the faithful model violates it *)
Theorem C16_refuted : ~ C16_full.
Proof. exact full_refuted. Qed.
Print Assumptions C16_refuted.

(* closed witnesses of class 1 (overlapping windows on one row); the harness replays exactly
   these against the real phases on every run (cases "witness:*") *)
Theorem C16_refuted_fields :
  let c := CSched wit_rt wit_db 6%N wit_fields wit_sigma false in
  known_C16 c = [1] /\ wf_case c = true /\ complete 2 wit_sigma = true /\
  (exists s, run_sched wit_rt wit_db wit_fields wit_sigma = Some s /\ s_acked s = [0; 1]%nat /\
     (exists r, find_row 1%N (s_db s) = Some r /\
                get_field 0%N (r_fields r) = Some 1 /\ get_field 1%N (r_fields r) = Some 22) /\
     (forall pi, Permutation [0; 1]%nat pi ->
                 obs_db 6%N (fold_left (spec_apply_i wit_fields) pi wit_db) <> obs_db 6%N (s_db s))) /\
  spec_C16 c (run_C16 c) = false.
Proof. exact refuted_fields. Qed.
Print Assumptions C16_refuted_fields.

Theorem C16_refuted_reference :
  let c := CSched wit_rt wit_db 6%N wit_refs wit_sigma false in
  known_C16 c = [1] /\ wf_case c = true /\
  (exists s, run_sched wit_rt wit_db wit_refs wit_sigma = Some s /\ s_acked s = [0; 1]%nat /\
     length (get_edges 1%N (edges_of 1%N (s_db s))) = 2%nat /\
     (forall pi, Permutation [0; 1]%nat pi ->
                 length (get_edges 1%N (edges_of 1%N (fold_left (spec_apply_i wit_refs) pi wit_db))) = 1%nat)) /\
  spec_C16 c (run_C16 c) = false.
Proof. exact refuted_reference. Qed.
Print Assumptions C16_refuted_reference.

Theorem C16_refuted_room_move :
  let c := CSched wit_rt wit_db 6%N wit_room wit_sigma false in
  known_C16 c = [1] /\ wf_case c = true /\
  (exists s, run_sched wit_rt wit_db wit_room wit_sigma = Some s /\ s_acked s = [0; 1]%nat /\
     (exists r, find_row 1%N (s_db s) = Some r /\ r_room r = Some 1%N /\ get_field 0%N (r_fields r) = Some 1) /\
     (forall pi, Permutation [0; 1]%nat pi ->
                 exists r, find_row 1%N (fold_left (spec_apply_i wit_room) pi wit_db) = Some r /\ r_room r = Some 2%N)) /\
  spec_C16 c (run_C16 c) = false.
Proof. exact refuted_room_move. Qed.
Print Assumptions C16_refuted_room_move.

(* deletion and creation racing with an update (R1 . R2 V2 W2 . R3 V3 W3 . V1 W1): the stale
   update lands on the rowid that the NEW row took over: all three acknowledged, the deleted row
   is back, the new row is gone *)
Theorem C16_refuted_rowid_takeover :
  let c := CSched wit_rt wit_db 6%N wit_takeover takeover_sigma false in
  known_C16 c = [1] /\ wf_case c = true /\
  (exists s, run_sched wit_rt wit_db wit_takeover takeover_sigma = Some s /\ s_acked s = [1; 2; 0]%nat /\
     find_row 1%N (s_db s) <> None /\ find_row 11%N (s_db s) = None /\
     (forall pi, Permutation [0; 1; 2]%nat pi ->
                 find_row 1%N (fold_left (spec_apply_i wit_takeover) pi wit_db) = None /\
                 find_row 11%N (fold_left (spec_apply_i wit_takeover) pi wit_db) <> None)) /\
  spec_C16 c (run_C16 c) = false.
Proof. exact refuted_rowid_takeover. Qed.
Print Assumptions C16_refuted_rowid_takeover.

(* (2) what does hold.
   In ANY schedule, overlapping or not: a mutation that the validation refused (or whose read
   failed) is never written; the database is the result of writing what ACKNOWLEDGED mutations
   read, nothing else — the snapshot of a refused mutation cannot leak into a later write. *)
Theorem C16_only_acked_written : forall rt d ms sigma s,
  run_sched rt d ms sigma = Some s ->
  (forall i, In i (s_refused s) \/ In i (s_failed s) -> ~ In i (s_acked s)) /\
  exists ps : list (nat * pending), map fst ps = s_acked s /\
    s_db s = fold_left (fun d p => write p d) (map snd ps) d.
Proof. exact only_acked_written. Qed.
Print Assumptions C16_only_acked_written.

(* for every schedule of any number of updates, creations and deletions and any length
   (complete or not, with refusals): if no Read of a mutation on row x falls between the Read and
   the Write of another mutation on x, the state is exactly the serial application of the written
   mutations in write order.  Covers callers that await each request (create then update of the
   new row, update then delete, delete then update = error), and requests on different rows in
   flight together. *)
Theorem C16_serial_ok : forall rt d ms sigma s,
  NoDup (rowids d) ->
  run_sched rt d ms sigma = Some s -> windows_ok ms [] sigma = true ->
  s_db s = fold_left (apply ms) (s_acked s) d.
Proof. exact serial_ok. Qed.
Print Assumptions C16_serial_ok.

(* the code's read-then-write of one request alone IS the abstract semantics of that request *)
Theorem C16_serial_step_refines_spec : forall m d,
  wfP d -> fresh_create d m ->
  match read d m with Some p => write p d | None => d end = spec_apply m d.
Proof. exact apply1_spec. Qed.
Print Assumptions C16_serial_step_refines_spec.

Theorem C16_serial_spec : forall rt d ms sigma s,
  wf_db d = true ->
  run_sched rt d ms sigma = Some s -> windows_ok ms [] sigma = true ->
  creates_fresh ms d (s_acked s) = true ->
  s_db s = fold_left (spec_apply_i ms) (s_acked s) d.
Proof. exact serial_spec. Qed.
Print Assumptions C16_serial_spec.

(* the reason: a write of a request on another row changes nothing a read can see *)
Theorem C16_other_rows_frame : forall d m mo p,
  NoDup (rowids d) -> read d mo = Some p -> m_row mo <> m_row m -> read (write p d) m = read d m.
Proof. exact other_rows_frame. Qed.
Print Assumptions C16_other_rows_frame.

(* (3) the same, on the functions the harness evaluates: outside the known class (no
   overlapping windows on one row) the oracle — final
   rows and references = abstract sequential semantics of the acknowledged mutations in some
   order — accepts what the model predicts the implementation does; complete or not.
   wf_case: ids and rowids of the initial rows are unique and a creation draws a new id. *)
Theorem C16_outside_known : forall rt d nf ms sigma b,
  known_C16 (CSched rt d nf ms sigma b) = [] ->
  wf_case (CSched rt d nf ms sigma b) = true ->
  run_sched rt d ms sigma <> None ->
  spec_C16 (CSched rt d nf ms sigma b) (run_C16 (CSched rt d nf ms sigma b)) = true.
Proof. exact outside_known. Qed.
Print Assumptions C16_outside_known.

(* the former class 2 (a mutation that only names another room was acknowledged and dropped),
   fixed in /repo by 07628ab: now a passing witness, replayed by the harness ("witness:room-only") *)
Example C16_room_only_moves :
  let c := CSched wit_rt wit_db 6%N wit_room_only seq_sigma false in
  known_C16 c = [] /\ wf_case c = true /\
  (exists s, run_sched wit_rt wit_db wit_room_only [R 0; V 0; W 0]%nat = Some s /\ s_acked s = [0]%nat /\
     exists r, find_row 1%N (s_db s) = Some r /\ r_room r = Some 2%N /\ r_mdate r = 1000) /\
  spec_C16 c (run_C16 c) = true.
Proof. exact room_only_moves. Qed.
Print Assumptions C16_room_only_moves.

Example C16_nonvacuous :
  let c := CSched wit_rt nv_db 6%N nv_ms nv_sigma false in
  known_C16 c = [] /\ wf_case c = true /\
  (exists s, run_sched wit_rt nv_db nv_ms nv_sigma = Some s /\ s_acked s = [1; 0; 3]%nat /\ s_refused s = [2]%nat) /\
  windows_ok nv_ms [] [R 0; R 2; V 0; W 0; V 2; W 2]%nat = false.
Proof. exact nonvacuous. Qed.
Print Assumptions C16_nonvacuous.
