(* C10 — A room means the same live, after restart, and on a peer that imports it.
   Property theorems only: statement, exact, Print Assumptions.  Proofs: proofs/C10P.v, proofs/RoomNodeP.v,
   proofs/RightsP.v.  The constructions are those evaluated by the harness (run/Run_C10.v). *)
From DV Require Import RightsSpec RightsP RoomNode RoomNodeP Run_C10 C10P.

(* the full statement over the four constructions of the model; it is REFUTED on the unchanged tree
   (theorems C10_refuted_1..4) and holds for the live/reload half outside the delimited classes
   (theorem C10_outside_known_partial); the two import constructions are tied to the code by the
   correspondence runs only *)
Definition C10_full : Prop :=
  forall author steps probes, all_accepted steps ->
    let dl := decisions (fst (live steps)) probes in
    dl = flat_map (probe_spec (events_of steps)) probes /\
    dec_opt (reload (concat steps)) probes = 1 :: dl /\
    (exists rf, fresh_import author steps = POk rf /\ decisions rf probes = dl) /\
    (let '(vs, rb) := chain author None None (prefixes [] steps) in
     forallb (fun v => Z.leb v 1) vs = true /\ dec_opt rb probes = 1 :: dl).

(* (1) the reason restart and first import break, for every list and every history: a list replayed
   newest first into the append-only per-key histories of room.rs is refused as soon as one key has
   two entries with different dates *)
Theorem C10_newest_first_replay_fails : forall (A : Type) (kf : A -> N) (df : A -> Z) (l : list A) x y,
  In x l -> In y l -> kf x = kf y -> df x <> df y -> greplay A kf df [] (desc_by df l) = None.
Proof. exact @greplay_desc_two_dates. Qed.
Print Assumptions C10_newest_first_replay_fails.

(* (2) the data an instance wrote itself can be reloaded EXACTLY when the history lies outside class 1
   of known_C10 (no key or entity with two differently dated entries in one list) *)
Theorem C10_restart_iff_outside_class1 : forall evs,
  groups_known (map snd evs) ->
  ((exists r, reload evs = Some r) <-> two_dates (entry_keys (map snd evs)) = false).
Proof. exact restart_iff. Qed.
Print Assumptions C10_restart_iff_outside_class1.

(* (3) the live room decides what the history grants (all five probe components) *)
Theorem C10_live_is_history : forall steps probes,
  all_accepted steps ->
  decisions (fst (live steps)) probes = flat_map (probe_spec (events_of steps)) probes.
Proof. exact live_is_history. Qed.
Print Assumptions C10_live_is_history.

(* (4) outside classes 1 and 2 the reloaded room exists and decides exactly as the live room, for
   every history and every probe; same-date entries (class 3) included: the reload meets them in
   insertion order.  Partial: the import constructions are not covered by a theorem. *)
Theorem C10_outside_known_partial : forall steps probes,
  all_accepted steps ->
  two_dates (entry_keys (events_of steps)) = false ->
  normalised (events_of steps) = true ->
  dec_opt (reload (concat steps)) probes = 1 :: decisions (fst (live steps)) probes.
Proof. exact reload_part_outside_known. Qed.
Print Assumptions C10_outside_known_partial.

(* (5) a definition that RoomNode::parse accepts gives the room that decides exactly what the entries
   it lists grant: whatever an importing peer accepts means what its rows say *)
Theorem C10_parsed_definition_is_history : forall n r probes,
  parse_room n = POk r -> decisions r probes = flat_map (decide_spec (evs_of_node n)) probes.
Proof. exact parse_room_decisions. Qed.
Print Assumptions C10_parsed_definition_is_history.

(* (6) closed witnesses, one per known-finding class; the harness replays them on the real code *)
Theorem C10_refuted_1 : known_C10 w1 = [1] /\ spec_C10 w1 (run_C10 w1) = false /\
                        known_C10 w1h = [1] /\ spec_C10 w1h (run_C10 w1h) = false.
Proof. exact refuted_1. Qed.
Print Assumptions C10_refuted_1.
Theorem C10_refuted_2 : known_C10 w2 = [2] /\ spec_C10 w2 (run_C10 w2) = false.
Proof. exact refuted_2. Qed.
Print Assumptions C10_refuted_2.
Theorem C10_refuted_3 : known_C10 w3 = [3] /\ spec_C10 w3 (run_C10 w3) = false.
Proof. exact refuted_3. Qed.
Print Assumptions C10_refuted_3.
Theorem C10_refuted_4 : known_C10 w4 = [4] /\ spec_C10 w4 (run_C10 w4) = false.
Proof. exact refuted_4. Qed.
Print Assumptions C10_refuted_4.

Example C10_nonvacuous :
  known_C10 w0 = [] /\ spec_C10 w0 (run_C10 w0) = true /\
  all_accepted (case_steps w0) /\ two_dates (entry_keys (events_of (case_steps w0))) = false /\
  normalised (events_of (case_steps w0)) = true.
Proof. exact nonvacuous_0. Qed.
Print Assumptions C10_nonvacuous.
