(* C10 — A room means the same live, after restart, and on a peer that imports it.
   Property theorems only: statement, exact, Print Assumptions.  Proofs: proofs/C10P.v, proofs/RoomNodeP.v,
   proofs/RightsP.v.  The constructions are those evaluated by the harness (run/Run_C10.v). *)
From DV Require Import RightsSpec RightsP RoomNode RoomNodeP Run_C10 C10P.

(* the full statement over the four constructions of the model.  After the repairs 83dc3ea, a68fe8d,
   85b1827 its live/reload half HOLDS for every history (C10_restart_holds, C10_live_is_history,
   C10_reload_holds); its import half is still refuted by the same-millisecond tie class
   (C10_refuted_3) and is otherwise tied to the code by the correspondence runs only *)
Definition C10_full : Prop :=
  forall author steps probes, all_accepted steps ->
    let dl := decisions (fst (live steps)) probes in
    dl = flat_map (probe_spec (events_of steps)) probes /\
    dec_opt (reload (concat steps)) probes = 1 :: dl /\
    (exists rf, fresh_import author steps = POk rf /\ decisions rf probes = dl) /\
    (let '(vs, rb) := chain author None None (prefixes [] steps) in
     forallb (fun v => Z.leb v 1) vs = true /\ dec_opt rb probes = 1 :: dl).

(* (1) the repaired replay (83dc3ea), for every list of every history: entries sorted oldest first (stable)
   are all accepted by the append-only per-key histories of room.rs *)
Theorem C10_oldest_first_replay_holds : forall (A : Type) (kf : A -> N) (df : A -> Z) (l : list A),
  greplay A kf df [] (sort_by df l) = Some (rev (sort_by df l)).
Proof. exact @greplay_sorted. Qed.
Print Assumptions C10_oldest_first_replay_holds.

(* (2) former class 1, at full strength: an instance can always be restarted on the data it wrote -
   the reload of ANY stored history succeeds *)
Theorem C10_restart_holds : forall evs, exists r, reload evs = Some r.
Proof. exact reload_total. Qed.
Print Assumptions C10_restart_holds.

(* (3) the live room decides what the history grants (all five probe components) *)
Theorem C10_live_is_history : forall steps probes,
  all_accepted steps ->
  decisions (fst (live steps)) probes = flat_map (probe_spec (events_of steps)) probes.
Proof. exact live_is_history. Qed.
Print Assumptions C10_live_is_history.

(* (4) former classes 1 and 2, at full strength: for every history the live path accepted the reloaded
   room exists and decides exactly as the live room, for every probe; same-date entries included
   (the reload meets them in insertion order).  The import constructions are not covered by a theorem
   of this kind: see level_note. *)
Theorem C10_reload_holds : forall steps probes,
  all_accepted steps ->
  dec_opt (reload (concat steps)) probes = 1 :: decisions (fst (live steps)) probes.
Proof. exact reload_part_holds. Qed.
Print Assumptions C10_reload_holds.

(* (4b) former class 4 (85b1827): a group new to the peer whose user-admin entries, users and rights are
   authored by room administrators - what the local path accepts from an administrator - is accepted *)
Theorem C10_new_group_by_admin_holds : forall r g a,
  parse_auth g = POk a ->
  Forall (fun x => is_admin r (un_author x) (un_date x) = true) (an_anodes g) ->
  Forall (fun x => is_admin r (un_author x) (un_date x) = true) (an_unodes g) ->
  Forall (fun x => is_admin r (rn_author x) (rn_date x) = true) (an_rnodes g) ->
  prepare_new_auth r g = POk tt.
Proof. exact new_group_by_admin_accepted. Qed.
Print Assumptions C10_new_group_by_admin_holds.

(* (5) a definition that RoomNode::parse accepts gives the room that decides exactly what the entries
   it lists grant: whatever an importing peer accepts means what its rows say *)
Theorem C10_parsed_definition_is_history : forall n r probes,
  parse_room n = POk r -> decisions r probes = flat_map (decide_spec (evs_of_node n)) probes.
Proof. exact parse_room_decisions. Qed.
Print Assumptions C10_parsed_definition_is_history.

(* (6) the witnesses of the repaired classes 1, 2, 4 now pass the oracle (the harness keeps replaying
   them on the real code); the witness of the open class 3 still fails it *)
Theorem C10_class1_witness_holds : known_C10 w1 = [] /\ spec_C10 w1 (run_C10 w1) = true /\
                                   known_C10 w1h = [] /\ spec_C10 w1h (run_C10 w1h) = true.
Proof. exact repaired_1. Qed.
Print Assumptions C10_class1_witness_holds.
Theorem C10_class2_witness_holds : known_C10 w2 = [] /\ spec_C10 w2 (run_C10 w2) = true.
Proof. exact repaired_2. Qed.
Print Assumptions C10_class2_witness_holds.
Theorem C10_refuted_3 : known_C10 w3 = [3] /\ spec_C10 w3 (run_C10 w3) = false.
Proof. exact refuted_3. Qed.
Print Assumptions C10_refuted_3.
Theorem C10_class4_witness_holds : known_C10 w4 = [] /\ spec_C10 w4 (run_C10 w4) = true.
Proof. exact repaired_4. Qed.
Print Assumptions C10_class4_witness_holds.

(* a peer that skipped a version (administrator chain) and a burst of additions: both pass the oracle *)
Example C10_jump_and_burst_pass : spec_C10 wj (run_C10 wj) = true /\ hd 0 (run_C10 wj) = 1 /\ spec_C10 wb (run_C10 wb) = true.
Proof. exact jump_and_burst_pass. Qed.
Print Assumptions C10_jump_and_burst_pass.

Example C10_nonvacuous :
  known_C10 w0 = [] /\ spec_C10 w0 (run_C10 w0) = true /\ all_accepted (case_steps w0).
Proof. exact nonvacuous_0. Qed.
Print Assumptions C10_nonvacuous.
