(* C11 — A deleted row stays deleted.
   Property theorems only: statement, exact, Print Assumptions.  Proofs: proofs/C11P.v (+ SyncP.v).
   Model: model/Sync.v, the code as it is ([fixed = false]) and with the tombstone lookup of
   requests/C11-fix-1.diff ([fixed = true]). *)
From DV Require Import Sync SyncObs SyncP Run_C11 C11P.

(* the statement at full strength, against the faithful model: on every history the model's own
   observation passes the property's oracle (after every step the touched peer shows no row at or
   below a deletion record it has ever shown; after quiet full rounds every record is everywhere) *)
Definition C11_full : Prop := forall c, spec_C11 c (run_C11 c) = true.

(* refuted: A creates x; B, C pull; A deletes x; B<-A; B<-C; A<-B — the row is back on B and on A,
   which both hold the deletion record (class 1: Node::filter_existing has no tombstone lookup) *)
Theorem C11_refuted_witness : spec_C11 witness (run_C11 witness) = false /\ known_C11 witness = [1] /\
  map (fun r => (length (nodes r), length (tombs r))) (run_sys false (init_sys 3%N) (c11_ops witness)) = [(1, 1); (1, 1); (1, 0)]%nat.
Proof. exact refuted. Qed.
Print Assumptions C11_refuted_witness.

Theorem C11_refuted : ~ C11_full.
Proof. intros H. pose proof (H witness) as E. rewrite (proj1 refuted) in E. discriminate. Qed.
Print Assumptions C11_refuted.

(* class 3: of two deletion records of one row in one answer the receiver keeps one; the other is
   never present on that peer *)
Theorem C11_refuted_collapse : known_C11 witness_collapse = [3] /\
  map (fun r => length (tombs r)) (run_sys false (init_sys 2%N) (c11_ops witness_collapse)) = [2; 1]%nat.
Proof. exact refuted_collapse. Qed.
Print Assumptions C11_refuted_collapse.

(* outside the known class, as the code is: any number of peers, any history, any order of pulls and
   any selection of days — if no pull stores a row at or below a deletion record its receiver holds
   (the event that defines class 1) and local writes stay in the envelope (creations use fresh ids,
   update clocks are not behind the stored version), then after EVERY step no peer shows a row at or
   below a deletion record it holds.  [run_trace false (init_sys n) ops] are the systems whose dumps
   [run_C11] prints. *)
Theorem C11_outside_known : forall n hist final,
  let c := C11Case n hist final in
  known_C11 c = [] ->
  ev_guard (run_events false (init_sys n) (c11_ops c)) = false ->
  forallb inv_sys_b (run_trace false (init_sys n) (c11_ops c)) = true.
Proof. exact outside_known'. Qed.
Print Assumptions C11_outside_known.

(* the same with the event spelled out (class 3 histories included: the collapse of two deletion
   records does not make a row visible again) *)
Theorem C11_no_resurrection_no_violation : forall n hist final,
  let c := C11Case n hist final in
  ev_resurrect (run_events false (init_sys n) (c11_ops c)) = false ->
  ev_guard (run_events false (init_sys n) (c11_ops c)) = false ->
  forallb inv_sys_b (run_trace false (init_sys n) (c11_ops c)) = true.
Proof. exact outside_known. Qed.
Print Assumptions C11_no_resurrection_no_violation.

(* a stored deletion record is never lost: its key (row id, deletion date) stays in the peer's log
   through every step *)
Theorem C11_tombstones_monotone : forall fixed S o p t,
  has_key (tombs (get p S)) t -> has_key (tombs (get p (fst (fst (step fixed S o))))) t.
Proof. exact tombstones_monotone. Qed.
Print Assumptions C11_tombstones_monotone.

(* with a tombstone lookup in filter_existing (the repair proposed in requests/C11-fix-1.diff) the
   invariant holds on every history inside the envelope: no hypothesis on pull orders is left *)
Theorem C11_with_lookup_holds : forall n ops,
  ev_guard (run_events true (init_sys n) ops) = false ->
  forallb inv_sys_b (run_trace true (init_sys n) ops) = true.
Proof. exact with_lookup_holds. Qed.
Print Assumptions C11_with_lookup_holds.

Example C11_witness_repaired :
  map (fun r => (length (nodes r), length (tombs r))) (run_sys true (init_sys 3%N) (c11_ops witness)) = [(0, 1); (0, 1); (1, 0)]%nat /\
  ev_guard (run_events true (init_sys 3%N) (c11_ops witness)) = false.
Proof. exact witness_repaired. Qed.
Print Assumptions C11_witness_repaired.

Example C11_nonvacuous :
  ev_resurrect (run_events false (init_sys 3%N) (c11_ops example_ok)) = false /\
  ev_guard (run_events false (init_sys 3%N) (c11_ops example_ok)) = false /\
  spec_C11 example_ok (run_C11 example_ok) = true /\
  map (fun r => (length (nodes r), length (tombs r))) (run_sys false (init_sys 3%N) (c11_ops example_ok)) = [(0, 1); (0, 1); (0, 1)]%nat.
Proof. exact nonvacuous. Qed.
Print Assumptions C11_nonvacuous.
