(* C11 — A deleted row stays deleted.
   Property theorems only: statement, exact, Print Assumptions.  Proofs: proofs/SyncP.v, proofs/C11P.v,
   proofs/C03P.v (deletion records everywhere at quiescence).
   Model: model/Sync.v = the code after the fix commits ca69f52 (tombstone lookup in
   Node::filter_existing), bb1bffb (every deletion record of an answer is stored), ad91329 (a deletion
   record removes only the version it names or an older one).  Both former known-finding classes of
   C11 (rows) are repaired; for ROWS the statement holds on the faithful model (C11_holds). The model also
   carries references and reference deletion records: there one class is open (class 4). *)
From DV Require Import Sync SyncObs SyncP Run_C11 C11P Run_C03 C03P.

(* the statement, against the faithful model: any number of peers, any history of creations, updates,
   deletions and pulls in any order, any selection of days by the log comparison — after EVERY step no
   peer shows a row at or below (modification date) a deletion record it holds.
   [run_trace (init_sys n) ops] are the systems whose dumps [run_C11] prints.
   The only hypothesis is the envelope of the local writes, decided on the run itself: creations use
   ids the peer does not know yet (the code draws fresh uids) and no local update carries a clock that
   is behind the version it replaces. *)
Theorem C11_holds : forall n hist final,
  let c := C11Case n hist final in
  c11_envelope c = true ->
  forallb inv_sys_b (run_trace (init_sys n) (c11_ops c)) = true.
Proof. exact C11P.holds. Qed.
Print Assumptions C11_holds.

(* a stored deletion record is never lost: its key (row id, deletion date) stays in the peer's log
   through every step *)
Theorem C11_tombstones_monotone : forall S o p t,
  has_key (tombs (get p S)) t -> has_key (tombs (get p (fst (fst (step S o))))) t.
Proof. exact C11P.tombstones_monotone. Qed.
Print Assumptions C11_tombstones_monotone.

(* once all members have synchronised — every ordered pair pulled, with the days a complete log
   comparison selects, and nothing moved —, every deletion record is present on every member (and by
   C11_holds the rows it covers are visible nowhere): the members hold the same rows and the same
   deletion records *)
Theorem C11_records_everywhere : forall n hist final,
  let c := C03Case n hist final in
  known_C03 c = [] -> c03_envelope c = true ->
  full_round n final = true -> c03_quiet c = true ->
  all_agree (run_sys (init_sys n) (hist ++ final)) = true.
Proof. exact C03P.outside_known. Qed.
Print Assumptions C11_records_everywhere.

(* references: refuted on the faithful model — the same reference added on two peers (two creation
   dates), the later one removed: a peer applies the deletion record and still shows the reference at
   its older version (EdgeDeletionEntry::delete_all removes the exactly named version only) — class 4, open *)
Theorem C11_refuted_ref_below :
  spec_C11 C11P.witness_ref_below (run_C11 C11P.witness_ref_below) = false /\ known_C11 C11P.witness_ref_below = [4].
Proof. exact C11P.refuted_ref_below. Qed.
Print Assumptions C11_refuted_ref_below.

(* refuted, class 5 (open): deletion records of one row written in the same millisecond on two peers that
   held different versions share their key and replace each other: a record is not present everywhere *)
Theorem C11_refuted_key_clash :
  spec_C11 C11P.witness_key_clash (run_C11 C11P.witness_key_clash) = false /\ known_C11 C11P.witness_key_clash = [5] /\
  map (fun r => map t_mdate (tombs r)) (run_sys (init_sys 2%N) (c11_ops C11P.witness_key_clash)) = [[1000]; [1000]].
Proof. exact C11P.refuted_key_clash. Qed.
Print Assumptions C11_refuted_key_clash.

(* batching: a day's deletion records may arrive cut into any number of batches; applying them batch by
   batch gives what applying the whole answer gives, provided the split loses no record (the proviso is
   checked on the code by the harness case 'batching': 55 records of one day in answers of ~4 KiB) *)
Theorem C11_batches_lossless : forall chunks r,
  apply_tomb_batches chunks r = fold_left apply_tomb (concat chunks) r.
Proof. exact batches_lossless_tombs. Qed.
Print Assumptions C11_batches_lossless.

(* regression examples (the former refutation witnesses): the 3-peer history delete, B<-A, B<-C, A<-B
   now leaves the row deleted on B and A ... *)
Example C11_witness_holds : spec_C11 C11P.witness (run_C11 C11P.witness) = true /\ c11_envelope C11P.witness = true /\
  map (fun r => (length (nodes r), length (tombs r))) (run_sys (init_sys 3%N) (c11_ops C11P.witness)) = [(0, 1); (0, 1); (1, 0)]%nat.
Proof. exact C11P.witness_holds. Qed.
Print Assumptions C11_witness_holds.

(* ... and two deletion records of one row on one day both reach both peers *)
Example C11_two_records_hold : spec_C11 C11P.witness_two_records (run_C11 C11P.witness_two_records) = true /\
  map (fun r => (length (nodes r), length (tombs r))) (run_sys (init_sys 2%N) (c11_ops C11P.witness_two_records)) = [(0, 2); (0, 2)]%nat.
Proof. exact C11P.two_records_hold. Qed.
Print Assumptions C11_two_records_hold.

Example C11_nonvacuous :
  c11_envelope C11P.example_ok = true /\ spec_C11 C11P.example_ok (run_C11 C11P.example_ok) = true /\
  map (fun r => (map n_mdate (nodes r), length (tombs r))) (run_sys (init_sys 3%N) (c11_ops C11P.example_ok)) =
  [([5000], 1%nat); ([5000], 1%nat); ([5000], 1%nat)].
Proof. exact C11P.nonvacuous. Qed.
Print Assumptions C11_nonvacuous.
