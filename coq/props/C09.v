(* C09 — The daily log is a function of the stored content, nothing else.
   Property theorems only: statement, exact, Print Assumptions.  Proofs: proofs/C09P.v.
   Model: model/DailyLog.v (tables, marks of every write, DailyMutations::write, DailyLogsUpdate::compute
   with hashes as free terms); run/oracle: run/Run_C09.v. *)
From DV Require Import Run_C09 C09P C09V2P.

(* the statement at full strength, against the model: at every point at which the tables are read
   back with no recomputation pending, count + daily hash are the from-scratch recount (CDaily) and
   the whole log, history hash included, is the canonical function of the content (CCanon).
   The faithful model still REFUTES it for the history hash and empty rows (CCanon)
   (the C09_refuted theorems); what holds outside the open classes is below. *)
(* (1) every history — any number of writer batches, recomputations anywhere, inside batches too —
   in which each write marks every key whose content it changes (known_C09 = []: decided by the
   model, step by step) ends, wherever nothing is pending, with count and daily hash equal to the
   recount over the stored rows and deletion records, and a row for every stored key *)
Theorem C09_outside_known : forall t0 items,
  known_C09 (CDaily t0 items) = [] -> no_pending (CDaily t0 items) = true ->
  spec_C09 (CDaily t0 items) (run_C09 (CDaily t0 items)) = true.
Proof. exact outside_known_spec. Qed.
Print Assumptions C09_outside_known.

(* the same on the dumps themselves (also for CCanon inputs: the recount part never depends on the kind) *)
Theorem C09_outside_known_dumps : forall c, mark_classes c = [] ->
  forall d, In d (run_dumps c) -> forallb (fun rw => negb (rr_dirty rw)) (d_log d) = true -> daily_ok d = true.
Proof. exact outside_known_daily. Qed.
Print Assumptions C09_outside_known_dumps.

(* (2) the two halves of the invariant argument, for ANY state:
   a covering write keeps "dirty, or pending, or recount" for every row, its marks pending ... *)
Theorem C09_marks_cover_preserves : forall p s o s' ms,
  PInv p s (log s) -> exec_op o s = (s', ms) -> uncovered s s' ms = [] -> PInv (p ++ ms) s' (log s').
Proof. exact op_step. Qed.
Print Assumptions C09_marks_cover_preserves.
(* ... the end of the batch writes them (DailyMutations::write) ... *)
Theorem C09_write_marks : forall p s lg, PInv p s lg -> PInv [] s (write_marks p lg).
Proof. exact write_marks_PInv. Qed.
Print Assumptions C09_write_marks.
(* ... and a recomputation leaves every row clean with the recount of its key (compute_establishes),
   including the row filter evaluated while the loop updates the table and the cursor quirk *)
Theorem C09_compute_establishes : forall p s s' rep, PInv p s (log s) -> compute s = (s', rep) ->
  (forall l, In l (log s') -> clean_ok s' p l) /\ PInv p s' (log s').
Proof. exact compute_ok. Qed.
Print Assumptions C09_compute_establishes.
Theorem C09_recompute_leaves_nothing_dirty : forall s evs s' evs',
  exec_batch (s, evs) [MCompute] = (s', evs') ->
  forallb (fun rw => negb (rr_dirty rw)) (d_log (dump_of s')) = true.
Proof. exact compute_leaves_nothing_dirty. Qed.
Print Assumptions C09_recompute_leaves_nothing_dirty.

(* (3) the local write path always covers: creation, update, move to another room or day *)
Theorem C09_local_create_covers : forall s id room ent sig,
  let r := exec_op (LCreate id room ent sig) s in uncovered s (fst r) (snd r) = [].
Proof. exact local_create_covers. Qed.
Print Assumptions C09_local_create_covers.
Theorem C09_local_update_covers : forall s id ent room sig,
  let r := exec_op (LUpdate id ent room sig) s in uncovered s (fst r) (snd r) = [].
Proof. exact local_update_covers. Qed.
Print Assumptions C09_local_update_covers.

(* (4) different content, different (count, daily hash) — with the free (injective) hash *)
Theorem C09_recount_injective : forall s1 s2 k1 k2, recount s1 k1 = recount s2 k2 -> content s1 k1 = content s2 k2.
Proof. exact recount_inj. Qed.
Print Assumptions C09_recount_injective.

(* (5) the write kinds repaired in /repo (4510e5f, f14488a, 9c2e3ca, 9b19d99, de0967d) now cover, for every state:
   a peer's tombstones unconditionally; *)
Theorem C09_tombstone_holds : forall s ts,
  let r := exec_op (SDelNodes ts) s in uncovered s (fst r) (snd r) = [].
Proof. exact tombstone_covers. Qed.
Print Assumptions C09_tombstone_holds.
(* synchronised nodes unconditionally (the day a version leaves is marked under the entity it is
   stored with: 4510e5f, 9b19d99); *)
Theorem C09_sync_update_holds : forall s room ns,
  let r := exec_op (SNodes room ns) s in uncovered s (fst r) (snd r) = [].
Proof. exact sync_update_covers. Qed.
Print Assumptions C09_sync_update_holds.
(* a reference deletion, with or without the reference (premise: no edge tombstone is already dated
   at the current instant: INSERT OR REPLACE keys that table without the source entity) *)
Theorem C09_ref_deletion_holds : forall s src ent dest sig esig,
  (forall d, In d (edels s) -> ed_date d <> now s) ->
  let r := exec_op (LDelRef src ent dest sig esig) s in uncovered s (fst r) (snd r) = [].
Proof. exact ref_deletion_covers. Qed.
Print Assumptions C09_ref_deletion_holds.
(* the former refutation witnesses (directed cases d0, d1, d2, d7, d8 of the harness) pass, nothing known *)
Theorem C09_witness_sync_update_holds : spec_C09 w_sync_update (run_C09 w_sync_update) = true /\ known_C09 w_sync_update = [].
Proof. exact holds_sync_update. Qed.
Print Assumptions C09_witness_sync_update_holds.
Theorem C09_witness_ref_deletion_holds : spec_C09 w_ref_deletion (run_C09 w_ref_deletion) = true /\ known_C09 w_ref_deletion = [].
Proof. exact holds_ref_deletion. Qed.
Print Assumptions C09_witness_ref_deletion_holds.
Theorem C09_witness_tombstone_holds : spec_C09 w_tombstone (run_C09 w_tombstone) = true /\ known_C09 w_tombstone = [].
Proof. exact holds_tombstone. Qed.
Print Assumptions C09_witness_tombstone_holds.

Theorem C09_witness_entity_change_holds : spec_C09 w_entity_change (run_C09 w_entity_change) = true /\ known_C09 w_entity_change = [].
Proof. exact holds_entity_change. Qed.
Print Assumptions C09_witness_entity_change_holds.

Theorem C09_witness_edge_tombstone_holds : spec_C09 w_edge_tombstone (run_C09 w_edge_tombstone) = true /\ known_C09 w_edge_tombstone = [].
Proof. exact holds_edge_tombstone. Qed.
Print Assumptions C09_witness_edge_tombstone_holds.
(* a peer's edge tombstones unconditionally (de0967d); *)
Theorem C09_edge_tombstone_holds : forall s ts,
  let r := exec_op (SDelEdges ts) s in uncovered s (fst r) (snd r) = [].
Proof. exact edge_tombstone_covers. Qed.
Print Assumptions C09_edge_tombstone_holds.
(* EVERY write kind, any state, inside the envelope (a local deletion names one stored row: ids are
   unique; no edge tombstone is already dated at the instant of a local reference deletion) *)
Theorem C09_all_writes_cover : forall o s, envelope o s ->
  let r := exec_op o s in uncovered s (fst r) (snd r) = [].
Proof. exact all_writes_cover. Qed.
Print Assumptions C09_all_writes_cover.
(* hence, with no class hypothesis: for every history inside the envelope — any batching, recomputes
   anywhere — count and daily hash are the from-scratch recount wherever nothing is pending *)
Theorem C09_daily_holds : forall t0 items, items_env (init t0) items ->
  no_pending (CDaily t0 items) = true -> spec_C09 (CDaily t0 items) (run_C09 (CDaily t0 items)) = true.
Proof. exact daily_holds_env. Qed.
Print Assumptions C09_daily_holds.

(* (6) refutations that remain (the history-hash half of the statement, classes 4 and 5): closed
   histories on which the faithful model violates the statement; each is also a directed case of
   the harness and fails the same way on the real code. *)
(* same stored rows: one pass gives the canonical log, day by day does not; a change on an earlier
   day leaves the later history hashes untouched *)
Theorem C09_refuted_history :
  spec_C09 w_history_onepass (run_C09 w_history_onepass) = true /\ known_C09 w_history_onepass = [] /\
  spec_C09 w_history_daybyday (run_C09 w_history_daybyday) = false /\ known_C09 w_history_daybyday = [4] /\
  map d_content (run_dumps w_history_onepass) = map d_content (run_dumps w_history_daybyday) /\
  spec_C09 w_history_shortcut (run_C09 w_history_shortcut) = false /\ known_C09 w_history_shortcut = [4].
Proof. exact refuted_history. Qed.
Print Assumptions C09_refuted_history.
Theorem C09_refuted_empty_row : spec_C09 w_empty_row (run_C09 w_empty_row) = false /\ known_C09 w_empty_row = [4; 5].
Proof. exact refuted_empty_row. Qed.
Print Assumptions C09_refuted_empty_row.
(* (7) READY TO SWITCH ON — about compute_v2, the model of DailyLogsUpdate::compute with
   requests/C09-fix-6.diff (validated against a patched copy of /repo: 0 disagreements, both oracles
   true on every read-back; DailyLog.compute still points at compute_v1 = /repo as it is).
   compute_v2 has the three properties every theorem above uses of `compute`: *)
Theorem C09_v2_compute_establishes : forall p s s' rep, PInv p s (log s) -> compute_v2 s = (s', rep) ->
  (forall l, In l (log s') -> clean_ok s' p l) /\ PInv p s' (log s').
Proof. exact compute_v2_ok. Qed.
Print Assumptions C09_v2_compute_establishes.
Theorem C09_v2_reports_all_dirty : forall s s' rep, compute_v2 s = (s', rep) ->
  forall l, In l (log s) -> l_dirty l = true -> In (lrow_key l) rep.
Proof. exact compute_v2_reports_all_dirty. Qed.
Print Assumptions C09_v2_reports_all_dirty.
Theorem C09_v2_leaves_nothing_dirty : forall s s' rep, compute_v2 s = (s', rep) ->
  forall l, In l (log s') -> l_dirty l = false.
Proof. exact compute_v2_leaves_nothing_dirty. Qed.
Print Assumptions C09_v2_leaves_nothing_dirty.
(* the history column: one recomputation over the rows of a room, read in (day, entity) order, whose
   clean rows before the first dirty one are chained (all that writes and earlier recomputations leave
   behind), yields rows that are clean, carry the recount of their key, and whose history column is
   the fold of their daily hashes in that order — a function of the stored content; a key that stores
   nothing keeps no row *)
Theorem C09_history_holds : forall s r rows,
  (forall l, In l rows -> l_room l = r) ->
  (forall l, In l rows -> row_ok s [] l) ->
  chained_until_dirty None rows ->
  let out := fst (loop2 s c2init rows) in
  map l_hist out = hist_fold None (map l_daily out) /\
  (forall l', In l' out -> l_dirty l' = false /\ (l_n l', l_daily l') = recount s (lrow_key l')) /\
  (forall l, In l rows -> (exists l', In l' out /\ lrow_key l' = lrow_key l) \/ content s (lrow_key l) = []).
Proof. exact history_holds. Qed.
Print Assumptions C09_history_holds.
(* closed, end to end through compute_v2 (row selection, both sorts, two entities): day by day = one
   pass = the canonical log; a change on an earlier day re-chains the later days; an emptied day
   loses its row *)
Example C09_v2_daybyday_equals_onepass :
  log (c2 (step2 (SNodes 1 [sn 3 1 (2 * D + 5000) 3]) (c2 (step2 (SNodes 1 [sn 2 2 (D + 5000) 2]) (c2 (step2 (SNodes 1 [sn 1 1 5000 1]) (init 1000)))))))
  = log (c2 (step2 (SNodes 1 [sn 1 1 5000 1; sn 2 2 (D + 5000) 2; sn 3 1 (2 * D + 5000) 3]) (init 1000))) /\
  map raw_of (log (c2 (step2 (SNodes 1 [sn 1 1 5000 1; sn 2 2 (D + 5000) 2; sn 3 1 (2 * D + 5000) 3]) (init 1000))))
  = canon_log_v2 (d_content (dump_of (c2 (step2 (SNodes 1 [sn 1 1 5000 1; sn 2 2 (D + 5000) 2; sn 3 1 (2 * D + 5000) 3]) (init 1000))))).
Proof. exact v2_daybyday_equals_onepass. Qed.
Print Assumptions C09_v2_daybyday_equals_onepass.

Theorem C09_full_refuted : ~ C09_full.
Proof. exact full_refuted. Qed.
Print Assumptions C09_full_refuted.

Example C09_nonvacuous :
  known_C09 w_clean = [] /\ spec_C09 w_clean (run_C09 w_clean) = true /\ length (run_dumps w_clean) = 2%nat /\
  forallb (fun d => forallb (fun rw => negb (rr_dirty rw)) (d_log d)) (run_dumps w_clean) = true /\
  map (fun d => length (d_log d)) (run_dumps w_clean) = [2%nat; 4%nat].
Proof. exact nonvacuous_clean. Qed.
Print Assumptions C09_nonvacuous.
