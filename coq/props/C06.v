(* C06 — A signature binds exactly one row and only its author can produce it.
   Property theorems only: statement, exact, Print Assumptions.  Proofs: proofs/C06P.v.
   `layouts`, `sign_callers`, `layout_names`, `layout_struct_fields` are GENERATED from /repo's
   current source (gen/DigestLayouts.v) on every run, so every statement about them is re-checked
   against the code as it is now. *)
From DV Require Import Digest DigestLayouts Run_C06 C06P.

(* The full statement (hash H collision-free, signatures symbolic).  Parts (a) and (c) are REFUTED
   for the current source below; part (b) is runtime behaviour of the write paths and is only
   observed by the harness (sign() then verify() on every generated row), not proved. *)
Definition C06_full : Prop :=
  forall (Hf : list byte -> list byte) (sigT : Type) (sign : list byte -> list byte -> sigT),
  (forall a b, Hf a = Hf b -> a = b) ->
  (forall k m k' m', sign k m = sign k' m' -> k = k' /\ m = m') ->
  (* (a) one signature, one row, one kind *)
  (forall i j l l' x y k k' s, nth_error layouts i = Some l -> nth_error layouts j = Some l' ->
     verifies Hf sigT sign k l x s -> verifies Hf sigT sign k' l' y s -> i = j /\ x = y /\ k = k') /\
  (* (c) no answer to a peer's signing request verifies as a row *)
  (forall k cs k' l x s, In l layouts -> In s (oracle_answers sigT sign k cs) -> ~ verifies Hf sigT sign k' l x s).

(* (1) soundness of the decision procedure, for ANY family of layouts: if it answers true, the
   signed bytes determine the kind and every field of the row (no bound on sizes) *)
Theorem C06_ud_sound : forall ls, uniquely_decodable ls = true ->
  forall i j l l' x y, nth_error ls i = Some l -> nth_error ls j = Some l' ->
  wf_row l x = true -> wf_row l' y = true -> enc l x = enc l' y -> i = j /\ x = y.
Proof. exact ud_sound. Qed.
Print Assumptions C06_ud_sound.

(* ... hence, with a collision-free hash and symbolic signatures, one signature binds one row *)
Theorem C06_binds_if_ud : forall (Hf : list byte -> list byte),
  (forall a b, Hf a = Hf b -> a = b) ->
  forall (sigT : Type) (sign : list byte -> list byte -> sigT),
  (forall k m k' m', sign k m = sign k' m' -> k = k' /\ m = m') ->
  forall ls, uniquely_decodable ls = true ->
  forall i j l l' x y k k' s, nth_error ls i = Some l -> nth_error ls j = Some l' ->
  verifies Hf sigT sign k l x s -> verifies Hf sigT sign k' l' y s -> i = j /\ x = y /\ k = k'.
Proof. exact binds_if_ud. Qed.
Print Assumptions C06_binds_if_ud.

(* the hypotheses are satisfiable: a tagged, length-prefixed variant of the six layouts is accepted,
   and the witness search finds nothing in it *)
Example C06_ud_nonvacuous : uniquely_decodable repaired = true /\ collide key0 repaired = None.
Proof. exact repaired_ud. Qed.
Print Assumptions C06_ud_nonvacuous.

(* the procedure never accepts a family in which the search finds a collision *)
Theorem C06_ud_excludes_collisions : forall key ls w,
  uniquely_decodable ls = true -> collide key ls = Some w -> False.
Proof. exact ud_excludes_collisions. Qed.
Print Assumptions C06_ud_excludes_collisions.

(* (2) the CURRENT source: the procedure rejects the generated layouts, and the search computes two
   acceptable rows with the same signed bytes *)
Theorem C06_current_layouts_rejected : uniquely_decodable layouts = false.
Proof. exact layouts_not_ud. Qed.
Print Assumptions C06_current_layouts_rejected.

Theorem C06_binds_refuted : exists k1 r1 k2 r2 l1 l2,
  collide key0 layouts = Some (k1, r1, k2, r2) /\
  nth_error layouts (N.to_nat k1) = Some l1 /\ nth_error layouts (N.to_nat k2) = Some l2 /\
  acceptable l1 r1 = true /\ acceptable l2 r2 = true /\ enc l1 r1 = enc l2 r2 /\ (k1, r1) <> (k2, r2).
Proof. exact current_refuted. Qed.
Print Assumptions C06_binds_refuted.

(* every witness the search returns is a collision of acceptable rows (for any key and family) *)
Theorem C06_collide_sound : forall key ls w, In w (collide_all key ls) -> is_collision ls w = true.
Proof. exact collide_all_sound. Qed.
Print Assumptions C06_collide_sound.

(* K1: node (entity "a", json "{}") / (entity a"{}", no json); reference ("ab","c") / ("a","bc") *)
Theorem C06_refuted_K1_node : is_collision layouts (0%N, node_a, 0%N, node_b) = true.
Proof. exact k1_node_witness. Qed.
Print Assumptions C06_refuted_K1_node.
Theorem C06_refuted_K1_reference : is_collision layouts (1%N, edge_a, 1%N, edge_b) = true.
Proof. exact k1_edge_witness. Qed.
Print Assumptions C06_refuted_K1_reference.
(* K2: two rows of different synchronised kinds with the same signed bytes *)
Theorem C06_refuted_K2_cross_kind :
  existsb (fun w : witness => let '(k1, _, k2, _) := w in negb (N.eqb k1 k2) && (k1 <? 4)%N && (k2 <? 4)%N)
          (collide_all key0 layouts) = true.
Proof. exact k2_cross_kind_witness. Qed.
Print Assumptions C06_refuted_K2_cross_kind.

(* (3) what DOES hold for the current layouts (and any other): two rows of the same kind that agree
   on which optional fields are present and on the length of every field are equal as soon as their
   signed bytes are equal — i.e. every collision lies in class 1 (shape differs) or 2 (kind differs) *)
Theorem C06_outside_known : forall l x y,
  wf_row l x = true -> wf_row l y = true -> shape l x = shape l y -> enc l x = enc l y -> x = y.
Proof. exact same_shape_inj. Qed.
Print Assumptions C06_outside_known.

(* the same, about the functions the harness evaluates: outside the known classes the property's
   oracle holds on everything the model can observe, for every collision-free hash *)
Theorem C06_run_spec_outside_known : forall (Hf : list byte -> list byte),
  (forall a b, Hf a = Hf b -> a = b) ->
  forall c, case_ok c = true -> known_C06_gen Hf c = [] -> spec_C06 c (run_C06_gen Hf c) = true.
Proof. exact run_spec_outside_known. Qed.
Print Assumptions C06_run_spec_outside_known.

Example C06_outside_known_nonvacuous :
  case_ok (CPair 0 node_a true 0 node_a true) = true /\ known_C06 (CPair 0 node_a true 0 node_a true) = [] /\
  run_C06 (CPair 0 node_a true 0 node_a true) = [1; 1; 1]%Z /\
  known_C06 (CPair 0 node_a true 0 node_b true) = [1]%Z /\
  spec_C06 (CPair 0 node_a true 0 node_b true) (run_C06 (CPair 0 node_a true 0 node_b true)) = false.
Proof. exact run_spec_nonvacuous. Qed.
Print Assumptions C06_outside_known_nonvacuous.

(* (3') HOLDS since fix 6d1bd7f (before it: a reference of 961..1024 field bytes was signed and never
   verified): whatever sign() accepts, verify() accepts — for every layout, row and JSON verdict *)
Theorem C06_sign_then_verify_holds : forall l r j, sign_accept l r j = true -> accept l r j = true.
Proof. exact sign_then_verify. Qed.
Print Assumptions C06_sign_then_verify_holds.

(* (3'') stored rows. Any store that is only written by whole-row operations (insert unless the key
   exists, replace by key, delete by key, append) keeps the invariant "every stored row is one that
   verify() accepted as a whole" — for every history; and its instance for sys.Peer rows written by
   add_peer_nodes on any number of instances: whatever is stored or served by get_peer_node verifies.
   (Partial: that Node::write, Edge::write and the deletion logs ARE whole-row writes is tied to the
   code by the harness' stored-row cases, where every stored and served row goes through the real
   verify(); only PeerNodes::write is compared column by column.) *)
Theorem C06_stored_whole_rows_partial : forall (row : Type) (same_key : row -> row -> bool) (V : row -> bool) ops s,
  Forall (fun r => V r = true) s ->
  Forall (fun o => match wrow row o with Some r => V r = true | None => True end) ops ->
  Forall (fun r => V r = true) (fold_left (wstep row same_key) ops s).
Proof. exact whole_rows_invariant. Qed.
Print Assumptions C06_stored_whole_rows_partial.

Theorem C06_stored_peer_rows_hold : forall rows init ops,
  Forall (fun st => Forall (fun r => Stored.verifies rows r = true) st) (peer_run rows init ops).
Proof. exact peer_stores_verified. Qed.
Print Assumptions C06_stored_peer_rows_hold.

(* (3''') the verification service is a FUNCTION of what is submitted: the verdict on a batch is that
   of verify() on each of its rows, whatever was submitted before (so any memory of earlier verdicts in
   the real service is a disagreement with the model, and an accepted tampered row an oracle failure) *)
Theorem C06_service_stateless : forall (Hf : list byte -> list byte) history b,
  run_C06_gen Hf (CService (history ++ [b])) = run_C06_gen Hf (CService history) ++ [zb (forallb (item_verdict Hf) b)].
Proof. exact service_stateless. Qed.
Print Assumptions C06_service_stateless.

(* (4) every field of the six signed structures, the signature excepted, is part of the digest *)
Theorem C06_all_fields_signed : all_fields_hashed = true.
Proof. exact all_fields_hashed_ok. Qed.
Print Assumptions C06_all_fields_signed.

(* (5) the signing oracle (K3): the source signs peer-supplied bytes as they are ... *)
Theorem C06_oracle_signs_peer_bytes :
  existsb (fun k => match k with SignsPeerBytes => true | _ => false end) sign_callers = true.
Proof. exact raw_oracle_present. Qed.
Print Assumptions C06_oracle_signs_peer_bytes.
(* ... so a peer obtains a signature for any row it forges in the victim's name ... *)
Theorem C06_oracle_refuted : forall (Hf : list byte -> list byte) (sigT : Type) (sign : list byte -> list byte -> sigT),
  forall k l x, wf_row l x = true ->
  exists s, In s (oracle_answers sigT sign k [Hf (enc l x)]) /\ verifies Hf sigT sign k l x s.
Proof. exact oracle_forges. Qed.
Print Assumptions C06_oracle_refuted.
(* ... and that is the only way: an answer verifies as a row only if the row's digest was the challenge *)
Theorem C06_oracle_outside_known : forall (Hf : list byte -> list byte) (sigT : Type) (sign : list byte -> list byte -> sigT),
  (forall k m k' m', sign k m = sign k' m' -> k = k' /\ m = m') ->
  forall k cs k' l x s,
  In s (oracle_answers sigT sign k cs) -> verifies Hf sigT sign k' l x s -> k' = k /\ In (Hf (enc l x)) cs.
Proof. exact oracle_only_digests. Qed.
Print Assumptions C06_oracle_outside_known.
