(* C13 — Writes are atomic, durable once acknowledged, and leave the log repairable.
   Property theorems only: statement, exact, Print Assumptions.  Proofs: proofs/WriterP.v, proofs/C13P.v.
   Model: model/Writer.v (run_batch = BufferedDatabaseWriter::process_batch_write + the point in front of
   the acknowledgement loop; ack_req = the acknowledgement loop and the authorisation actor's second
   validation), parameterised by the statement skeleton GENERATED from the Rust source
   (gen/WriterSkeleton.v : code_skeleton).  Assumed: SQLite's transaction contract (see Writer.v). *)
From DV Require Import Run_C13 WriterP C13P.

(* the property at full strength, for the cases the harness evaluates (one fault per run) *)
Definition C13_full : Prop := forall c, wf_case c = true -> spec_C13 c (run_C13 c) = true.

(* (0) structural obligations over the skeleton regenerated from src/database/sqlite_database.rs on every
   run: BEGIN, loop, daily_log.write, COMMIT in this order (the marks are written in the same transaction,
   before COMMIT); every message kind has its arm, every statement group's error exit issues ROLLBACK, and so do
   the error exits of daily_log.write and of COMMIT;
   the acknowledgement loop runs on the result, Ok branch sends Ok, Err branch sends Err, on the same route;
   the H4 points cover every group, the marks, COMMIT and the acknowledgement; the statements that exist inside the
   multi-statement groups (InsertEntity::write, DeletionQuery::delete, the room mutation / room node writes) are
   the expected ones with the H4b points between them, and the start-up recompute has its two points *)
Theorem C13_skeleton_obligations : sk_ok code_skeleton = true /\ points_complete code_skeleton = true.
Proof. exact (conj code_skeleton_ok code_points_complete). Qed.
Print Assumptions C13_skeleton_obligations.

(* (1) atomicity of a batch, for every skeleton, every fault schedule, every batch length, every division of the
   statement groups into statements (a request carries, per group, the list of its statements; a fault can hit in
   front of ANY of them): the disk is unchanged until COMMIT; Ok => applied; Err => unchanged; killed => one of the two *)
Theorem C13_atomic_holds : forall sk sched n st b st' o n' last,
  run_batch sk sched n st b = (st', o, n', last) ->
  (w_disk st' = w_disk st \/ w_disk st' = txn_body sk b (w_disk st)) /\
  (o = Returned true -> w_disk st' = txn_body sk b (w_disk st)) /\
  (o = Returned false -> w_disk st' = w_disk st) /\
  (forall c, o = Died c -> w_disk st' = if c then txn_body sk b (w_disk st) else w_disk st).
Proof. exact batch_atomic. Qed.
Print Assumptions C13_atomic_holds.

(* (2) acknowledgement only after commit: a request acknowledged Ok lies in a committed batch
   (any number of batches, any schedule) *)
Theorem C13_ack_after_commit_holds : forall sk sched bs n st au, sk_ok sk = true ->
  Forall (fun x => it_ack x = Some true -> it_committed x = true) (rr_items (run_batches sk sched n st au bs)).
Proof. exact ack_after_commit. Qed.
Print Assumptions C13_ack_after_commit_holds.

(* (3) marks inside the transaction => the log is repairable: whatever the schedule (kills and statement
   failures at any points), the committed log keeps "every entry that does not describe the rows is marked",
   and the recompute that every start requests makes it consistent with the stored rows *)
Theorem C13_repair_holds : forall sk sched bs n st au,
  (forall r, In r (concat bs) -> Covers sk r) -> LogInv (w_disk st) ->
  LogInv (w_disk (rr_state (run_batches sk sched n st au bs))) /\
  Consistent (restart (rr_state (run_batches sk sched n st au bs))).
Proof. exact log_repairable. Qed.
Print Assumptions C13_repair_holds.

(* (4) the whole statement for EVERY fault schedule, outside the known class: per request all or nothing,
   the same before and after restart, acknowledged => applied, reported failed => not applied; log repairable *)
Theorem C13_every_schedule_outside_known : forall sk sched batches unsent d0,
  sk_ok sk = true ->
  NoDup (map op_key (flat_map req_ops (concat batches ++ unsent))) ->
  (forall o, In o (flat_map req_ops (concat batches ++ unsent)) -> reflected d0 o = false) ->
  (forall q, In q (concat batches ++ unsent) -> req_shape q = true) ->
  (forall q, In q (concat batches) -> Covers sk q) ->
  LogInv d0 ->
  k2 false (concat batches) = false ->
  let r := run_batches sk sched 0%N {| w_disk := d0; w_stuck := false |} true batches in
  let d' := w_disk (rr_state r) in
  map it_req (rr_items r) = concat batches /\
  (forall x, In x (rr_items r) ->
     vis d' (it_req x) = (if it_committed x || quiet (it_req x) then 1 else 0) /\
     vis (restart (rr_state r)) (it_req x) = vis d' (it_req x) /\
     (it_ack x = Some true -> it_committed x = true) /\
     (it_ack x = Some false -> it_committed x = false)) /\
  (forall q, In q unsent -> vis d' q = if quiet q then 1 else 0) /\
  LogInv d' /\ Consistent (restart (rr_state r)).
Proof. exact every_schedule. Qed.
Print Assumptions C13_every_schedule_outside_known.

(* (5) the same about the functions the harness evaluates (workload runs CRun and faulty starts CRestart):
   the oracle holds on what the model observes *)
Theorem C13_outside_known : forall c,
  wf_case c = true -> known_C13 c = [] -> spec_C13 c (run_C13 c) = true.
Proof. exact spec_outside_known. Qed.
Print Assumptions C13_outside_known.

(* (5b) faults during GraphDatabaseService::start, for every schedule: the start's own writes carry no row of the
   model, so whatever is killed or fails, rows and deletion log stay as committed, the log keeps its invariant and
   the next start's recompute makes it consistent *)
Theorem C13_start_preserves_holds : forall sk sched sc n st lo started,
  (forall r, In r (script_reqs sc) -> req_ops r = []) -> LogInv (w_disk st) ->
  let r := run_script sk sched n st lo started sc in
  data_eq (w_disk (sr_state r)) (w_disk st) /\ LogInv (w_disk (sr_state r)) /\ Consistent (restart (sr_state r)).
Proof. exact start_preserves. Qed.
Print Assumptions C13_start_preserves_holds.

(* (6) the full statement is refuted by the faithful model (class 1: the second validation of a room
   mutation after commit); the witness is the directed case the harness replays on the real code *)
Theorem C13_refuted : ~ C13_full.
Proof. intros H. destruct k2_refutes as [Hw [Hs _]]. rewrite (H k2_witness Hw) in Hs. discriminate. Qed.
Print Assumptions C13_refuted.
Example C13_refuted_witness_in_class : known_C13 k2_witness = [1].
Proof. exact (proj2 (proj2 k2_refutes)). Qed.
Print Assumptions C13_refuted_witness_in_class.

Example C13_nonvacuous :
  wf_case nonvacuous_case = true /\ known_C13 nonvacuous_case = [] /\
  run_C13 nonvacuous_case = [1; -1; 1;  0; -1; 1;  0; -1; 1;  0; -1; 1;  0; -1; 0;  0; 6; 1; 1; 1; 1; 1; 1].
Proof. exact nonvacuous. Qed.
Print Assumptions C13_nonvacuous.

(* (7) K1 repaired (fix d89b357: ROLLBACK when daily_log.write or COMMIT fail; the rollback on these two exits
   is now part of sk_ok, re-proved over the regenerated skeleton): whatever fails, the connection is never left
   inside a transaction, so a failed batch does not take the writer out of service *)
Theorem C13_never_wedged_holds : forall sk sched bs n st au,
  sk_ok sk = true -> w_stuck st = false -> w_stuck (rr_state (run_batches sk sched n st au bs)) = false.
Proof. exact run_never_wedged. Qed.
Print Assumptions C13_never_wedged_holds.
Example C13_service_continues_after_failed_commit :
  let r := run_batches code_skeleton (sched_of (FFail 5)) 0 {| w_disk := init_disk []; w_stuck := false |} true [[k1_req]; [k1_req2]] in
  map (fun x => (it_ack x, it_committed x)) (rr_items r) = [(Some false, false); (Some true, true)] /\ w_stuck (rr_state r) = false.
Proof. exact service_continues. Qed.
Print Assumptions C13_service_continues_after_failed_commit.

(* (8) composition C13 x C09 x C18 (model/LogSystem.v, proofs/LogSystemP.v): unbounded histories of batches, every
   fault schedule, every crash followed by a restart; (i) what the log rows do not describe is marked, (ii) the
   final recompute makes the log the recount, (iii) dirty or reported, nothing owed after the final recompute *)
From DV Require Import LogSystem LogSystemP.
Theorem C13_log_system_partial : log_system_statement true.
Proof. exact log_system_partial. Qed.
Print Assumptions C13_log_system_partial.
Theorem C13_log_system_refuted_without_ack : ~ log_system_full.
Proof. exact full_refuted. Qed.
Print Assumptions C13_log_system_refuted_without_ack.
Example C13_log_system_refuted_witness :
  let f := sys_run code_skeleton lost_sched 0 (sys_init d_empty 0) lost_hist in
  ls_out f = [1; 3]%N /\
  owed (ls_tr f) = [k1] /\ existsb l_dirty (log (ls_s f)) = false /\
  owed (snd (sys_quiesce f)) = [k1].
Proof. exact lost_event. Qed.
Print Assumptions C13_log_system_refuted_witness.
Example C13_log_system_nonvacuous :
  let f := sys_run code_skeleton nv_sched 0 (sys_init d_empty 0) nv_hist in
  let q := sys_quiesce f in
  ls_out f = [1; 2; 4; 1]%N /\
  ls_done f = [[MOp (LCreate 7 (Some 1%N) 1 70)]; [MCompute]; [MOp (LCreate 10 (Some 2%N) 1 100); MCompute]] /\
  map (fun r => (lrow_key r, l_dirty r, l_n r)) (log (ls_s f)) = [(k1, false, 1%N); (k2, true, 0%N)] /\
  owed (ls_tr f) = [k2] /\
  map (fun r => (lrow_key r, l_dirty r, l_n r)) (log (fst q)) = [(k1, false, 1%N); (k2, false, 1%N)] /\
  owed (snd q) = [] /\
  snd q = [TW [k1]; TE [k1]; TW [k2]; TE []; TE [k2]].
Proof. exact nonvacuous_run. Qed.
Print Assumptions C13_log_system_nonvacuous.
