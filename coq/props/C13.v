(* C13 — writes are atomic, durable once acknowledged, and leave the log repairable. *)
From DV Require Import Run_C13 C13P.

Theorem C13_skeleton_obligations : sk_ok code_skeleton = true.
Proof. exact code_skeleton_ok. Qed.
Print Assumptions C13_skeleton_obligations.
