(* C04 — Values round-trip unchanged and text is never executed.
   Property theorems only: statement, exact, Print Assumptions.  Proofs: proofs/C04P.v, C04Shape.v, C04Wit.v.
   State: the four classes found on the original tree were repaired in /repo (cdaba75, 936f709, e64e320,
   043e710); every statement below is a _holds statement without a fencing hypothesis. *)
From DV Require Import Codec Sql Run_C04 C04P C04Shape C04Wit.

(* (1) serde_json's string escaping (the _json column) is undone by JSON unescaping, for every text *)
Theorem C04_json_codec : forall s, json_unesc (json_esc s) = Some s.
Proof. exact json_codec. Qed.
Print Assumptions C04_json_codec.

(* (2) the literal decoder (query_language::decode_string_literal, modelled character by character with its
       pending-surrogate state) gives every token sequence the grammars accept the value it denotes *)
Theorem C04_literal_decode_holds : forall ts, forallb wf_tok ts = true -> decode_literal (render ts) = toks_value ts.
Proof. exact literal_decode_holds. Qed.
Print Assumptions C04_literal_decode_holds.

(*     and the tokenizer used to state it inverts the rendering of tokens *)
Theorem C04_lex_render : forall l ts, lex_lit l = Some ts -> render ts = l /\ forallb wf_tok ts = true.
Proof. exact lex_render. Qed.
Print Assumptions C04_lex_render.

(* (3) a String value written as a parameter or as a literal is stored, read back unchanged and found by an
       equality filter with the value as parameter and as literal — for every text *)
Theorem C04_roundtrip_holds : forall h w v,
  intended h w = Some v -> spec_C04 (CStr h w) (run_C04 (CStr h w)) = true.
Proof. exact roundtrip_holds. Qed.
Print Assumptions C04_roundtrip_holds.

(* (4) non-interference: the statement compiled for a query depends neither on the characters of the query's
       String literals nor on the characters of the model's String defaults: all of them reach the engine as
       bound parameters only *)
Theorem C04_nostructure_holds : forall m m' q q',
  same_model_up_to_string_defaults m m' -> same_shape q q' -> sql_text m q = sql_text m' q'.
Proof. exact nostructure. Qed.
Print Assumptions C04_nostructure_holds.

Theorem C04_nostructure_spec : forall m q, spec_C04 (CShape m q) (run_C04 (CShape m q)) = true.
Proof. exact shape_holds. Qed.
Print Assumptions C04_nostructure_spec.

Theorem C04_defaults_holds : forall m q, sql_text m q = sql_text (neutral_model m) q.
Proof. exact defaults_holds. Qed.
Print Assumptions C04_defaults_holds.

(* (5) the former witnesses of the repaired classes now satisfy the oracle (replayed on the real code on every run:
       a regression is reported as a violation with that input) *)
Example C04_literal_backslash_holds : spec_C04 w_K1_literal_backslash (run_C04 w_K1_literal_backslash) = true /\ known_C04 w_K1_literal_backslash = [].
Proof. exact w_K1_literal_backslash_holds. Qed.
Print Assumptions C04_literal_backslash_holds.
Example C04_literal_filter_holds : spec_C04 w_K1_param_backslash (run_C04 w_K1_param_backslash) = true /\ known_C04 w_K1_param_backslash = [].
Proof. exact w_K1_param_backslash_holds. Qed.
Print Assumptions C04_literal_filter_holds.
Example C04_literal_unicode_holds : spec_C04 w_K1_unicode_escape (run_C04 w_K1_unicode_escape) = true /\ known_C04 w_K1_unicode_escape = [].
Proof. exact w_K1_unicode_escape_holds. Qed.
Print Assumptions C04_literal_unicode_holds.
Example C04_surrogate_pair_holds : spec_C04 w_surrogate_pair (run_C04 w_surrogate_pair) = true /\ known_C04 w_surrogate_pair = [].
Proof. exact w_surrogate_pair_holds. Qed.
Print Assumptions C04_surrogate_pair_holds.
Example C04_default_quote_holds : spec_C04 w_K2_default_quote (run_C04 w_K2_default_quote) = true /\ known_C04 w_K2_default_quote = [].
Proof. exact w_K2_default_quote_holds. Qed.
Print Assumptions C04_default_quote_holds.
Example C04_default_injection_holds : spec_C04 w_K2_default_injection (run_C04 w_K2_default_injection) = true /\ known_C04 w_K2_default_injection = [].
Proof. exact w_K2_default_injection_holds. Qed.
Print Assumptions C04_default_injection_holds.
Example C04_capture_holds : spec_C04 w_K3_capture (run_C04 w_K3_capture) = true /\ known_C04 w_K3_capture = [].
Proof. exact w_K3_capture_holds. Qed.
Print Assumptions C04_capture_holds.
Example C04_float_literal_holds : spec_C04 w_K4_float_display (run_C04 w_K4_float_display) = true /\ known_C04 w_K4_float_display = [].
Proof. exact w_K4_float_display_holds. Qed.
Print Assumptions C04_float_literal_holds.

(* (6) integers, floats and booleans: the model says the engine is the identity on them (validated differentially;
       part of the statement that is only observed, see level_note) *)
Theorem C04_scalars_partial : forall c,
  match c with CInt _ _ | CBool _ _ => True | CFlt _ b tb => b = tb | _ => False end ->
  spec_C04 c (run_C04 c) = true.
Proof. exact scalars_spec. Qed.
Print Assumptions C04_scalars_partial.
