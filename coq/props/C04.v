(* C04 — Values round-trip unchanged and text is never executed.
   Property theorems only: statement, exact, Print Assumptions.  Proofs: proofs/C04P.v, C04Shape.v, C04Wit.v. *)
From DV Require Import Codec Sql Run_C04 C04P C04Shape C04Wit.

(* (1) serde_json's string escaping (the _json column) is undone by JSON unescaping, for every text *)
Theorem C04_json_codec : forall s, json_unesc (json_esc s) = Some s.
Proof. exact json_codec. Qed.
Print Assumptions C04_json_codec.

(* (2) what the three copies of the literal decoder do, exactly: on the token sequences the grammars accept,
       the decoded literal is the value the literal denotes if and only if its only escape is the escaped quote *)
Theorem C04_literal_decode_spec : forall ts, forallb wf_tok ts = true ->
  (decode_literal (render ts) = toks_value ts <-> only_quote_escapes ts = true).
Proof. exact literal_decode_spec. Qed.
Print Assumptions C04_literal_decode_spec.

(*     and the tokenizer used to state it inverts the rendering of tokens *)
Theorem C04_lex_render : forall l ts, lex_lit l = Some ts -> render ts = l /\ forallb wf_tok ts = true.
Proof. exact lex_render. Qed.
Print Assumptions C04_lex_render.

(* (3) a String value written as a parameter or as a literal is stored, read back unchanged and found by an
       equality filter with the value as parameter and as literal — for every text, outside class 1 *)
Theorem C04_roundtrip_outside_known : forall h w v,
  intended h w = Some v -> known_C04 (CStr h w) = [] ->
  spec_C04 (CStr h w) (run_C04 (CStr h w)) = true.
Proof. exact roundtrip_outside_known. Qed.
Print Assumptions C04_roundtrip_outside_known.

(* (4) non-interference: the statement compiled for a query does not depend on the characters of its String
       literals (they reach the engine as bound parameters only) — outside class 3 *)
Theorem C04_nostructure : forall m q q',
  same_shape q q' -> k_capture m q = false -> k_capture m q' = false -> sql_text m q = sql_text m q'.
Proof. exact nostructure. Qed.
Print Assumptions C04_nostructure.

Theorem C04_nostructure_spec : forall m q,
  known_C04 (CShape m q) = [] -> spec_C04 (CShape m q) (run_C04 (CShape m q)) = true.
Proof. exact shape_spec. Qed.
Print Assumptions C04_nostructure_spec.

(* (5) closed witnesses of the violations (each replayed on the real code on every run) *)
Example C04_literal_refuted : spec_C04 w_K1_literal_backslash (run_C04 w_K1_literal_backslash) = false /\ known_C04 w_K1_literal_backslash = [1].
Proof. exact w_K1_literal_backslash_refuted. Qed.
Print Assumptions C04_literal_refuted.
Example C04_literal_filter_refuted : spec_C04 w_K1_param_backslash (run_C04 w_K1_param_backslash) = false /\ known_C04 w_K1_param_backslash = [1].
Proof. exact w_K1_param_backslash_refuted. Qed.
Print Assumptions C04_literal_filter_refuted.
Example C04_literal_unicode_refuted : spec_C04 w_K1_unicode_escape (run_C04 w_K1_unicode_escape) = false /\ known_C04 w_K1_unicode_escape = [1].
Proof. exact w_K1_unicode_escape_refuted. Qed.
Print Assumptions C04_literal_unicode_refuted.
Example C04_defaults_refuted : spec_C04 w_K2_default_quote (run_C04 w_K2_default_quote) = false /\ known_C04 w_K2_default_quote = [2].
Proof. exact w_K2_default_quote_refuted. Qed.
Print Assumptions C04_defaults_refuted.
Example C04_defaults_injection_refuted : spec_C04 w_K2_default_injection (run_C04 w_K2_default_injection) = false /\ known_C04 w_K2_default_injection = [2].
Proof. exact w_K2_default_injection_refuted. Qed.
Print Assumptions C04_defaults_injection_refuted.
Example C04_nostructure_refuted : spec_C04 w_K3_capture (run_C04 w_K3_capture) = false /\ known_C04 w_K3_capture = [3].
Proof. exact w_K3_capture_refuted. Qed.
Print Assumptions C04_nostructure_refuted.
Example C04_float_literal_refuted : spec_C04 w_K4_float_display (run_C04 w_K4_float_display) = false /\ known_C04 w_K4_float_display = [4].
Proof. exact w_K4_float_display_refuted. Qed.
Print Assumptions C04_float_literal_refuted.

(* (6) the hypotheses are satisfiable *)
Example C04_roundtrip_nonvacuous : spec_C04 w_ok_escaped_quote (run_C04 w_ok_escaped_quote) = true /\ known_C04 w_ok_escaped_quote = [].
Proof. exact w_ok_escaped_quote_ok. Qed.
Print Assumptions C04_roundtrip_nonvacuous.
Example C04_param_nonvacuous : spec_C04 w_ok_param_sql (run_C04 w_ok_param_sql) = true /\ known_C04 w_ok_param_sql = [].
Proof. exact w_ok_param_sql_ok. Qed.
Print Assumptions C04_param_nonvacuous.
Example C04_nostructure_nonvacuous : spec_C04 w_ok_shape (run_C04 w_ok_shape) = true /\ known_C04 w_ok_shape = [].
Proof. exact w_ok_shape_ok. Qed.
Print Assumptions C04_nostructure_nonvacuous.

(* (7) integers, floats and booleans: the model says the engine is the identity on them (validated differentially;
       part of the statement that is only observed, see level_note) *)
Theorem C04_scalars_partial : forall c,
  match c with CInt _ _ | CBool _ _ => True | CFlt _ b tb de => b = tb /\ de = true | _ => False end ->
  spec_C04 c (run_C04 c) = true.
Proof. exact scalars_spec. Qed.
Print Assumptions C04_scalars_partial.
