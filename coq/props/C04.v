(* C04 — Values round-trip unchanged and text is never executed.
   Property theorems only: statement, exact, Print Assumptions.  Proofs: proofs/C04P.v, C04Shape.v, C04Values.v, C04Wit.v.
   State: the four classes found on the original tree were repaired in /repo (cdaba75, 936f709, e64e320,
   043e710); the statements about String values and the statement text are _holds statements without a fencing
   hypothesis.  One class is open (5: a search() term is handed to FTS5 as a query expression); class 6 (a Json default
   on a row lacking the member returned as a string) was repaired in 6a15d74. *)
From DV Require Import Codec Sql Run_C04 C04P C04Shape C04Values C04Wit.

(* (1) serde_json's string escaping (the _json column) is undone by JSON unescaping, for every text *)
Theorem C04_json_codec : forall s, json_unesc (json_esc s) = Some s.
Proof. exact json_codec. Qed.
Print Assumptions C04_json_codec.

(* (2) the literal decoder (query_language::decode_string_literal, modelled character by character with its
       pending-surrogate state) gives every token sequence the grammars accept the value it denotes *)
Theorem C04_literal_decode_holds : forall ts, forallb wf_tok ts = true -> decode_literal (render ts) = toks_value ts.
Proof. exact literal_decode_holds. Qed.
Print Assumptions C04_literal_decode_holds.

(*     and the tokenizer used to state it inverts the rendering of tokens *)
Theorem C04_lex_render : forall l ts, lex_lit l = Some ts -> render ts = l /\ forallb wf_tok ts = true.
Proof. exact lex_render. Qed.
Print Assumptions C04_lex_render.

(* (3) a String value written as a parameter or as a literal is stored, read back unchanged and found by an
       equality filter with the value as parameter and as literal — for every text *)
Theorem C04_roundtrip_holds : forall h w v,
  intended h w = Some v -> spec_C04 (CStr h w) (run_C04 (CStr h w)) = true.
Proof. exact roundtrip_holds. Qed.
Print Assumptions C04_roundtrip_holds.

(* (4) non-interference: the statement compiled for a query depends neither on the characters of the query's
       String literals nor on the characters of the model's String defaults: all of them reach the engine as
       bound parameters only *)
Theorem C04_nostructure_holds : forall m m' q q',
  same_model_up_to_string_defaults m m' -> same_shape q q' -> sql_text m q = sql_text m' q'.
Proof. exact nostructure. Qed.
Print Assumptions C04_nostructure_holds.

Theorem C04_nostructure_spec : forall m q, spec_C04 (CShape m q) (run_C04 (CShape m q)) = true.
Proof. exact shape_holds. Qed.
Print Assumptions C04_nostructure_spec.

Theorem C04_defaults_holds : forall m q, sql_text m q = sql_text (neutral_model m) q.
Proof. exact defaults_holds. Qed.
Print Assumptions C04_defaults_holds.

(* (5) the former witnesses of the repaired classes now satisfy the oracle (replayed on the real code on every run:
       a regression is reported as a violation with that input) *)
Example C04_literal_backslash_holds : spec_C04 w_K1_literal_backslash (run_C04 w_K1_literal_backslash) = true /\ known_C04 w_K1_literal_backslash = [].
Proof. exact w_K1_literal_backslash_holds. Qed.
Print Assumptions C04_literal_backslash_holds.
Example C04_literal_filter_holds : spec_C04 w_K1_param_backslash (run_C04 w_K1_param_backslash) = true /\ known_C04 w_K1_param_backslash = [].
Proof. exact w_K1_param_backslash_holds. Qed.
Print Assumptions C04_literal_filter_holds.
Example C04_literal_unicode_holds : spec_C04 w_K1_unicode_escape (run_C04 w_K1_unicode_escape) = true /\ known_C04 w_K1_unicode_escape = [].
Proof. exact w_K1_unicode_escape_holds. Qed.
Print Assumptions C04_literal_unicode_holds.
Example C04_surrogate_pair_holds : spec_C04 w_surrogate_pair (run_C04 w_surrogate_pair) = true /\ known_C04 w_surrogate_pair = [].
Proof. exact w_surrogate_pair_holds. Qed.
Print Assumptions C04_surrogate_pair_holds.
Example C04_default_quote_holds : spec_C04 w_K2_default_quote (run_C04 w_K2_default_quote) = true /\ known_C04 w_K2_default_quote = [].
Proof. exact w_K2_default_quote_holds. Qed.
Print Assumptions C04_default_quote_holds.
Example C04_default_injection_holds : spec_C04 w_K2_default_injection (run_C04 w_K2_default_injection) = true /\ known_C04 w_K2_default_injection = [].
Proof. exact w_K2_default_injection_holds. Qed.
Print Assumptions C04_default_injection_holds.
Example C04_capture_holds : spec_C04 w_K3_capture (run_C04 w_K3_capture) = true /\ known_C04 w_K3_capture = [].
Proof. exact w_K3_capture_holds. Qed.
Print Assumptions C04_capture_holds.
Example C04_float_literal_holds : spec_C04 w_K4_float_display (run_C04 w_K4_float_display) = true /\ known_C04 w_K4_float_display = [].
Proof. exact w_K4_float_display_holds. Qed.
Print Assumptions C04_float_literal_holds.

(* (6) integers, floats and booleans: the model says the engine is the identity on them (validated differentially;
       part of the statement that is only observed, see level_note) *)
Theorem C04_scalars_partial : forall c,
  match c with CInt _ _ | CBool _ _ => True | CFlt _ b tb => b = tb | _ => False end ->
  spec_C04 c (run_C04 c) = true.
Proof. exact scalars_spec. Qed.
Print Assumptions C04_scalars_partial.

(* (7) Json and Base64 fields.  The model of a write is obj_insert on the row object (get_mutate_query: obj.insert):
       the member assigned is replaced by exactly the assigned value - nothing of the value stored before survives,
       whatever both values are - and every other member is untouched *)
Theorem C04_write_replaces : forall k v o, obj_lookup k (obj_insert k v o) = Some v.
Proof. exact obj_lookup_insert_same. Qed.
Print Assumptions C04_write_replaces.
Theorem C04_write_frame : forall k k' v o, str_eqb k k' = false -> obj_lookup k' (obj_insert k v o) = obj_lookup k' o.
Proof. exact obj_lookup_insert_other. Qed.
Print Assumptions C04_write_frame.
(*     for every Json value v, every value prev held before (or none: create), parameter or literal, nullable field
       or not: what is read back is v (compared as a value, members by name), the neighbour field is unchanged;
       null on a field that is not nullable is refused *)
Theorem C04_json_roundtrip_holds : forall h upd nf prev v,
  spec_C04 (CJson h upd nf prev v) (run_C04 (CJson h upd nf prev v)) = true.
Proof. exact json_roundtrip_holds. Qed.
Print Assumptions C04_json_roundtrip_holds.
(*     Base64: a text the decoder accepts (URL-safe alphabet, no padding, canonical trailing bits) is read back
       unchanged; any other text is refused and nothing is written *)
Theorem C04_base64_holds : forall h upd w, spec_C04 (CB64 h upd w) (run_C04 (CB64 h upd w)) = true.
Proof. exact b64_holds. Qed.
Print Assumptions C04_base64_holds.
Example C04_json_object_over_object_holds : spec_C04 w_json_object_over_object (run_C04 w_json_object_over_object) = true /\ known_C04 w_json_object_over_object = [].
Proof. exact w_json_object_over_object_holds. Qed.
Print Assumptions C04_json_object_over_object_holds.
Example C04_json_null_member_holds : spec_C04 w_json_null_member (run_C04 w_json_null_member) = true /\ known_C04 w_json_null_member = [].
Proof. exact w_json_null_member_holds. Qed.
Print Assumptions C04_json_null_member_holds.
Example C04_json_null_over_object_holds : spec_C04 w_json_null_over_object (run_C04 w_json_null_over_object) = true /\ known_C04 w_json_null_over_object = [].
Proof. exact w_json_null_over_object_holds. Qed.
Print Assumptions C04_json_null_over_object_holds.

(* (8) identifiers.  From the grammar (identifier = (LETTER | NUMBER | _)+, not starting with _): no quote, space or
       SQL punctuation can occur in an alias, so a quoted alias is exactly one token of the statement *)
Theorem C04_ident_no_special : forall a c, ident_ok a = true -> In c a ->
  c <> 34%N /\ c <> 39%N /\ c <> 32%N /\ c <> 59%N /\ c <> 45%N /\ c <> 40%N /\ c <> 41%N /\ c <> 92%N.
Proof. exact ident_no_special. Qed.
Print Assumptions C04_ident_no_special.
Theorem C04_quoted_ident_token : forall a rest, ident_ok a = true -> (forall c t, rest = c :: t -> c <> 34%N) ->
  skeleton2 (quoted a ++ rest) 0 = 34%N :: 34%N :: skeleton2 rest 0.
Proof. exact quoted_ident_token. Qed.
Print Assumptions C04_quoted_ident_token.
Example C04_alias_dquote_holds : spec_C04 w_alias_dquote (run_C04 w_alias_dquote) = true /\ known_C04 w_alias_dquote = [].
Proof. exact w_alias_dquote_holds. Qed.
Print Assumptions C04_alias_dquote_holds.
Example C04_alias_keyword_holds : spec_C04 w_alias_keyword (run_C04 w_alias_keyword) = true /\ known_C04 w_alias_keyword = [].
Proof. exact w_alias_keyword_holds. Qed.
Print Assumptions C04_alias_keyword_holds.

(* (9) search terms: a bound parameter (the statement does not depend on it), but FTS5 reads the value as a query
       expression: class 5 (open).  Outside the class (terms made of plain words) the term is accepted *)
Example C04_search_refuted : spec_C04 w_K5_search_quote (run_C04 w_K5_search_quote) = false /\ known_C04 w_K5_search_quote = [5].
Proof. exact w_K5_search_quote_refuted. Qed.
Print Assumptions C04_search_refuted.
Example C04_search_column_refuted : spec_C04 w_K5_search_column (run_C04 w_K5_search_column) = false /\ known_C04 w_K5_search_column = [5].
Proof. exact w_K5_search_column_refuted. Qed.
Print Assumptions C04_search_column_refuted.
Theorem C04_search_outside_known : forall t acc, known_C04 (CSearch t acc) = [] ->
  spec_C04 (CSearch t acc) (run_C04 (CSearch t acc)) = true.
Proof. exact search_outside_known. Qed.
Print Assumptions C04_search_outside_known.
Example C04_search_nonvacuous : spec_C04 w_search_plain (run_C04 w_search_plain) = true /\ known_C04 w_search_plain = [].
Proof. exact w_search_plain_holds. Qed.
Print Assumptions C04_search_nonvacuous.

(* (10) the default of a Json field on a row that lacks the member comes back as the JSON value (class 6, repaired in
        6a15d74; the former witness is replayed on the real code on every run) *)
Theorem C04_json_default_holds : forall txt d, spec_C04 (CJsonDefault txt d) (run_C04 (CJsonDefault txt d)) = true.
Proof. exact json_default_holds. Qed.
Print Assumptions C04_json_default_holds.
Example C04_json_default_witness_holds : spec_C04 w_K6_json_default (run_C04 w_K6_json_default) = true /\ known_C04 w_K6_json_default = [].
Proof. exact w_K6_json_default_holds. Qed.
Print Assumptions C04_json_default_witness_holds.

(* (11) updates of an existing value: the stored value after an update is the assigned one whatever was stored (values one
        apart above 2^53, floats one ulp apart, strings differing in a trailing blank / case / normalisation, booleans,
        numbers inside Json that differ as text only); the model has no state in which a write is not carried out *)
Theorem C04_update_independent_of_old : forall h ty old old' new, run_C04 (CUpd h ty old new) = run_C04 (CUpd h ty old' new).
Proof. exact upd_independent_of_old. Qed.
Print Assumptions C04_update_independent_of_old.
Theorem C04_update_holds : forall h ty old new, spec_C04 (CUpd h ty old new) (run_C04 (CUpd h ty old new)) = true.
Proof. exact upd_holds. Qed.
Print Assumptions C04_update_holds.
Example C04_update_above_2p53_holds : spec_C04 w_upd_2p53 (run_C04 w_upd_2p53) = true /\ known_C04 w_upd_2p53 = [].
Proof. exact w_upd_2p53_holds. Qed.
Print Assumptions C04_update_above_2p53_holds.

(* (12) the service is stateless with respect to request texts: the value a request writes, or filters on, is the value
        its own literal denotes (line breaks and blanks inside a literal included), not that of an earlier request *)
Theorem C04_service_stateless : forall pre l post, nth (List.length pre) (svc_values (pre ++ l :: post)) [] = decode_literal l.
Proof. exact svc_stateless. Qed.
Print Assumptions C04_service_stateless.
Theorem C04_service_holds : forall lits, spec_C04 (CSvc lits) (run_C04 (CSvc lits)) = true.
Proof. exact svc_holds. Qed.
Print Assumptions C04_service_holds.
Example C04_service_multiline_holds : spec_C04 w_svc_multiline (run_C04 w_svc_multiline) = true /\ known_C04 w_svc_multiline = [].
Proof. exact w_svc_multiline_holds. Qed.
Print Assumptions C04_service_multiline_holds.
