(* C05 — Query results equal a direct evaluation of the query over the data (tier T1: one entity, scalar
   fields with defaults / nullable, filters, order_by, first / skip, before / after).
   Property theorems only: statement, exact, Print Assumptions.  Proofs: proofs/C05*.v. *)
From DV Require Import Eval Sql Nested Agg Run_C05 C05Sort C05Order C05Sql C05P C05Pages C05Codec C05Wit C05Nested C05Top C05Agg.

(* (1) the default-aware filter form emitted by get_where_filters,
       CASE WHEN default op v THEN f op v OR f IS NULL ELSE f op v END,
       selects exactly like coalesce(f, default) op v — all six operators, v NULL included *)
Theorem C05_default_filter_equiv : forall binds r out d op x v,
  sx_eval binds r out d <> SNull ->
  is_true (filter_eval binds r out (FCase d (SCmp op) x v)) =
  is_true (sop_eval (SCmp op) (coalesce (sx_eval binds r out x) (sx_eval binds r out d)) (sx_eval binds r out v)).
Proof. exact default_filter_equiv. Qed.
Print Assumptions C05_default_filter_equiv.

(* (2) the disjunction emitted by get_paging is the strict lexicographic "beyond the cursor" relation for the
       directions of the order keys (three-valued logic, NULLs included) ... *)
Theorem C05_paging_lex : forall before todo vo vo' ds,
  compile_disjs before vo [] todo = (vo', ds) ->
  forall vf ps binds, pfx vo' vf -> bind vf ps = Some binds ->
    forall r out kval ct,
      (forall k, scanon (sx_eval binds r out (ref_sx (ok_ref k))) = vcanon (kval k)) ->
      Forall2 (fun (ko : okey * operand) c => operand_value ps (snd ko) = Some c) todo ct ->
      is_true (fold_right (fun d acc => tv_or (disj_eval binds r out d) acc) (Some false) ds) =
      vlex before (trip kval todo ct).
Proof. exact paging_lex. Qed.
Print Assumptions C05_paging_lex.

(*     ... and that relation is "strictly after / before the cursor" in the reference order when no key and
       no cursor value is null *)
Theorem C05_paging_lex_order : forall before ds ks cs,
  (forall d k c, In (d, k, c) (combine (combine ds ks) cs) -> k <> VNull /\ c <> VNull) ->
  vlex before (combine (combine ds ks) cs) = match lex_cmp ds ks cs with Gt => negb before | Lt => before | Eq => false end.
Proof. exact paging_lex_order. Qed.
Print Assumptions C05_paging_lex_order.

(* (3) T1: for every model, every stored data set, every query and parameters the parser accepts, outside the
       classes that are still open (1 paging over null keys, 2 raw order key, 3 Boolean default, 6 null variable,
       7 first $n = 0 — nothing else: skip without first, variables named like literals and quotes in defaults
       were repaired in /repo and are covered): binding the parameters and running the compiled statement gives exactly the direct
       evaluation of the query (no bound on rows, fields, filters, keys) *)
Theorem C05_T1_outside_known : forall m rows q ps,
  wf_query m q = true -> params_ok q ps = true -> known_query m rows q ps = [] ->
  run_query m rows q ps = eval m rows q ps.
Proof. exact T1_outside_known. Qed.
Print Assumptions C05_T1_outside_known.

(*     the same, about the functions the harness evaluates *)
Theorem C05_T1_spec : forall m rows q ps,
  wf_query m q = true -> params_ok q ps = true -> known_C05 (CQuery m rows q ps) = [] ->
  spec_C05 (CQuery m rows q ps) (run_C05 (CQuery m rows q ps)) = true.
Proof. exact T1_spec. Qed.
Print Assumptions C05_T1_spec.

(* (4) paging with first n + after(keys of the last row): outside the listed classes — in particular when the
       key tuple is unique and never null on the matching rows — the client ends on an empty page and the
       pages, one after the other, are the whole ordered result: every matching row exactly once *)
Theorem C05_paging_outside_known : forall m rows q ps n fuel,
  wf_pages m q ps = true -> 0 < n -> (List.length rows < fuel)%nat ->
  known_C05 (CPages m rows q ps n fuel) = [] ->
  exists pgs full, pages (run_query m rows) q ps n fuel None = (0, pgs) /\ eval m rows q ps = Some full /\ List.concat pgs = full.
Proof. exact paging_exactly_once. Qed.
Print Assumptions C05_paging_outside_known.

Theorem C05_paging_spec : forall m rows q ps n fuel,
  wf_pages m q ps = true -> 0 < n -> (List.length rows < fuel)%nat ->
  known_C05 (CPages m rows q ps n fuel) = [] ->
  spec_C05 (CPages m rows q ps n fuel) (run_C05 (CPages m rows q ps n fuel)) = true.
Proof. exact paging_spec. Qed.
Print Assumptions C05_paging_spec.

(* (5) the property as stated (ties and nulls allowed, no side conditions) does not hold of the faithful model *)
Theorem C05_full_refuted : ~ C05_full.
Proof. exact full_refuted. Qed.
Print Assumptions C05_full_refuted.

(*     one closed witness per class; each is also replayed against the real code on every run *)
Example C05_paging_refuted_ties : spec_C05 w_K1_ties (run_C05 w_K1_ties) = false /\ known_C05 w_K1_ties = [1].
Proof. exact w_K1_ties_refuted. Qed.
Print Assumptions C05_paging_refuted_ties.
Example C05_paging_refuted_null_key : spec_C05 w_K1_null_key (run_C05 w_K1_null_key) = false /\ known_C05 w_K1_null_key = [1].
Proof. exact w_K1_null_key_refuted. Qed.
Print Assumptions C05_paging_refuted_null_key.
Example C05_after_refuted_null_key : spec_C05 w_K1_null_key_single (run_C05 w_K1_null_key_single) = false /\ known_C05 w_K1_null_key_single = [1].
Proof. exact w_K1_null_key_single_refuted. Qed.
Print Assumptions C05_after_refuted_null_key.
Example C05_order_raw_key_refuted : spec_C05 w_K2_raw_order_key (run_C05 w_K2_raw_order_key) = false /\ known_C05 w_K2_raw_order_key = [2].
Proof. exact w_K2_raw_order_key_refuted. Qed.
Print Assumptions C05_order_raw_key_refuted.
Example C05_bool_default_refuted : spec_C05 w_K3_bool_default (run_C05 w_K3_bool_default) = false /\ known_C05 w_K3_bool_default = [3].
Proof. exact w_K3_bool_default_refuted. Qed.
Print Assumptions C05_bool_default_refuted.
Example C05_null_variable_refuted : spec_C05 w_K6_eq (run_C05 w_K6_eq) = false /\ known_C05 w_K6_eq = [6].
Proof. exact w_K6_eq_refuted. Qed.
Print Assumptions C05_null_variable_refuted.
Example C05_first_zero_refuted : spec_C05 w_K7_first_zero (run_C05 w_K7_first_zero) = false /\ known_C05 w_K7_first_zero = [7].
Proof. exact w_K7_first_zero_refuted. Qed.
Print Assumptions C05_first_zero_refuted.
(* (6) the classes repaired in /repo (43340e7 skip without first, e64e320 variable named like a literal,
       936f709 quote in a String default): their former witnesses now satisfy the oracle and lie in no class;
       the general statement for them is (3), which no longer excludes them *)
Theorem C05_variable_slot_holds : forall vo n vo' i, add_param vo n false = (vo', i) ->
  forall vf ps binds v, pfx vo' vf -> bind vf ps = Some binds -> lookup n ps = Some v ->
  nth (pred i) binds SNull = to_sql v.
Proof. exact variable_slot_holds. Qed.
Print Assumptions C05_variable_slot_holds.
Theorem C05_offset_needs_limit_holds : forall vo q vo' lim off, compile_limit vo q = (vo', lim, off) -> off <> None -> lim <> None.
Proof. exact offset_needs_limit_holds. Qed.
Print Assumptions C05_offset_needs_limit_holds.
Theorem C05_filter_default_bound_holds : forall vo d vo' dx, default_sx vo d = (vo', dx) ->
  forall vf ps binds r out, pfx vo' vf -> bind vf ps = Some binds -> scanon (sx_eval binds r out dx) = vcanon d.
Proof. exact filter_default_bound_holds. Qed.
Print Assumptions C05_filter_default_bound_holds.
Example C05_skip_alone_holds : spec_C05 w_K4_skip_alone (run_C05 w_K4_skip_alone) = true /\ known_C05 w_K4_skip_alone = [].
Proof. exact w_K4_skip_alone_holds. Qed.
Print Assumptions C05_skip_alone_holds.
Example C05_variable_capture_holds : spec_C05 w_K5_literal (run_C05 w_K5_literal) = true /\ known_C05 w_K5_literal = [].
Proof. exact w_K5_literal_holds. Qed.
Print Assumptions C05_variable_capture_holds.
Example C05_variable_capture_default_holds : spec_C05 w_K5_default (run_C05 w_K5_default) = true /\ known_C05 w_K5_default = [].
Proof. exact w_K5_default_holds. Qed.
Print Assumptions C05_variable_capture_default_holds.
Example C05_spliced_default_holds : spec_C05 w_K8_quote (run_C05 w_K8_quote) = true /\ known_C05 w_K8_quote = [].
Proof. exact w_K8_quote_holds. Qed.
Print Assumptions C05_spliced_default_holds.

(* the hypotheses of (3) and (4) are satisfiable: an ordered query over six rows, and paging through it *)
Example C05_T1_nonvacuous : spec_C05 w_baseline (run_C05 w_baseline) = true /\ known_C05 w_baseline = [] /\ wf_C05 w_baseline = [1; 1].
Proof. exact w_baseline_ok. Qed.
Print Assumptions C05_T1_nonvacuous.
Example C05_paging_nonvacuous : spec_C05 w_pages_unique (run_C05 w_pages_unique) = true /\ known_C05 w_pages_unique = [] /\ wf_C05 w_pages_unique = [1; 1].
Proof. exact w_pages_unique_ok. Qed.
Print Assumptions C05_paging_nonvacuous.

(* (7) tier T2, first slice: nested entity / array references, any depth (in a selection the scalar fields come
       first, then the references).  For every nested query, every forest of rows and parameters the parser
       accepts, outside the open classes taken level by level: binding the single parameter list and running the
       compiled statement (select-list sub-queries and EXISTS sub-queries evaluated separately, each with the
       limit the code gives it) is the reference evaluation, in which a row is returned iff every selected
       reference that is not nullable has a non-empty nested result under the nested query's own
       filters / order / first / skip *)
Theorem C05_T2_outside_known : forall Q nodes ps,
  q2_ok Q ps = true -> known_nested Q nodes ps = [] -> run_query2 Q nodes ps = Some (eval2 Q ps nodes).
Proof. exact T2_outside_known. Qed.
Print Assumptions C05_T2_outside_known.

Theorem C05_T2_spec : forall Q nodes ps,
  q2_ok Q ps = true -> known_C05 (CNested Q nodes ps) = [] ->
  spec_C05 (CNested Q nodes ps) (run_C05 (CNested Q nodes ps)) = true.
Proof. exact T2_spec. Qed.
Print Assumptions C05_T2_spec.

(*     EXISTS <=> the nested result under the same limits is not empty, on the compiled statement *)
Theorem C05_T2_exists_same_limits : forall ps subs vo vo' cs,
  chain_ex F_ex subs vo vo' cs ->
  forall vf binds nd, pfx vo' vf -> bind vf ps = Some binds ->
  (forall p, In p subs -> q2_ok (snd p) ps = true /\ known_nested (snd p) (children nd (fst p)) ps = []) ->
  forallb (fun sc : subinfo * cq2 => negb (is_nil (run_nodes (snd sc) binds (children nd (fst sc))))) cs =
  forallb (fun p : subinfo * q2 => si_nullable (fst p) || negb (is_nil (eval_nodes (snd p) ps (negb (si_array (fst p))) (children nd (fst p))))) subs.
Proof. exact T2_exists_same_limits. Qed.
Print Assumptions C05_T2_exists_same_limits.

(*     directed cases, among them the one where a parent has fewer children than the nested `skip` *)
Example C05_T2_exists_skip_ok : spec_C05 w_nested_exists_skip (run_C05 w_nested_exists_skip) = true /\ known_C05 w_nested_exists_skip = [] /\ wf_C05 w_nested_exists_skip = [1; 1].
Proof. exact w_nested_exists_skip_ok. Qed.
Print Assumptions C05_T2_exists_skip_ok.
Example C05_T2_two_levels_ok : spec_C05 w_nested_two_levels (run_C05 w_nested_two_levels) = true /\ known_C05 w_nested_two_levels = [] /\ wf_C05 w_nested_two_levels = [1; 1].
Proof. exact w_nested_two_levels_ok. Qed.
Print Assumptions C05_T2_two_levels_ok.
Example C05_T2_entity_ref_ok : spec_C05 w_nested_entity_ref (run_C05 w_nested_entity_ref) = true /\ known_C05 w_nested_entity_ref = [] /\ wf_C05 w_nested_entity_ref = [1; 1].
Proof. exact w_nested_entity_ref_ok. Qed.
Print Assumptions C05_T2_entity_ref_ok.

(* ---- tier T3, first slice: aggregate queries and json selectors, at the level of results ----
   agg_impl = what query.rs computes (SQL aggregates over the SQL value of the member, NULL left out), agg_spec = the
   aggregates of the values.  Classes 9 (min / max compared JSON texts) and 10 (avg counted absent values as 0) were
   repaired in /repo (b717988): the statements below carry no exclusion. *)
Theorem C05_T3_agg_holds : forall g a, agg_impl g a = agg_spec g a.
Proof. exact agg_holds. Qed.
Print Assumptions C05_T3_agg_holds.
(*     the whole answer (groups, having, order, first / skip) is the direct evaluation *)
Theorem C05_T3_holds : forall rows q, eval_agg agg_impl rows q = eval_agg agg_spec rows q.
Proof. exact T3_holds. Qed.
Print Assumptions C05_T3_holds.
Theorem C05_T3_spec : forall rows q, spec_C05 (CAgg rows q) (run_C05 (CAgg rows q)) = true.
Proof. exact T3_spec. Qed.
Print Assumptions C05_T3_spec.
(*     the former witnesses of classes 9 and 10 satisfy the oracle (replayed on the real code on every run) *)
Example C05_T3_minmax_holds : spec_C05 w_K9_minmax (run_C05 w_K9_minmax) = true /\ known_C05 w_K9_minmax = [].
Proof. exact w_K9_minmax_holds. Qed.
Print Assumptions C05_T3_minmax_holds.
Example C05_T3_avg_holds : spec_C05 w_K10_avg (run_C05 w_K10_avg) = true /\ known_C05 w_K10_avg = [].
Proof. exact w_K10_avg_holds. Qed.
Print Assumptions C05_T3_avg_holds.
Example C05_T3_having_ok : spec_C05 w_agg_having (run_C05 w_agg_having) = true /\ known_C05 w_agg_having = [] /\ wf_C05 w_agg_having = [1; 1].
Proof. exact w_agg_having_ok. Qed.
Print Assumptions C05_T3_having_ok.
Example C05_T3_no_row_ok : spec_C05 w_agg_no_row (run_C05 w_agg_no_row) = true /\ known_C05 w_agg_no_row = [] /\ wf_C05 w_agg_no_row = [1; 1].
Proof. exact w_agg_no_row_ok. Qed.
Print Assumptions C05_T3_no_row_ok.
Example C05_T3_order_name_ok : spec_C05 w_agg_order_name (run_C05 w_agg_order_name) = true /\ known_C05 w_agg_order_name = [] /\ wf_C05 w_agg_order_name = [1; 1].
Proof. exact w_agg_order_name_ok. Qed.
Print Assumptions C05_T3_order_name_ok.
(*     json selectors: the model of the implementation IS the reference evaluator (no independent model of the SQL at
       this tier): the statement is tied to the code by the differential runs only *)
Theorem C05_T3_jsel_partial : forall docs sels fs, spec_C05 (CJsel docs sels fs) (run_C05 (CJsel docs sels fs)) = true.
Proof. exact T3_jsel_partial. Qed.
Print Assumptions C05_T3_jsel_partial.
Example C05_T3_jsel_ok : spec_C05 w_jsel (run_C05 w_jsel) = true /\ known_C05 w_jsel = [] /\ wf_C05 w_jsel = [1; 1].
Proof. exact w_jsel_ok. Qed.
Print Assumptions C05_T3_jsel_ok.
(* ---- an order key named by the field's own name while the field is selected under an alias only (T1) ---- *)
Example C05_order_name_aliased_ok : spec_C05 w_order_name_aliased (run_C05 w_order_name_aliased) = true /\ known_C05 w_order_name_aliased = [] /\ wf_C05 w_order_name_aliased = [1; 1].
Proof. exact w_order_name_aliased_ok. Qed.
Print Assumptions C05_order_name_aliased_ok.
Example C05_pages_name_aliased_ok : spec_C05 w_pages_name_aliased (run_C05 w_pages_name_aliased) = true /\ known_C05 w_pages_name_aliased = [] /\ wf_C05 w_pages_name_aliased = [1; 1].
Proof. exact w_pages_name_aliased_ok. Qed.
Print Assumptions C05_pages_name_aliased_ok.
