(* C07 — A room definition accepted from a peer only adds entitled entries.
   Property theorems only: statement, exact, Print Assumptions.  Proofs: proofs/C07P.v, proofs/RoomNodeP.v,
   proofs/RightsP.v.  The functions are those evaluated by the harness (model/RoomNode.v, run/Run_C07.v).
   Signatures are symbolic: the [author] of a row / reference is the key its signature verifies under
   (the harness submits only candidates on which the real room_check succeeds). *)
From DV Require Import RightsSpec RightsP RoomNode RoomNodeP Run_C07 C07P.

(* the full statement, on what the model says the implementation observes; it is REFUTED on the
   current tree by the witnesses of the open classes 1, 2 and 5 below.  What holds for every input is (1)-(4). *)
Definition C07_full : Prop := forall c, spec_C07 c (run_C07 c) = true.

(* (1) monotone, for every room held and every candidate: an accepted update never removes or alters a
   stored entry, group row or reference, each stays in its list (first conjunct of the oracle) *)
Theorem C07_update_monotone : forall r old cand b res,
  prepare_room_with_history r old cand = POk (b, res) ->
  monotone (sents_of old) (sents_of res) (sedges_of old) (sedges_of res) = true.
Proof. exact update_monotone. Qed.
Print Assumptions C07_update_monotone.

(* (2) entitlement in the update path, for every room held ([evs] = the history the room in memory
   represents) and every candidate: administrator entries with a new id justify one another in date
   order; in the groups the peer holds, user-admin and right entries with a new id are authored by
   administrators of that extended history, user entries by a user admin of the group or an
   administrator; of a group new to the peer (former class 3, repaired by 85b1827, now at full
   strength): the row, its rights and its user-admin entries by administrators, its users by a user
   admin of the group or an administrator; the resulting room decides exactly what the rows kept
   grant.  Outside the open class 1 (the SIGNER of a placing reference is not looked at) this is the
   property; the former gap between "new id" and "new row" is closed by (2b). *)
Theorem C07_update_entitled_outside_known : forall evs r old cand b res,
  Rep evs r -> NoDup (map an_id (rmn_gnodes old)) ->
  prepare_room_with_history r old cand = POk (b, res) ->
  let evs1 := evs ++ new_admin_events (rmn_anodes old) (rmn_anodes res) in
  justified_admins evs (rmn_anodes old) (rmn_anodes res) /\
  (exists r1, Rep evs1 r1 /\
     forall o, In o (rmn_gnodes old) -> find_auth r1 (an_id o) <> None -> has_entitled evs1 r1 o (rmn_gnodes res)) /\
  Forall (fun g => existsb (fun o => N.eqb (an_id o) (an_id g)) (rmn_gnodes old) = false ->
                   new_group_entitled_upd evs1 g) (rmn_gnodes res) /\
  exists r', parse_room res = POk r' /\ forall probes, decisions r' probes = flat_map (decide_spec (evs_of_node res)) probes.
Proof. exact update_entitled. Qed.
Print Assumptions C07_update_entitled_outside_known.

(* (2b) former class 4 and the closed part of class 1, at full strength (cd32c02): whatever candidate
   passes check_consistency - the first thing prepare_room_node does on either path - has, in every
   list, each id once and every row referenced from that list under the list's field name; hence
   "new id" in (2) means "new row", no row rides on another row's id or without a reference *)
Theorem C07_consistent_placed_holds : forall n,
  check_consistency n = POk tt ->
  NoDup (map un_id (rmn_anodes n)) /\ referenced (rmn_aedges n) L_ADMIN (map un_id (rmn_anodes n)) /\
  NoDup (map an_id (rmn_gnodes n)) /\ referenced (rmn_gedges n) L_AUTHS (map an_id (rmn_gnodes n)) /\
  forall g, In g (rmn_gnodes n) -> auth_placed g.
Proof. exact consistent_placed. Qed.
Print Assumptions C07_consistent_placed_holds.

(* (3) a room never seen before: the accepted room is the strict replay of its rows, every row's author
   is an administrator OF THAT HISTORY at the row's date, the room decides what the rows grant.
   Partial with respect to the property: the administrator entries are judged against the whole parsed
   history, themselves included (class 2), and references are not looked at (class 1). *)
Theorem C07_new_room_entitled_partial : forall n,
  prepare_new_room n = POk tt ->
  exists r, parse_room n = POk r /\ Rep (evs_of_node n) r /\
    Forall (fun x => admin_at (evs_of_node n) (un_author x) (un_date x) = true) (rmn_anodes n) /\
    Forall (new_group_entitled (evs_of_node n)) (rmn_gnodes n) /\
    forall probes, decisions r probes = flat_map (decide_spec (evs_of_node n)) probes.
Proof. exact new_room_entitled. Qed.
Print Assumptions C07_new_room_entitled_partial.

(* (4) whatever definition is accepted, by either path: the room put in memory (RoomNode::parse of the
   merged definition) decides exactly what the rows of that definition grant *)
Theorem C07_accepted_room_is_its_rows : forall n r probes,
  parse_room n = POk r -> decisions r probes = flat_map (decide_spec (evs_of_node n)) probes.
Proof. exact parse_room_decisions. Qed.
Print Assumptions C07_accepted_room_is_its_rows.

(* (5) closed witnesses, one per open known-finding class: the candidate is accepted, lies in exactly that
   class, and the oracle fails on what the model says the implementation does; the harness replays
   each on the real code (prepare_room_node directly and add_room_node on a real instance) *)
Theorem C07_refuted_1 : accepted_and_fails wk1 1.
Proof. exact refuted_k1. Qed.
Print Assumptions C07_refuted_1.
Theorem C07_refuted_2 : accepted_and_fails wk2 2.
Proof. exact refuted_k2. Qed.
Print Assumptions C07_refuted_2.
(* class 5 (same-date tie): "key 5 administrator" signed by key 2 at the very date key 2 is revoked, listed
   before the revocation, is accepted; listed after it, or dated later in either order, it is refused *)
Theorem C07_refuted_5 : accepted_and_fails wk5 5 /\ run_C07 wk5' = [151] /\ run_C07 wk5l = [151] /\ known_C07 wk5l = [].
Proof. exact refuted_k5. Qed.
Print Assumptions C07_refuted_5.
(* the witness of the repaired class 3 is refused now and the oracle holds on it *)
Theorem C07_class3_witness_holds : known_C07 wk3 = [] /\ run_C07 wk3 = [141] /\ spec_C07 wk3 (run_C07 wk3) = true.
Proof. exact repaired_k3. Qed.
Print Assumptions C07_class3_witness_holds.
(* the witness of the repaired class 4 (cd32c02) is refused now and the oracle holds on it; so are the
   variants of the former class 1 that the same commit closes (reference of another field, no reference) *)
Theorem C07_class4_witness_holds : known_C07 wk4 = [] /\ run_C07 wk4 = [170] /\ spec_C07 wk4 (run_C07 wk4) = true.
Proof. exact repaired_k4. Qed.
Print Assumptions C07_class4_witness_holds.
Theorem C07_class1_closed_variants_hold :
  known_C07 wk1b = [] /\ run_C07 wk1b = [171] /\ spec_C07 wk1b (run_C07 wk1b) = true /\
  known_C07 wk1c = [] /\ run_C07 wk1c = [171] /\ spec_C07 wk1c (run_C07 wk1c) = true.
Proof. exact repaired_k1_variants. Qed.
Print Assumptions C07_class1_closed_variants_hold.
(* key 3, a plain user before, is administrator after the class 1 and class 2 candidates; the former
   class 3 and class 4 candidates are refused *)
Theorem C07_attacker_gains :
  admin_after wk0 3%N 6000 = Some false /\
  admin_after wk1 3%N 6000 = Some true /\ admin_after wk2 3%N 6000 = Some true /\ admin_after wk4 3%N 6000 = None /\
  uadmin_after wk0 3%N 6000 = Some false /\ uadmin_after wk3 3%N 6000 = None.
Proof. exact attacker_gains. Qed.
Print Assumptions C07_attacker_gains.

Example C07_nonvacuous :
  known_C07 wk0 = [] /\ hd 0 (run_C07 wk0) = 1 /\ spec_C07 wk0 (run_C07 wk0) = true /\
  known_C07 wk0' = [] /\ hd 0 (run_C07 wk0') = 1 /\ spec_C07 wk0' (run_C07 wk0') = true.
Proof. exact nonvacuous_k0. Qed.
Print Assumptions C07_nonvacuous.
