(* C02 — Rows received from peers are stored only if their author had the right.
   Property theorems only: statement, exact, Print Assumptions.  Proofs: proofs/C02P.v
   (model: model/AuthzRemote.v; oracle and entry points: run/Run_C02.v). *)
From DV Require Import RightsP Run_C01 C01P Run_C02 C02P.

(* The full statement, for a receiver with room definitions `defs`, data model `dm`, tables `st`
   and ANY sequence of ingestion calls: the oracle (Run_C02.viol_steps: every row, reference or
   tombstone that appears is validly signed, belongs to the room, conforms to the data model and
   its author is granted the needed right at the row's own date by the room history — in the room
   left as well, all-rows right when another author's row is replaced or removed; nothing else
   changes; a failed call changes nothing) finds no violation. *)
Definition C02_full : Prop := forall defs dm ss st,
  ids_unique st ->
  viol_steps defs dm st ss (observed (run_steps (build_rooms defs) dm st ss)) = [].

(* The current code still violates it in three delimited ways (closed witnesses; the same
   scenarios are replayed against the real code by the harness as directed cases 1, 3, 4):
   1 the tombstone of a stored reference whose source row is not in the tombstone's room,
   3 a row replaced by a row of another entity, 4 another author's reference replaced without the
   all-rows right *)
Theorem C02_refuted :
  violations w_K1b (run_C02 w_K1b) = [1] /\ violations w_K3 (run_C02 w_K3) = [3] /\
  violations w_K4 (run_C02 w_K4) = [4].
Proof. exact witnesses. Qed.
Print Assumptions C02_refuted.

Theorem C02_refuted_in_known_classes :
  known_C02 w_K1b = [1] /\ known_C02 w_K3 = [3] /\ known_C02 w_K4 = [4].
Proof. exact witness_classes. Qed.
Print Assumptions C02_refuted_in_known_classes.

(* The defects repaired by the fix commits a9c9d9e (reference on a row of another room), 8ef09c7
   (tombstone naming another entity) and 95fc165 (row without JSON content): their witnesses are
   now refused, leave no trace and satisfy the oracle (harness directed cases 0, 2, 5) *)
Theorem C02_repaired_witnesses_hold :
  run_C02 w_K1 = [2; 1; 2; 0; 0; 0;  0; 1; 100;  2; 1; 2; 0; 0; 0] /\ violations w_K1 (run_C02 w_K1) = [] /\
  run_C02 w_K2 = [1; 1; 0; 0; 0;  0;  1; 1; 0; 0; 0] /\ violations w_K2 (run_C02 w_K2) = [] /\
  run_C02 w_K5 = [0; 0; 0; 0;  0; 1; 100;  0; 0; 0; 0] /\ violations w_K5 (run_C02 w_K5) = [].
Proof. exact repaired_witnesses. Qed.
Print Assumptions C02_repaired_witnesses_hold.

(* What does hold, for every room history, every state with unique row ids and every sequence of
   calls of any length: whatever the oracle finds on the model's behaviour is one of the three
   delimited kinds — never an unexplained change (kind 0): no row, reference or tombstone appears
   without a valid signature, the room, the known entity, conforming JSON and the granted right at
   its own date (both rooms on a move, all-rows right on another author's row); nothing disappears
   except under such a row / tombstone of the same call; other tables are untouched *)
Theorem C02_outside_known : forall defs dm ss st v,
  ids_unique st ->
  In v (viol_steps defs dm st ss (observed (run_steps (build_rooms defs) dm st ss))) ->
  v = 1 \/ v = 3 \/ v = 4.
Proof. exact model_violations_known. Qed.
Print Assumptions C02_outside_known.

(* in the shape of the contract: a run in no known class has no violation at all *)
Theorem C02_outside_known_clean : forall defs dm ss st,
  ids_unique st ->
  classes_of (viol_steps defs dm st ss (observed (run_steps (build_rooms defs) dm st ss))) = [] ->
  viol_steps defs dm st ss (observed (run_steps (build_rooms defs) dm st ss)) = [].
Proof. exact model_outside_known. Qed.
Print Assumptions C02_outside_known_clean.

(* per kind of call: which defects each entry point can still exhibit *)
Theorem C02_nodes_outside_known : forall defs dm R st batch v,
  let r := step_nodes (build_rooms defs) dm R st batch in
  In v (viol_step defs dm (SNodes R batch) (match snd r with 0 :: _ => true | _ => false end) st (fst r)) ->
  v = 3.
Proof. exact step_nodes_viol. Qed.
Print Assumptions C02_nodes_outside_known.

Theorem C02_edges_outside_known : forall defs dm R st batch v,
  let r := step_edges (build_rooms defs) R st batch in
  In v (viol_step defs dm (SEdges R batch) (match snd r with 0 :: _ => true | _ => false end) st (fst r)) ->
  v = 4.
Proof. exact step_edges_viol. Qed.
Print Assumptions C02_edges_outside_known.

(* row tombstones (delete_nodes): the property holds at full strength — every stored tombstone is
   validly signed, names the entity of the row it removes and its author is granted the needed
   right at the deletion date; a row disappears only under such a tombstone, of a version not
   newer than the one named; nothing else changes *)
Theorem C02_node_tombstones_holds : forall defs dm st batch v,
  ids_unique st ->
  let r := step_ndels (build_rooms defs) st batch in
  ~ In v (viol_step defs dm (SNDels batch) (match snd r with 0 :: _ => true | _ => false end) st (fst r)).
Proof. exact step_ndels_viol. Qed.
Print Assumptions C02_node_tombstones_holds.

Theorem C02_edge_tombstones_outside_known : forall defs dm st batch v,
  let r := step_edels (build_rooms defs) st batch in
  In v (viol_step defs dm (SEDels batch) (match snd r with 0 :: _ => true | _ => false end) st (fst r)) ->
  v = 1.
Proof. exact step_edels_viol. Qed.
Print Assumptions C02_edge_tombstones_outside_known.

(* a call that fails as a whole (a signature does not verify, unknown room) leaves no trace *)
Theorem C02_failed_call_changes_nothing : forall rooms dm st s,
  status_ok (snd (do_step rooms dm st s)) = false -> fst (do_step rooms dm st s) = st.
Proof. exact failed_call_changes_nothing. Qed.
Print Assumptions C02_failed_call_changes_nothing.

(* what else is in the batch or in the tables makes no difference to the verdict on a row *)
Theorem C02_verdict_local : forall rooms dm R st st' x,
  lookup_node st (n_id x) = lookup_node st' (n_id x) ->
  tombstoned st x = tombstoned st' x ->
  requested st x = requested st' x /\ accept_node rooms dm R st x = accept_node rooms dm R st' x.
Proof. exact node_verdict_local. Qed.
Print Assumptions C02_verdict_local.

(* hypotheses are satisfiable and the property is not vacuous: an honest exchange is stored
   entirely, its two refused rows are reported, the oracle is silent *)
Example C02_nonvacuous :
  spec_C02 w_ok (run_C02 w_ok) = true /\ known_C02 w_ok = [] /\
  run_C02 w_ok = [2; 1; 2; 1; 3; 0; 0;
                  0; 2; 1; 2; 0; 0; 1; 4;
                  0; 1; 1; 0; 1; 5; 1; 4;
                  0; 0; 2; 6; 7; 0; 1; 5; 1; 4;
                  0; 0; 2; 6; 7; 1; 8; 1; 5; 1; 4;
                  0; 2; 102; 103; 2; 6; 7; 1; 8; 1; 5; 1; 4].
Proof. exact honest_exchange. Qed.
Print Assumptions C02_nonvacuous.

(* ================= system level: a STATE invariant over unbounded interleaved histories =================
   (definitions: model/System.v; proofs: proofs/SystemP.v, by induction over the history, one
   preservation lemma per kind of step, built from the per-call results of C01 and C02 above.)
   One receiver; the room definitions `defs` are a FIXED parameter of the history (changes of a
   room's definition are the subject of C07 / C10).  A history is any interleaving, of any length,
   of remote ingestion calls (SysRemote: the steps of run_steps), accepted local writes (SysWrite:
   validate_all answered VOk) and accepted local deletions (SysDelete: validate_deletion answered VOk);
   refused calls are steps too and change nothing.
   A stored row is ENTITLED if it is private (no room) or its author is granted, by the accepted
   history of the row's room, the own-rows right for the row's entity at the row's modification date
   (the strongest right that is a function of the stored row alone).  A stored reference carries no
   room; it is ENTITLED if it hangs on a stored row of the entity it names that is private or lies
   in a room granting the reference's author the own-rows right for that entity at the reference's
   creation date. *)
From DV Require Import System SystemP.

(* Rows: from a store whose rows are all entitled (e.g. the empty store), after ANY history every
   stored row is entitled.  No exclusion: steps of the open kinds 1, 3 and 4 included. *)
Theorem C02_rows_invariant_holds : forall defs dm hist st,
  nodes_entitled defs st = true ->
  nodes_entitled defs (sys_final (build_rooms defs) dm st hist) = true.
Proof. exact rows_invariant. Qed.
Print Assumptions C02_rows_invariant_holds.

(* Rows and references.  The exclusion that is needed is NOT "no step of kind 3 or 4" — such steps
   keep the invariant (C02_store_invariant_blind_to_kinds_3_4, C02_reference_calls_keep_invariant) —
   but hist_stable: no step retypes, moves to another room or removes a row on which a reference
   hangs that the step keeps (anchors_kept, evaluated on the tables before and after each step, as
   viol_step is), and no local write stores the same row id twice.  The condition is empty for
   calls that carry references or reference tombstones.  Each clause is needed:
   C02_store_invariant_refuted. *)
Theorem C02_store_invariant_outside_known : forall defs dm hist st,
  all_entitled defs st = true ->
  hist_stable (build_rooms defs) dm st hist = true ->
  all_entitled defs (sys_final (build_rooms defs) dm st hist) = true.
Proof. exact store_invariant. Qed.
Print Assumptions C02_store_invariant_outside_known.

(* without hist_stable the invariant is lost — verdicts = (initial store entitled, history stable,
   final rows entitled, final store entitled): (a) a step of kind 3 retypes a row carrying a
   reference; (b) a flawless row tombstone leaves the row's references behind; (c) a flawless new
   version moves a row, with another author's reference, into a room where that author has no right;
   (d) the local user moves a private row with an older private reference into a room; (e) one
   local request stores the same row id twice *)
Theorem C02_store_invariant_refuted :
  verdicts w_retype = (true, false, true, false) /\ c_kinds w_retype = [3] /\
  verdicts w_tombstone = (true, false, true, false) /\ c_kinds w_tombstone = [] /\
  verdicts w_move = (true, false, true, false) /\ c_kinds w_move = [] /\
  verdicts w_local_move = (true, false, true, false) /\
  verdicts w_twice = (true, false, true, false) /\ anchors_kept (c_pre w_twice) (c_final w_twice) = true.
Proof. exact store_invariant_refuted. Qed.
Print Assumptions C02_store_invariant_refuted.

(* the witness of kind 3 above (C02_refuted) and a witness of kind 4 are stable histories with
   entitled final stores; and the rows and references they leave are exactly those a flawless
   history leaves: what kinds 3 and 4 violate is the right of the DISPLACED row / reference — a
   property of the call (C02_outside_known), which no predicate on the stored tables can express *)
Theorem C02_store_invariant_blind_to_kinds_3_4 :
  verdicts (of_c02 w_K3) = (true, true, true, true) /\ c_kinds (of_c02 w_K3) = [3] /\
  verdicts w_K4e = (true, true, true, true) /\ c_kinds w_K4e = [4].
Proof. exact kinds_3_4_keep_the_invariant. Qed.
Print Assumptions C02_store_invariant_blind_to_kinds_3_4.

Theorem C02_kinds_3_4_states_honestly_reachable :
  c_kinds w_K3_honest = [] /\
  s_nodes (c_final w_K3_honest) = s_nodes (c_final (of_c02 w_K3)) /\
  s_edges (c_final w_K3_honest) = s_edges (c_final (of_c02 w_K3)) /\
  c_kinds w_K4_honest = [] /\
  s_nodes (c_final w_K4_honest) = s_nodes (c_final w_K4e) /\
  s_edges (c_final w_K4_honest) = s_edges (c_final w_K4e).
Proof. exact kinds_3_4_states_are_honestly_reachable. Qed.
Print Assumptions C02_kinds_3_4_states_honestly_reachable.

(* in general: EVERY call that carries references (kind 4 included) and EVERY call that carries
   reference tombstones (kind 1 included) keeps the invariant, with no side condition *)
Theorem C02_reference_calls_keep_invariant : forall defs R st b,
  all_entitled defs st = true -> all_entitled defs (fst (step_edges (build_rooms defs) R st b)) = true.
Proof. exact preserved_by_remote_references. Qed.
Print Assumptions C02_reference_calls_keep_invariant.

Theorem C02_reference_tombstones_keep_invariant : forall defs st b,
  all_entitled defs st = true -> all_entitled defs (fst (step_edels (build_rooms defs) st b)) = true.
Proof. exact preserved_by_reference_tombstones. Qed.
Print Assumptions C02_reference_tombstones_keep_invariant.

(* hypotheses are satisfiable and the conclusion is not empty: from the EMPTY store, a local write
   of two rows and a reference, a row and a reference received from a peer, a REFUSED local write
   (answer [1]), a local deletion, a new version of a row on which a reference hangs — a stable
   history, no kind reported, three rows and one reference held at the end, all entitled *)
Example C02_store_invariant_nonvacuous :
  verdicts w_sys_ok = (true, true, true, true) /\ c_kinds w_sys_ok = [] /\
  c_answers w_sys_ok = [[0]; [0; 0]; [0; 0]; [1]; [0]; [0; 0]] /\
  dump (c_final w_sys_ok) = [3; 2; 9; 10;  1; 8;  0;  0].
Proof. exact store_invariant_nonvacuous. Qed.
Print Assumptions C02_store_invariant_nonvacuous.
