(* C02 — Rows received from peers are stored only if their author had the right.
   Property theorems only: statement, exact, Print Assumptions.  Proofs: proofs/C02P.v
   (model: model/AuthzRemote.v; oracle and entry points: run/Run_C02.v). *)
From DV Require Import RightsP Run_C01 C01P Run_C02 C02P.

(* The full statement, for a receiver with room definitions `defs`, data model `dm`, tables `st`
   and ANY sequence of ingestion calls: the oracle (Run_C02.viol_steps: every row, reference or
   tombstone that appears is validly signed, belongs to the room, conforms to the data model and
   its author is granted the needed right at the row's own date by the room history — in the room
   left as well, all-rows right when another author's row is replaced or removed; nothing else
   changes; a failed call changes nothing) finds no violation. *)
Definition C02_full : Prop := forall defs dm ss st,
  ids_unique st ->
  viol_steps defs dm st ss (observed (run_steps (build_rooms defs) dm st ss)) = [].

(* The unchanged code violates it: closed witnesses, one per defect kind (the same scenarios are
   replayed against the real code by the harness as directed cases 0..5):
   1 reference / reference tombstone whose source row is not in the room, 2 tombstone naming another
   entity than the row it removes, 3 row replaced by a row of another entity, 4 another author's
   reference replaced without the all-rows right, 5 row without JSON content for an entity with
   required fields *)
Theorem C02_refuted :
  violations w_K1 (run_C02 w_K1) = [1] /\ violations w_K1b (run_C02 w_K1b) = [1] /\
  violations w_K2 (run_C02 w_K2) = [2] /\ violations w_K3 (run_C02 w_K3) = [3] /\
  violations w_K4 (run_C02 w_K4) = [4] /\ violations w_K5 (run_C02 w_K5) = [5].
Proof. exact witnesses. Qed.
Print Assumptions C02_refuted.

Theorem C02_refuted_in_known_classes :
  known_C02 w_K1 = [1] /\ known_C02 w_K2 = [2] /\ known_C02 w_K3 = [3] /\ known_C02 w_K4 = [4] /\ known_C02 w_K5 = [5].
Proof. exact witness_classes. Qed.
Print Assumptions C02_refuted_in_known_classes.

(* What does hold, for every room history, every state with unique row ids and every sequence of
   calls of any length: whatever the oracle finds on the model's behaviour is one of the five
   delimited kinds — never an unexplained change (kind 0): no row, reference or tombstone appears
   without a valid signature, the room, the known entity, conforming JSON and the granted right at
   its own date (both rooms on a move, all-rows right on another author's row); nothing disappears
   except under such a row / tombstone of the same call; other tables are untouched *)
Theorem C02_outside_known : forall defs dm ss st v,
  ids_unique st ->
  In v (viol_steps defs dm st ss (observed (run_steps (build_rooms defs) dm st ss))) ->
  v = 1 \/ v = 2 \/ v = 3 \/ v = 4 \/ v = 5.
Proof. exact model_violations_known. Qed.
Print Assumptions C02_outside_known.

(* in the shape of the contract: a run in no known class has no violation at all *)
Theorem C02_outside_known_clean : forall defs dm ss st,
  ids_unique st ->
  classes_of (viol_steps defs dm st ss (observed (run_steps (build_rooms defs) dm st ss))) = [] ->
  viol_steps defs dm st ss (observed (run_steps (build_rooms defs) dm st ss)) = [].
Proof. exact model_outside_known. Qed.
Print Assumptions C02_outside_known_clean.

(* per kind of call: which defects each entry point can exhibit *)
Theorem C02_nodes_outside_known : forall defs dm R st batch v,
  let r := step_nodes (build_rooms defs) dm R st batch in
  In v (viol_step defs dm (SNodes R batch) (match snd r with 0 :: _ => true | _ => false end) st (fst r)) ->
  v = 3 \/ v = 5.
Proof. exact step_nodes_viol. Qed.
Print Assumptions C02_nodes_outside_known.

Theorem C02_edges_outside_known : forall defs dm R st batch v,
  let r := step_edges (build_rooms defs) R st batch in
  In v (viol_step defs dm (SEdges R batch) (match snd r with 0 :: _ => true | _ => false end) st (fst r)) ->
  v = 1 \/ v = 4.
Proof. exact step_edges_viol. Qed.
Print Assumptions C02_edges_outside_known.

Theorem C02_node_tombstones_outside_known : forall defs dm st batch v,
  ids_unique st ->
  let r := step_ndels (build_rooms defs) st batch in
  In v (viol_step defs dm (SNDels batch) (match snd r with 0 :: _ => true | _ => false end) st (fst r)) ->
  v = 2.
Proof. exact step_ndels_viol. Qed.
Print Assumptions C02_node_tombstones_outside_known.

Theorem C02_edge_tombstones_outside_known : forall defs dm st batch v,
  let r := step_edels (build_rooms defs) st batch in
  In v (viol_step defs dm (SEDels batch) (match snd r with 0 :: _ => true | _ => false end) st (fst r)) ->
  v = 1.
Proof. exact step_edels_viol. Qed.
Print Assumptions C02_edge_tombstones_outside_known.

(* a call that fails as a whole (a signature does not verify, unknown room) leaves no trace *)
Theorem C02_failed_call_changes_nothing : forall rooms dm st s,
  status_ok (snd (do_step rooms dm st s)) = false -> fst (do_step rooms dm st s) = st.
Proof. exact failed_call_changes_nothing. Qed.
Print Assumptions C02_failed_call_changes_nothing.

(* what else is in the batch or in the tables makes no difference to the verdict on a row *)
Theorem C02_verdict_local : forall rooms dm R st st' x,
  lookup_node st (n_id x) = lookup_node st' (n_id x) ->
  requested st x = requested st' x /\ accept_node rooms dm R st x = accept_node rooms dm R st' x.
Proof. exact node_verdict_local. Qed.
Print Assumptions C02_verdict_local.

(* hypotheses are satisfiable and the property is not vacuous: an honest exchange is stored
   entirely, its two refused rows are reported, the oracle is silent *)
Example C02_nonvacuous :
  spec_C02 w_ok (run_C02 w_ok) = true /\ known_C02 w_ok = [] /\
  run_C02 w_ok = [2; 1; 2; 1; 3; 0; 0;
                  0; 2; 1; 2; 0; 0; 1; 4;
                  0; 1; 1; 0; 1; 5; 1; 4;
                  0; 0; 2; 6; 7; 0; 1; 5; 1; 4;
                  0; 0; 2; 6; 7; 1; 8; 1; 5; 1; 4;
                  0; 2; 102; 103; 2; 6; 7; 1; 8; 1; 5; 1; 4].
Proof. exact honest_exchange. Qed.
Print Assumptions C02_nonvacuous.
