From DV Require Import Run_C02.
