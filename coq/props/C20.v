(* C20 — Room synchronisation locks: exclusive, bounded, never lost.
   Property theorems only: statement, exact, Print Assumptions.  Proofs: proofs/C20Scan.v, proofs/C20P.v.
   Model: model/Lock.v (RoomLockService::start / acquire_lock; process_acquired_room / cleanup), as the code is.
   run_C20 / spec_C20 / known_C20: run/Run_C20.v — the functions the correspondence harness evaluates. *)
From DV Require Import Run_C20 C20Scan C20ConnFacts C20P.
Open Scope N_scope.

(* The full property, as one statement about the functions the harness evaluates (exclusive,
   bounded, once, never lost, bounded overtaking).  Still refuted by class 1 (6); every other part
   is carried by the theorems below. *)
Definition C20_full : Prop := forall c, spec_C20 c (run_C20 c) = true.

(* (1) for EVERY history of requests, releases (by anybody, of anything, repeated) and receiver
   drops: the service's set of locked rooms has no duplicates, locked + free slots = the limit
   (so the counter never underflows and never leaks), and no wake-up is lost: a request that waits
   on a live reply channel is blocked only by a locked room or by the limit *)
Theorem C20_counter_and_wakeup : forall max tr,
  let s := state_after (init max) tr in
  NoDup (locked s) /\ (length (locked s) + avail s = max)%nat /\ wake s.
Proof. exact counter_and_wakeup. Qed.
Print Assumptions C20_counter_and_wakeup.

(* (2) for EVERY history: the "once per request" and "never lost" parts of the oracle hold on what
   the model observes (grants never exceed requests per connection and room; a request of a
   connection whose channels are all alive is, after every message, blocked only by a held room or
   by the limit) — whatever the order in which the grants of one message are observed *)
Theorem C20_once_never_lost_partial : forall max tr, snd (spec_pair_lock max tr (run_lock max tr)) = true.
Proof. exact live_always. Qed.
Print Assumptions C20_once_never_lost_partial.

(* (3) progress: a released room that a live request waits for is granted again by that very
   release (with (1) and (2): the invariant form of "eventually granted as long as granted rooms
   are released"; the bound on overtaking, C20_no_starvation, is not proved) *)
Theorem C20_release_progress_partial : forall s who r p,
  memN r (locked s) = true -> In p (queue s) -> alive (dead s) p = true -> In r (p_rooms p) ->
  snd (step s (Unlock who r)) <> [].
Proof. exact release_progress. Qed.
Print Assumptions C20_release_progress_partial.

(* (4) the WHOLE service oracle (exclusive, bounded, once, never lost, bounded overtaking) holds on
   every service history outside the known class 1 = some release sent by a connection that does
   not hold the room frees a locked room *)
Theorem C20_outside_known : forall max tr,
  known_C20 (CLock max tr) = [] -> spec_C20 (CLock max tr) (run_C20 (CLock max tr)) = true.
Proof. exact outside_known_full. Qed.
Print Assumptions C20_outside_known.

Theorem C20_exclusive_bounded_unless_foreign_release : forall max tr,
  foreign_lock max tr = false -> fst (spec_pair_lock max tr (run_lock max tr)) = true.
Proof. exact safe_unless_foreign. Qed.
Print Assumptions C20_exclusive_bounded_unless_foreign_release.

(* (5) connections on top of the service (process_acquired_room always unlocks, cleanup unlocks
   what is in acquired_lock, the end of a connection closes and drains its lock channel): a
   connection-level history in which no connection ends while one of its room tasks runs (class 1)
   causes a service history without any release by a non-holder, on which the whole service oracle
   holds.  Grants still waiting in the channel of a connection that ends need no hypothesis any
   more (former class 2, repaired by 2487a5d): they are released by the end of the connection. *)
Theorem C20_conn_outside_known_partial : forall max es,
  known_C20 (CConn max es) = [] ->
  spec_C20 (CLock max (conn_trace max es)) (run_C20 (CLock max (conn_trace max es))) = true.
Proof. exact conn_benign_service_full. Qed.
Print Assumptions C20_conn_outside_known_partial.

(* (5a) closing and draining the lock channel only releases rooms that connection holds: whatever
   the state, the drain contains no release by a non-holder and keeps "holders = grants waiting in
   channels + rooms of running tasks" *)
Theorem C20_end_drain_holds : forall n c s cs h s' cs' ms gss,
  CInv cs h -> drain n c s cs = (s', cs', ms, gss) ->
  foreign_from s h ms = false /\ s' = fst (ghost_after s h ms) /\ CInv cs' (snd (ghost_after s h ms)).
Proof. exact drain_benign. Qed.
Print Assumptions C20_end_drain_holds.

(* (5b) the former class-2 witness (a grant waits in the channel of a connection that ends) now
   satisfies the oracle and lies in no class: the room and the slot are free again *)
Theorem C20_end_releases_waiting_grants_holds :
  known_C20 k2_conn_witness = [] /\ spec_C20 k2_conn_witness (run_C20 k2_conn_witness) = true /\
  conn_trace 1 [CRequest 1 [5]; CEnd 1; CRequest 9 [5]; CTake 9; CFinish 9 5; CRequest 8 [6]] =
    [Request 1 [5] 0; DropChan 1 0; Unlock 1 5; Request 9 [5] 0; Unlock 9 5; Request 8 [6] 0].
Proof. exact end_releases_waiting_grants. Qed.
Print Assumptions C20_end_releases_waiting_grants_holds.

(* (5') the source still has the shape the connection part of the model (and the part of the
   connection loop that the harness plays itself) assumes: Unlock carries no owner; every exit path of
   a room task unlocks; the loop hands the oldest grant to process_acquired_room; the end of the
   connection unlocks acquired_lock, then closes and drains the lock channel; the service channel
   holds fewer messages than the harness sends no-ops to wait for quiescence *)
Theorem C20_conn_code_as_modelled :
  unlock_carries_owner = false /\ Nat.ltb lock_channel_size 8 = true /\ task_always_unlocks = true /\
  loop_spawns_oldest_grant = true /\ end_unlocks_acquired = true /\ end_drains_lock_channel = true.
Proof. exact conn_facts_as_modelled. Qed.
Print Assumptions C20_conn_code_as_modelled.

(* (6) the property at full strength is still refuted by the faithful model (and by the real code:
   the witnesses are directed cases of the harness): Unlock carries no owner; reachable through the
   connection code alone (end of connection while a room task runs) *)
Theorem C20_refuted : spec_C20 k1_witness (run_C20 k1_witness) = false /\ known_C20 k1_witness = [1%Z].
Proof. exact refuted. Qed.
Print Assumptions C20_refuted.
Theorem C20_refuted_conn :
  spec_C20 k1_conn_witness (run_C20 k1_conn_witness) = false /\ known_C20 k1_conn_witness = [1%Z].
Proof. exact refuted_conn. Qed.
Print Assumptions C20_refuted_conn.

(* (7) the liveness half, "every requested room is eventually granted as long as granted rooms are
   released", as bounded overtaking (commit 11e9468: peers that cannot be served keep their place):
   while connection c waits for room r on live channels and is granted nothing, room r is given to
   other connections at most as many times as there are entries before c's in the queue — for every
   state, every continuation of any length, any limit.  `stands c r s n`: the first entry of c in the
   queue of s wants r and has at most n entries before it. *)
Theorem C20_bounded_overtaking : forall tr c r s n,
  stands c r s n -> untainted c (dead s) -> (forall m, In m tr -> not_drop_of c m) ->
  (forall g, In g (concat (run_from s tr)) -> to_c c g = false) ->
  (overtaken c r (run_from s tr) <= n)%nat.
Proof. exact bounded_overtaking. Qed.
Print Assumptions C20_bounded_overtaking.

(* (7') the overtaking bound the oracle uses (a waiting request of a connection whose channels are all
   alive is overtaken at most `number of requesting connections` times between two grants to that
   connection) holds on what the model observes for EVERY history, whatever the order in which the
   grants of one message are observed: the oracle's bound is a theorem, not a calibration *)
Theorem C20_overtaking_oracle_holds : forall max tr, bypass_ok tr (run_lock max tr) = true.
Proof. exact overtaking_oracle_holds. Qed.
Print Assumptions C20_overtaking_oracle_holds.

(* (7a) the schedule that starved connection 1 before 11e9468 (former class 3): it is now served by
   the first release of its room, and the whole oracle holds on the history *)
Theorem C20_former_starvation_schedule_holds :
  spec_C20 starve_case (run_C20 starve_case) = true /\ known_C20 starve_case = [] /\
  run_from (init 2) [Request 3 [5] 0; Request 2 [6] 0; Request 1 [5] 0; Request 2 [6] 0; Request 3 [5] 0;
                     Unlock 2 6; Request 2 [6] 0; Unlock 3 5] =
    [[(3, 0, 5)]; [(2, 0, 6)]; []; []; []; [(2, 0, 6)]; []; [(1, 0, 5)]].
Proof. exact former_starvation_schedule. Qed.
Print Assumptions C20_former_starvation_schedule_holds.

Example C20_nonvacuous_ex : known_C20 ok_witness = [] /\
  run_from (init 2) [Request 1 [5; 6; 7] 0; Request 2 [5; 6] 0; Unlock 1 7; Unlock 1 6; Unlock 3 9; Unlock 1 5; Unlock 2 6; DropChan 2 0; Unlock 2 5] =
  [[(1, 0, 7); (1, 0, 6)]; []; [(1, 0, 5)]; [(2, 0, 6)]; []; [(2, 0, 5)]; []; []; []].
Proof. exact nonvacuous. Qed.
Print Assumptions C20_nonvacuous_ex.
