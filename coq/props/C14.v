(* C14 — No input crashes, wedges or confuses an instance.
   Property theorems only: statement, exact, Print Assumptions.  Proofs: proofs/C14P.v.
   Model: model/Inputs.v (every Rust unwrap / index of the mirrored code is the explicit outcome
   OPanic).  Partial: a Gallina model cannot exhibit a panic or a dead thread of code it does not
   mirror; that part of the property is observed by the correspondence harness (panic hook,
   probe after every input), not proved — see C14_full. *)
From DV Require Import Run_C14 C14P.
From Coq Require Import String.
Local Open Scope string_scope.
Local Open Scope list_scope.

(* the full statement, of which the theorems below carry the modelled part: for EVERY input of
   every entry point the implementation's observation (what the harness records) satisfies the
   oracle.  [observe] is the real system; no Gallina term stands for it, so this stays a
   definition: the harness checks spec_C14 on the observation of every generated input, and
   run_C14 = observe on every such input (correspondence). *)
Definition C14_full (observe : c14case -> list Z) : Prop :=
  forall c, spec_C14 c (observe c) = true.

(* (0) master statement about the functions the harness evaluates: on every input outside the
   listed finding classes, what the model says the implementation observes satisfies the
   property's oracle — no panic code, every probe answered, every valid request Ok, parentheses
   paired and SELECTs linear in the request.  All case kinds, sequences of any length. *)
Theorem C14_model_holds_outside_known_partial : forall c,
  known_C14 c = [] -> spec_C14 c (run_C14 c) = true.
Proof. exact run_spec_outside_known. Qed.
Print Assumptions C14_model_holds_outside_known_partial.

(* (1) params_total: after an accepted validation every declared variable is bound, to the value
   validate_one made of what the caller supplied: parameters.params.get(v).unwrap() cannot fail *)
Theorem C14_params_bound_after_validation : forall vs ps ps',
  NoDup (map fst vs) -> validate_params vs ps = Some ps' ->
  forall x vt, In (x, vt) vs ->
    exists p0 p', lookup x ps = Some p0 /\ validate_one vt p0 = Some p' /\ lookup x ps' = Some p'.
Proof. exact validate_params_binds. Qed.
Print Assumptions C14_params_bound_after_validation.

(* ... and no unwrap of mutation_query.rs is reached by any mutation (any number of fields,
   variables, literals, defaults, id / room_id), except: null on a nullable Json field *)
Theorem C14_params_total_outside_known : forall m, mutate_outcome m = OPanic -> k1_mutation m = true.
Proof. exact mutate_panics_only_in_k1. Qed.
Print Assumptions C14_params_total_outside_known.

Theorem C14_params_total_refuted :
  mutation_valid k1_witness = true /\ mutate_outcome k1_witness = OPanic /\
  mutation_valid k1_literal_witness = true /\ mutate_outcome k1_literal_witness = OPanic.
Proof. exact params_total_refuted_w. Qed.
Print Assumptions C14_params_total_refuted.

(* a valid mutation executes *)
Theorem C14_valid_mutation_executes_partial : forall m,
  mutation_valid m = true -> k1_mutation m = false -> mutate_outcome m = OOk.
Proof. exact valid_mutation_executes. Qed.
Print Assumptions C14_valid_mutation_executes_partial.

(* (2) the pool of reader threads: any sequence of mutations outside class 1 leaves all threads
   alive and every probe is answered; four requests of class 1 leave none *)
Theorem C14_sequences_keep_the_pool_partial : forall ms, existsb k1_mutation ms = false ->
  steps_ok (map mutation_valid ms) (pool_run default_parallelism (map mutate_outcome ms)) = true /\
  pool_live default_parallelism (map mutate_outcome ms) = default_parallelism.
Proof. exact sequences_keep_the_pool. Qed.
Print Assumptions C14_sequences_keep_the_pool_partial.

Theorem C14_panics_exhaust_the_pool : forall os live,
  Forall (fun o => o = OPanic) os -> (live <= N.of_nat (List.length os))%N -> pool_live live os = 0%N.
Proof. exact panics_exhaust_the_pool. Qed.
Print Assumptions C14_panics_exhaust_the_pool.

Theorem C14_instance_wedged_refuted :
  run_C14 (CMutSeq [k1_witness; k1_witness; k1_witness; k1_witness; ok_witness]) = [2; 1; 2; 1; 2; 1; 2; 0; 1; 0]
  /\ mutation_valid ok_witness = true.
Proof. exact pool_exhausted_w. Qed.
Print Assumptions C14_instance_wedged_refuted.

(* (3) key import and row verification: the order of checks of the code is safe except for the
   empty key, which is indexed before its length is looked at *)
Theorem C14_key_import_total_iff : forall k pok, import_key k pok = OPanic <-> k = [].
Proof. exact import_key_panics_iff. Qed.
Print Assumptions C14_key_import_total_iff.

Theorem C14_verify_total_outside_known : forall r, verify_row r = OPanic -> k2_row r = true.
Proof. exact verify_row_panics_only_in_k2. Qed.
Print Assumptions C14_verify_total_outside_known.

(* (4) valid_executes: a request that is valid for the language and the data model resolves, and
   the statement skeleton compiled for it has balanced parentheses and only legal, non-reserved
   unquoted aliases — unless an identifier is an SQL keyword / digit-first (class 3) or a json
   selector meets a default (class 4).  Partial: that the engine accepts exactly such statements
   (and the calibrated parser-stack budget, blank search text) is tied by the differential runs *)
Theorem C14_valid_query_resolves : forall dm q, entity_valid dm q = true -> exists c, resolve_entity dm q = Some c.
Proof. exact entity_valid_resolves. Qed.
Print Assumptions C14_valid_query_resolves.

Theorem C14_valid_executes_partial : forall c,
  k3_entity c = false -> k4_entity c = false -> wf_sql (emit_entity c) = true.
Proof. exact entity_wf. Qed.
Print Assumptions C14_valid_executes_partial.

Theorem C14_valid_query_executes_partial : forall dm qs,
  query_valid dm qs = true -> known_C14 (CQuery dm qs) = [] -> query_outcome dm qs = OOk.
Proof. exact valid_query_executes. Qed.
Print Assumptions C14_valid_query_executes_partial.

Theorem C14_valid_executes_refuted :
  let name := RNamed None (cp "name") in
  (query_valid w_dm [w_q (Some (cp "group")) None [name]] = true /\ query_outcome w_dm [w_q (Some (cp "group")) None [name]] = OErr) /\
  (query_valid w_dm [w_q None None [RSub None (cp "order") [name]]] = true /\ query_outcome w_dm [w_q None None [RSub None (cp "order") [name]]] = OErr) /\
  (query_valid w_dm [w_q (Some (cp "1a")) None [name]] = true /\ query_outcome w_dm [w_q (Some (cp "1a")) None [name]] = OErr) /\
  (query_valid w_dm [w_q None None [RJson (cp "a") (cp "jd")]] = true /\ query_outcome w_dm [w_q None None [RJson (cp "a") (cp "jd")]] = OErr) /\
  (query_valid w_dm [w_q None (Some []) [name]] = true /\ query_outcome w_dm [w_q None (Some []) [name]] = OErr) /\
  (query_valid w_dm [w_tree [w_chain (cp "kids") 5]] = true /\ query_outcome w_dm [w_tree [w_chain (cp "kids") 5]] = OErr) /\
  query_outcome w_dm [w_q (Some (cp "grp")) (Some (cp "word")) [name; RSub (Some (cp "o")) (cp "order") [name]]] = OOk /\
  query_outcome w_dm [w_tree [w_chain (cp "kids") 4]] = OOk.
Proof. exact valid_executes_refuted_w. Qed.
Print Assumptions C14_valid_executes_refuted.

(* (5) statement size: the counters the harness compares with the real compiler's output are
   the counters of the modelled token list; they are linear in the request unless non-nullable
   references are nested (class 7), where they double per level *)
Theorem C14_counts_are_token_counts : forall c, cnt3 (emit_entity c) = counts_entity c.
Proof. exact counts_entity_are_token_counts. Qed.
Print Assumptions C14_counts_are_token_counts.

Theorem C14_statement_size_outside_known : forall dm q ce,
  resolve_entity dm q = Some ce ->
  (k4_entity ce = false -> lp3 (counts_entity ce) = rp3 (counts_entity ce)) /\
  (k7_entity ce = false -> (sel3 (counts_entity ce) <= select_bound q)%N).
Proof. exact size_spec. Qed.
Print Assumptions C14_statement_size_outside_known.

Theorem C14_statement_size_refuted : forall key d, (tot (nn_chain key d) + 3 = 3 * 2 ^ N.of_nat d)%N.
Proof. exact blowup_exponential. Qed.
Print Assumptions C14_statement_size_refuted.

Theorem C14_statement_size_refuted_witness :
  run_C14 (CQSize w_dm (w_tree [w_chain (cp "nn") 10])) = [1; 3071; 6141; 6141]
  /\ spec_C14 (CQSize w_dm (w_tree [w_chain (cp "nn") 10])) [1; 3071; 6141; 6141] = false
  /\ entity_valid w_dm (w_tree [w_chain (cp "nn") 10]) = true.
Proof. exact size_refuted_w. Qed.
Print Assumptions C14_statement_size_refuted_witness.

Example C14_nonvacuous :
  known_C14 (CMut ok_witness) = [] /\ run_C14 (CMut ok_witness) = [0; 1] /\
  known_C14 (CMutSeq [ok_witness; ok_witness]) = [] /\
  known_C14 (CKey [1%N] true) = [] /\ run_C14 (CKey [1%N] true) = [1] /\
  known_C14 (CRow (RowNode false JObject [1%N; 2%N] false 64 false)) = [] /\
  known_C14 (CQuery w_dm [w_q (Some (cp "grp")) None [RNamed None (cp "name"); RSub None (cp "pets") [RNamed None (cp "name")]]]) = [] /\
  query_valid w_dm [w_q (Some (cp "grp")) None [RNamed None (cp "name"); RSub None (cp "pets") [RNamed None (cp "name")]]] = true /\
  known_C14 (CQSize w_dm (w_tree [w_chain (cp "nn") 1])) = [] /\
  run_C14 (CQSize w_dm (w_tree [w_chain (cp "nn") 1])) = [1; 5; 9; 9].
Proof. exact nonvacuous_w. Qed.
Print Assumptions C14_nonvacuous.
