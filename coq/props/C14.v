(* C14 — No input crashes, wedges or confuses an instance.
   Property theorems only: statement, exact, Print Assumptions.  Proofs: proofs/C14P.v.
   Model: model/Inputs.v (every Rust unwrap / index of the mirrored code is the explicit outcome
   OPanic), at the current commit: the classes 1-4 found by this check (null on a nullable Json
   field, empty verifying key, keyword / digit-first aliases, unclosed Ifnull) were repaired by
   8ac9d00, b4e6381, 601cdc3, and classes 9-10 (ConnectionInfo frame length, dates beyond the
   calendar, peer user row without `enabled`) by feffa39, 8b3434e, 86aa554: their theorems hold at
   full strength; classes 5-8 stay open.
   Partial: a Gallina model cannot exhibit a panic or a dead thread of code it does not mirror;
   that part of the property is observed by the correspondence harness (panic hook, probe after
   every input), not proved — see C14_full. *)
From DV Require Import Run_C14 C14P.
From Coq Require Import String.
Local Open Scope string_scope.
Local Open Scope list_scope.

(* the full statement, of which the theorems below carry the modelled part: for EVERY input of
   every entry point the implementation's observation (what the harness records) satisfies the
   oracle.  [observe] is the real system; no Gallina term stands for it, so this stays a
   definition: the harness checks spec_C14 on the observation of every generated input, and
   run_C14 = observe on every such input (correspondence). *)
Definition C14_full (observe : c14case -> list Z) : Prop :=
  forall c, spec_C14 c (observe c) = true.

(* (0) master statement about the functions the harness evaluates: on every input outside the
   open finding classes (5 blank search text, 6 parser stack, 7 nested non-nullable references,
   8 WHERE filter on the selected json value in an aggregate selection),
   what the model says the implementation observes satisfies the property's oracle — no panic
   code, every probe answered, every valid request Ok, parentheses paired and SELECTs linear in
   the request.  All case kinds, sequences of any length. *)
Theorem C14_model_holds_outside_known_partial : forall c,
  known_C14 c = [] -> spec_C14 c (run_C14 c) = true.
Proof. exact run_spec_outside_known. Qed.
Print Assumptions C14_model_holds_outside_known_partial.

(* (1) params_total: after an accepted validation every declared variable is bound, to the value
   validate_one made of what the caller supplied: parameters.params.get(v).unwrap() cannot fail *)
Theorem C14_params_bound_after_validation : forall vs ps ps',
  NoDup (map fst vs) -> validate_params vs ps = Some ps' ->
  forall x vt, In (x, vt) vs ->
    exists p0 p', lookup x ps = Some p0 /\ validate_one vt p0 = Some p' /\ lookup x ps' = Some p'.
Proof. exact validate_params_binds. Qed.
Print Assumptions C14_params_bound_after_validation.

(* ... and no unwrap of mutation_query.rs is reached by any mutation: any number of fields,
   variables, literals, defaults, id / room_id, any parameters *)
Theorem C14_params_total_holds : forall m, mutate_outcome m <> OPanic.
Proof. exact mutate_never_panics. Qed.
Print Assumptions C14_params_total_holds.

(* a valid mutation executes *)
Theorem C14_valid_mutation_executes_holds : forall m,
  mutation_valid m = true -> mutate_outcome m = OOk.
Proof. exact valid_mutation_executes. Qed.
Print Assumptions C14_valid_mutation_executes_holds.

(* (2) the pools of reader and verifier threads: ANY sequence of mutations / rows leaves all
   threads alive and every probe is answered *)
Theorem C14_sequences_keep_the_pool_holds_partial : forall ms,
  steps_ok (map mutation_valid ms) (pool_run default_parallelism (map mutate_outcome ms)) = true /\
  pool_live default_parallelism (map mutate_outcome ms) = default_parallelism.
Proof. exact sequences_keep_the_pool. Qed.
Print Assumptions C14_sequences_keep_the_pool_holds_partial.

Theorem C14_verifier_pool_kept_holds_partial : forall rs,
  steps_ok (map (fun _ => false) rs) (pool_run default_parallelism (map verify_row rs)) = true /\
  pool_live default_parallelism (map verify_row rs) = default_parallelism.
Proof. exact verifier_pool_kept. Qed.
Print Assumptions C14_verifier_pool_kept_holds_partial.

(* why that matters (bookkeeping of the pool): n panicking requests on n threads leave none *)
Theorem C14_panics_exhaust_the_pool : forall os live,
  Forall (fun o => o = OPanic) os -> (live <= N.of_nat (List.length os))%N -> pool_live live os = 0%N.
Proof. exact panics_exhaust_the_pool. Qed.
Print Assumptions C14_panics_exhaust_the_pool.

(* (3) key import and row verification: the order of checks of the code is safe for every key *)
Theorem C14_key_import_total_holds : forall k pok, import_key k pok <> OPanic.
Proof. exact import_key_never_panics. Qed.
Print Assumptions C14_key_import_total_holds.

Theorem C14_verify_total_holds : forall r, verify_row r <> OPanic.
Proof. exact verify_row_never_panics. Qed.
Print Assumptions C14_verify_total_holds.

(* (4) valid_executes: a request that is valid for the language and the data model resolves, and
   the statement skeleton compiled for ANY resolved selection has balanced parentheses (aliases
   are spliced double-quoted, so their spelling no longer matters).  Partial: that the engine
   accepts exactly such statements is tied by the differential runs *)
Theorem C14_valid_query_resolves : forall dm q, entity_valid dm q = true -> exists c, resolve_entity dm q = Some c.
Proof. exact entity_valid_resolves. Qed.
Print Assumptions C14_valid_query_resolves.

Theorem C14_valid_executes_holds_partial : forall c, wf_sql (emit_entity c) = true.
Proof. exact entity_wf. Qed.
Print Assumptions C14_valid_executes_holds_partial.

(* the whole verdict: valid and outside the open classes 5 / 6 => Ok *)
Theorem C14_valid_query_executes_outside_known_partial : forall dm qs,
  query_valid dm qs = true -> known_C14 (CQuery dm qs) = [] -> query_outcome dm qs = OOk.
Proof. exact valid_query_executes. Qed.
Print Assumptions C14_valid_query_executes_outside_known_partial.

Theorem C14_valid_query_executes_refuted :
  let name := RNamed None (cp "name") in
  (query_valid w_dm [w_q None (Some []) [name]] = true /\ query_outcome w_dm [w_q None (Some []) [name]] = OErr) /\
  (query_valid w_dm [w_tree [w_chain (cp "kids") 5]] = true /\ query_outcome w_dm [w_tree [w_chain (cp "kids") 5]] = OErr) /\
  query_outcome w_dm [w_q (Some (cp "grp")) (Some (cp "word")) [name; RSub (Some (cp "o")) (cp "order") [name]]] = OOk /\
  query_outcome w_dm [w_tree [w_chain (cp "kids") 4]] = OOk.
Proof. exact valid_executes_refuted_w. Qed.
Print Assumptions C14_valid_query_executes_refuted.

(* the witnesses of the repaired classes 1-4 are ordinary cases now: Ok, pool intact, Err for the
   empty key, keyword / digit-first aliases and the defaulted json selector execute *)
Theorem C14_repaired_witnesses_pass :
  let name := RNamed None (cp "name") in
  run_C14 (CMut k1_witness) = [0; 1] /\ run_C14 (CMut k1_literal_witness) = [0; 1] /\
  run_C14 (CMutSeq [k1_witness; k1_witness; k1_witness; k1_witness; ok_witness]) = [0; 1; 0; 1; 0; 1; 0; 1; 0; 1] /\
  run_C14 (CKey [] false) = [1] /\ run_C14 (CRow (RowNode false JObject [] false 64 false)) = [1] /\
  run_C14 (CQuery w_dm [w_q (Some (cp "group")) None [name]]) = [0; 1] /\
  run_C14 (CQuery w_dm [w_q None None [RSub None (cp "order") [name]]]) = [0; 1] /\
  run_C14 (CQuery w_dm [w_q (Some (cp "1a")) None [name]]) = [0; 1] /\
  run_C14 (CQuery w_dm [w_q None None [RJson (cp "a") (cp "jd")]]) = [0; 1].
Proof. exact repaired_witnesses_w. Qed.
Print Assumptions C14_repaired_witnesses_pass.

(* (5) statement size: the counters the harness compares with the real compiler's output are
   the counters of the modelled token list; parentheses always pair up; SELECTs are linear in the
   request unless non-nullable references are nested (class 7), where they double per level *)
Theorem C14_counts_are_token_counts : forall c, cnt3 (emit_entity c) = counts_entity c.
Proof. exact counts_entity_are_token_counts. Qed.
Print Assumptions C14_counts_are_token_counts.

Theorem C14_statement_size_outside_known : forall dm q ce,
  resolve_entity dm q = Some ce ->
  lp3 (counts_entity ce) = rp3 (counts_entity ce) /\
  (k7_entity ce = false -> (sel3 (counts_entity ce) <= select_bound q)%N).
Proof. exact size_spec. Qed.
Print Assumptions C14_statement_size_outside_known.

Theorem C14_statement_size_refuted : forall key d, (tot (nn_chain key d) + 3 = 3 * 2 ^ N.of_nat d)%N.
Proof. exact blowup_exponential. Qed.
Print Assumptions C14_statement_size_refuted.

Theorem C14_statement_size_refuted_witness :
  run_C14 (CQSize w_dm (w_tree [w_chain (cp "nn") 10])) = [1; 3071; 6141; 6141]
  /\ spec_C14 (CQSize w_dm (w_tree [w_chain (cp "nn") 10])) [1; 3071; 6141; 6141] = false
  /\ entity_valid w_dm (w_tree [w_chain (cp "nn") 10]) = true.
Proof. exact size_refuted_w. Qed.
Print Assumptions C14_statement_size_refuted_witness.

(* (6) the clause language on one entity (aggregate functions, order_by, first / skip, before /
   after, filters also on aggregates, json selectors, search, nullable; literals or parameters):
   the clause skeleton compiled for ANY request is grammatical — in particular a condition after
   GROUP BY is always introduced by HAVING —, a request the parser's rules accept and whose
   parameters have their types executes (outside class 5 blank search text and class 8 reference
   filter on an aggregate selection), and deletion by parameter never reaches its unwraps *)
Theorem C14_clauses_grammatical_holds_partial : forall q, clauses_ok (emit_clauses q) = true.
Proof. exact clauses_grammatical. Qed.
Print Assumptions C14_clauses_grammatical_holds_partial.

Theorem C14_valid_clause_query_executes_outside_known_partial : forall q,
  aquery_valid q = true -> search_blank q = false -> value_filter_on_aggregate q = false -> aquery_outcome q = OOk.
Proof. exact valid_aquery_executes. Qed.
Print Assumptions C14_valid_clause_query_executes_outside_known_partial.

Theorem C14_delete_total_holds : forall p, delete_outcome p <> OPanic.
Proof. exact delete_never_panics. Qed.
Print Assumptions C14_delete_total_holds.

Theorem C14_clause_witnesses :
  aquery_valid w_paged_agg = true /\ known_C14 (CAgg w_paged_agg) = [] /\ run_C14 (CAgg w_paged_agg) = [0; 1] /\
  emit_clauses w_paged_agg = [CCond; CGroup; CHaving; CCond; COrder] /\
  aquery_valid w_ref_filter_agg = true /\ aquery_outcome w_ref_filter_agg = OErr /\ known_C14 (CAgg w_ref_filter_agg) = [8] /\
  aquery_valid w_alias_filter_agg = true /\ aquery_outcome w_alias_filter_agg = OErr /\ known_C14 (CAgg w_alias_filter_agg) = [8].
Proof. exact clause_witnesses_w. Qed.
Print Assumptions C14_clause_witnesses.

(* (7) frames received from a peer (network/endpoint.rs): no reader - the ConnectionInfo reader of
   start_accepted (since feffa39) and the reader loops of start_channels - ever requests a buffer
   beyond its limit or delivers more frames than were sent, for every stream.  Rows ingested with a
   date (since 8b3434e): no date makes the writer thread panic; a date that passes the check has
   its day and its next day in the calendar *)
Theorem C14_frame_len_guard_holds : forall limit fs,
  (snd (read_channel limit fs) <= limit)%N /\ (fst (read_channel limit fs) <= N.of_nat (List.length fs))%N.
Proof. exact read_channel_bounded. Qed.
Print Assumptions C14_frame_len_guard_holds.

Theorem C14_conn_info_allocation_holds : forall limit f, (snd (read_conn_info limit f) <= limit)%N.
Proof. exact conn_info_bounded. Qed.
Print Assumptions C14_conn_info_allocation_holds.

Theorem C14_ingest_date_holds : forall rf md, ingest_obs rf md = [0; 1].
Proof. exact ingest_never_kills_the_writer. Qed.
Print Assumptions C14_ingest_date_holds.

Theorem C14_valid_date_has_next_day : forall ms,
  is_valid_date ms = true -> (day ms + ms_per_day <= last_day_start_ms)%Z.
Proof. exact valid_date_has_next_day. Qed.
Print Assumptions C14_valid_date_has_next_day.

Theorem C14_frame_and_date_witnesses :
  run_C14 (CFrames (FFrame 4294967295 0 false) [] [] []) = [0; 0; 0; 0; 0; 1] /\
  spec_C14 (CFrames (FFrame 4294967295 0 false) [] [] []) [0; 0; 0; 0; 0; 1] = true /\
  run_C14 (CFrames (FFrame 90 90 true) [] [FFrame 45 45 true; FFrame 4294967295 45 false; FFrame 45 45 true] []) = [1; 0; 1; 0; 0; 1] /\
  run_C14 (CIngest 1000 9223372036854775807) = [0; 1] /\ run_C14 (CIngest 1000 8210266876800000) = [0; 1] /\
  run_C14 (CIngest 1000 8210266790400000) = [0; 1] /\ run_C14 (CIngest 1000 8210266790399999) = [0; 1] /\
  run_C14 (CIngest 1000 (-5)) = [0; 1] /\ known_C14 (CIngest 1000 9223372036854775807) = [].
Proof. exact frame_witnesses_w. Qed.
Print Assumptions C14_frame_and_date_witnesses.

(* (8) room definitions received from a peer with one member of a sys.* row replaced: every row
   the parse rules accept is one the loader of the next start reads, so the instance starts again
   in every case (the user row without `enabled`, former class 11, included since 86aa554) *)
Theorem C14_room_definition_restart_holds : forall m v, restart_succeeds m v = true.
Proof. exact room_def_restart_holds. Qed.
Print Assumptions C14_room_definition_restart_holds.

Theorem C14_accepted_rows_load_holds : forall m v, room_row_accepted m v = true -> loader_reads m v = true.
Proof. exact accepted_rows_load. Qed.
Print Assumptions C14_accepted_rows_load_holds.

Theorem C14_room_definition_witnesses :
  run_C14 (CRoomDef MUserEnabled JMissing) = [0; 1; 1] /\ known_C14 (CRoomDef MUserEnabled JMissing) = [] /\
  spec_C14 (CRoomDef MUserEnabled JMissing) [0; 1; 1] = true /\
  run_C14 (CRoomDef MUserEnabled JNull) = [1; 1; 1] /\ run_C14 (CRoomDef MUserEnabled JBoolean) = [0; 1; 1] /\
  run_C14 (CRoomDef MRightSelf JNumber) = [1; 1; 1] /\ run_C14 (CRoomDef MAuthName JNull) = [0; 1; 1].
Proof. exact room_def_witnesses_w. Qed.
Print Assumptions C14_room_definition_witnesses.

Example C14_nonvacuous :
  known_C14 (CQuery w_dm [w_q (Some (cp "grp")) None [RNamed None (cp "name"); RSub None (cp "pets") [RNamed None (cp "name")]]]) = [] /\
  query_valid w_dm [w_q (Some (cp "grp")) None [RNamed None (cp "name"); RSub None (cp "pets") [RNamed None (cp "name")]]] = true /\
  run_C14 (CMut ok_witness) = [0; 1] /\ mutation_valid ok_witness = true /\ mutation_valid k1_witness = true /\
  run_C14 (CKey [1%N] true) = [1] /\
  known_C14 (CQSize w_dm (w_tree [w_chain (cp "nn") 1])) = [] /\
  run_C14 (CQSize w_dm (w_tree [w_chain (cp "nn") 1])) = [1; 5; 9; 9].
Proof. exact nonvacuous_w. Qed.
Print Assumptions C14_nonvacuous.
