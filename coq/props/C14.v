From DV Require Import Run_C14 C14P.
Theorem C14_placeholder : run_C14 (CObs 0%N) = [0; 1].
Proof. exact placeholder_c14. Qed.
Print Assumptions C14_placeholder.
