(* C01 — Local writes are applied only with the room's rights at that time.
   Property theorems only: statement, exact, Print Assumptions.  Proofs: proofs/RightsP.v, proofs/C01P.v. *)
From DV Require Import RightsP Run_C01 C01P.

(* (1) the in-memory room built by room.rs' add_* calls from ANY sequence of definition entries
   decides exactly what the accepted history grants ("entry in force at d" = greatest date <= d,
   later entry on ties; entity entry else wildcard; admin or enabled member of the group) *)
Theorem C01_room_decides_history : forall id evs k e d t,
  can (build id evs) k e d t = granted (accepted id evs) k e d t.
Proof. exact can_granted. Qed.
Print Assumptions C01_room_decides_history.

(* (2) an accepted mutation writes only rows the history grants: needed right (own-rows for rows
   the caller creates or authored, all-rows otherwise) at the operation date, in the room entered
   AND in the room left; references created by someone else are removed only with the all-rows
   right; authorisation rows never; whole request or nothing *)
Theorem C01_mutation_holds : forall defs me now ms,
  forallb wf_tree ms = true ->
  validate_all me now (build_rooms defs) ms = VOk ->
  forallb (head_entitled defs me now) (flat_map written ms) = true.
Proof. exact mutation_entitled. Qed.
Print Assumptions C01_mutation_holds.

Theorem C01_mutation_all_or_nothing : forall me now rooms ms,
  validate_all me now rooms ms = VOk -> Forall (fun m => validate_entity me now rooms m = VOk) ms.
Proof. exact mutation_all_or_nothing. Qed.
Print Assumptions C01_mutation_all_or_nothing.

(* (3) an accepted deletion removes only rows / references the history grants *)
Theorem C01_deletion_holds : forall defs me now ns es upd,
  validate_deletion me now (build_rooms defs) ns es upd = VOk ->
  forallb (fun n => del_entitled defs me now (dn_kind n) (dn_ent n) (dn_room n) (dn_author n) (dn_date n)) ns = true /\
  forallb (fun n => del_entitled defs me now (de_kind n) (de_ent n) (de_room n) (de_author n) (de_date n)) es = true /\
  forallb (upd_entitled defs me now) upd = true.
Proof. exact deletion_entitled. Qed.
Print Assumptions C01_deletion_holds.

(* (4) stated on the very functions the correspondence run evaluates: on every mutation, deletion
   and end-to-end case, what the model answers satisfies the property's oracle (accepted only if
   granted; refused leaves the database unchanged) — so an implementation that agrees with the
   model on a case cannot violate the property on it *)
Theorem C01_model_satisfies_oracle : forall c,
  wf_case c = true ->
  match c with CMatrix _ _ => True | _ => spec_C01 c (run_C01 c) = true end.
Proof. exact model_accepts_only_entitled. Qed.
Print Assumptions C01_model_satisfies_oracle.

Example C01_nonvacuous_ex :
  let defs := [(1%N, [EvGroup 1%N; EvUser 1%N 2%N 10 true; EvRight 1%N 0%N 10 true false])] in
  validate_all 2%N 20 (build_rooms defs)
    [MEnt {| h_kind := KNormal; h_ent := 3%N; h_room := Some 1%N; h_date := 20; h_has_node := true;
             h_too_big := false; h_old := None; h_edge_dels := [] |} []] = VOk /\
  validate_all 2%N 20 (build_rooms defs)
    [MEnt {| h_kind := KNormal; h_ent := 3%N; h_room := Some 1%N; h_date := 20; h_has_node := true;
             h_too_big := false; h_old := Some {| o_room := Some 1%N; o_author := 5%N |}; h_edge_dels := [] |} []] = VRejected.
Proof. exact C01_nonvacuous. Qed.
Print Assumptions C01_nonvacuous_ex.

(* ================= system level (definitions: model/System.v; proofs: proofs/SystemP.v) =================
   Whatever sequence, of any length, of validated local writes (SysWrite) and local deletions
   (SysDelete) the local user submits — refused ones included, they change nothing — every stored
   row stays ENTITLED: private, or its author granted the own-rows right for the row's entity by the
   room's accepted history at the row's modification date.  The room definitions `defs` are fixed
   along the history (their changes: (1) above, C07, C10).  No exclusion.  This is the local special
   case of C02_rows_invariant_holds (props/C02.v), which holds for histories interleaved with remote
   ingestion as well; for references see C02_store_invariant_outside_known. *)
From DV Require Import System SystemP.

Theorem C01_store_invariant_holds : forall defs dm hist st,
  forallb is_local hist = true ->
  nodes_entitled defs st = true ->
  nodes_entitled defs (sys_final (build_rooms defs) dm st hist) = true.
Proof. exact local_rows_invariant. Qed.
Print Assumptions C01_store_invariant_holds.
