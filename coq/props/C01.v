(* C01 — Local writes are applied only with the room's rights at that time.
   Property theorems only: statement, exact, Print Assumptions.  Proofs: proofs/RightsP.v, proofs/C01P.v. *)
From DV Require Import RightsP Run_C01 C01P.

(* (1) the in-memory room built by room.rs' add_* calls from ANY sequence of definition entries
   decides exactly what the accepted history grants ("entry in force at d" = greatest date <= d,
   later entry on ties; entity entry else wildcard; admin or enabled member of the group) *)
Theorem C01_room_decides_history : forall id evs k e d t,
  can (build id evs) k e d t = granted (accepted id evs) k e d t.
Proof. exact can_granted. Qed.
Print Assumptions C01_room_decides_history.

(* (2) an accepted mutation writes only rows the history grants: needed right (own-rows for rows
   the caller creates or authored, all-rows otherwise) at the operation date, in the room entered
   AND in the room left; references created by someone else are removed only with the all-rows
   right; authorisation rows never; whole request or nothing *)
Theorem C01_mutation_holds : forall defs me now ms,
  forallb wf_tree ms = true ->
  validate_all me now (build_rooms defs) ms = VOk ->
  forallb (head_entitled defs me now) (flat_map written ms) = true.
Proof. exact mutation_entitled. Qed.
Print Assumptions C01_mutation_holds.

Theorem C01_mutation_all_or_nothing : forall me now rooms ms,
  validate_all me now rooms ms = VOk -> Forall (fun m => validate_entity me now rooms m = VOk) ms.
Proof. exact mutation_all_or_nothing. Qed.
Print Assumptions C01_mutation_all_or_nothing.

(* (3) an accepted deletion removes only rows / references the history grants *)
Theorem C01_deletion_holds : forall defs me now ns es upd,
  validate_deletion me now (build_rooms defs) ns es upd = VOk ->
  forallb (fun n => del_entitled defs me now (dn_kind n) (dn_ent n) (dn_room n) (dn_author n) (dn_date n)) ns = true /\
  forallb (fun n => del_entitled defs me now (de_kind n) (de_ent n) (de_room n) (de_author n) (de_date n)) es = true /\
  forallb (upd_entitled defs me now) upd = true.
Proof. exact deletion_entitled. Qed.
Print Assumptions C01_deletion_holds.

(* (4) stated on the very functions the correspondence run evaluates: on every mutation, deletion
   and end-to-end case, what the model answers satisfies the property's oracle (accepted only if
   granted; refused leaves the database unchanged) — so an implementation that agrees with the
   model on a case cannot violate the property on it *)
Theorem C01_model_satisfies_oracle : forall c,
  wf_case c = true ->
  match c with CMatrix _ _ => True | _ => spec_C01 c (run_C01 c) = true end.
Proof. exact model_accepts_only_entitled. Qed.
Print Assumptions C01_model_satisfies_oracle.

Example C01_nonvacuous_ex :
  let defs := [(1%N, [EvGroup 1%N; EvUser 1%N 2%N 10 true; EvRight 1%N 0%N 10 true false])] in
  validate_all 2%N 20 (build_rooms defs)
    [MEnt {| h_kind := KNormal; h_ent := 3%N; h_room := Some 1%N; h_date := 20; h_has_node := true;
             h_too_big := false; h_old := None; h_edge_dels := [] |} []] = VOk /\
  validate_all 2%N 20 (build_rooms defs)
    [MEnt {| h_kind := KNormal; h_ent := 3%N; h_room := Some 1%N; h_date := 20; h_has_node := true;
             h_too_big := false; h_old := Some {| o_room := Some 1%N; o_author := 5%N |}; h_edge_dels := [] |} []] = VRejected.
Proof. exact C01_nonvacuous. Qed.
Print Assumptions C01_nonvacuous_ex.

(* ================= system level (definitions: model/System.v; proofs: proofs/SystemP.v) =================
   Whatever sequence, of any length, of validated local writes (SysWrite) and local deletions
   (SysDelete) the local user submits — refused ones included, they change nothing — every stored
   row stays ENTITLED: private, or its author granted the own-rows right for the row's entity by the
   room's accepted history at the row's modification date.  The room definitions `defs` are fixed
   along the history (their changes: (1) above, C07, C10).  No exclusion.  This is the local special
   case of C02_rows_invariant_holds (props/C02.v), which holds for histories interleaved with remote
   ingestion as well; for references see C02_store_invariant_outside_known. *)
From DV Require Import System SystemP.

Theorem C01_store_invariant_holds : forall defs dm hist st,
  forallb is_local hist = true ->
  nodes_entitled defs st = true ->
  nodes_entitled defs (sys_final (build_rooms defs) dm st hist) = true.
Proof. exact local_rows_invariant. Qed.
Print Assumptions C01_store_invariant_holds.

(* ================= system level, room definitions GROWING (definitions: model/SystemDefs.v; proofs:
   proofs/SystemDefsP.v) =================
   The restriction "`defs` fixed along the history" is removed: the definitions are part of the state
   and `SysGrow R new` appends the entries `new` to room R's entry list, consumed as room.rs' add_*
   calls consume them (oldest first, a refused call skipped), or creates room R from them. *)
From DV Require Import SystemDefs SystemDefsP.

(* (5) PAST-STABILITY: appended entries change no decision at date d — any key, entity, right kind —
   provided those of them the room ACCEPTS (accepted_tail) are all dated strictly after d
   (group creations carry no date).  For the specification and for the executable room. *)
Theorem C01_past_grants_stable : forall id evs new d,
  evs_after d (accepted_tail id evs new) = true ->
  forall k en t,
    granted (accepted id (evs ++ new)) k en d t = granted (accepted id evs) k en d t /\
    can (build id (evs ++ new)) k en d t = can (build id evs) k en d t.
Proof. exact past_grants_stable. Qed.
Print Assumptions C01_past_grants_stable.

(* the boundary is exact: room.rs refuses an entry only if it is older than the LAST entry of the SAME
   key, so (a) an entry dated d itself is accepted and wins the tie; (b) a back-dated FIRST entry of
   another key is accepted and grants in the past; (c) a back-dated entry of a key with a later entry
   is refused and changes nothing (hence the condition on the accepted tail only); (d) a back-dated
   right entry of an entity without entry is accepted and revokes in the past *)
Example C01_past_grants_boundary_refuted :
  (snd (build_from (build 1 w_room) [EvUser 1 2 5 false]) = [true] /\
   evs_after 5 (accepted_tail 1 w_room [EvUser 1 2 5 false]) = false /\
   evs_after 4 (accepted_tail 1 w_room [EvUser 1 2 5 false]) = true /\
   can (build 1 w_room) 2 1 5 MutateSelf = true /\
   can (build 1 (w_room ++ [EvUser 1 2 5 false])) 2 1 5 MutateSelf = false /\
   granted (accepted 1 w_room) 2 1 5 MutateSelf = true /\
   granted (accepted 1 (w_room ++ [EvUser 1 2 5 false])) 2 1 5 MutateSelf = false)%N /\
  (snd (build_from (build 1 w_room) [EvUser 1 3 2 true]) = [true] /\
   can (build 1 w_room) 3 1 4 MutateSelf = false /\
   can (build 1 (w_room ++ [EvUser 1 3 2 true])) 3 1 4 MutateSelf = true)%N /\
  (snd (build_from (build 1 w_room) [EvUser 1 2 4 false]) = [false] /\
   accepted_tail 1 w_room [EvUser 1 2 4 false] = [] /\
   evs_after 100 [EvUser 1 2 4 false] = false /\
   can (build 1 (w_room ++ [EvUser 1 2 4 false])) 2 1 5 MutateSelf = true)%N /\
  (snd (build_from (build 1 w_room) [EvRight 1 1 3 false false]) = [true] /\
   can (build 1 (w_room ++ [EvRight 1 1 3 false false])) 2 1 5 MutateSelf = false)%N.
Proof. exact past_grants_boundary_refuted. Qed.
Print Assumptions C01_past_grants_boundary_refuted.

(* (6) THE STORE INVARIANT UNDER DEFINITION GROWTH: over any history, of any length, mixing remote
   ingestion calls, local writes, local deletions (SysStep, as System.sys_do, run against the rooms
   built from the CURRENT definitions) and growth steps, every stored row stays entitled w.r.t. the
   current definitions, provided each growth step adds (accepted entries only) entries dated strictly
   after every row then stored in that room (ghist_rows_ok, evaluated on the state before the step) *)
Theorem C01_store_invariant_defs_growth_holds : forall dm hist g,
  g_nodes_entitled g = true ->
  ghist_rows_ok dm g hist = true ->
  g_nodes_entitled (gsys_final dm g hist) = true.
Proof. exact store_invariant_defs_growth. Qed.
Print Assumptions C01_store_invariant_defs_growth_holds.

(* rows AND references: System.step_stable on the other steps; on a growth step also the creation
   dates of the references hanging on rows of the room (needed: references_need_their_dates) *)
Theorem C01_store_all_invariant_defs_growth_holds : forall dm hist g,
  g_all_entitled g = true ->
  ghist_stable dm g hist = true ->
  g_all_entitled (gsys_final dm g hist) = true.
Proof. exact store_all_invariant_defs_growth. Qed.
Print Assumptions C01_store_all_invariant_defs_growth_holds.

(* the side condition is NEEDED: the executable room accepts the back-dated "key 2 disabled at 5"
   (its last entry is dated 3) while row 100 of key 2, written at date 7, is stored: the row is no
   longer entitled.  Same with a back-dated right entry and with an entry dated as the row; a later
   entry is harmless.  gverdicts = (initial state entitled, rows side condition, rows+references side
   condition, final rows entitled, final state entitled) *)
Example C01_store_invariant_backdated_refuted :
  gc_answers w_backdated = [[0]; [0; 1]] /\ gverdicts w_backdated = (true, false, false, false, false) /\
  ghist_rows_ok (gc_dm w_backdated) (gc_init w_backdated) [write_w 2%N 7 1%N 1%N 100%N] = true /\
  g_nodes_entitled (gsys_final (gc_dm w_backdated) (gc_init w_backdated) [write_w 2%N 7 1%N 1%N 100%N]) = true /\
  dump (g_store (gc_final w_backdated)) = [1; 1; 0; 0; 0] /\
  gc_answers w_backdated_right = [[0]; [0; 1]] /\ gverdicts w_backdated_right = (true, false, false, false, false) /\
  gc_answers w_samedate = [[0]; [0; 1]] /\ gverdicts w_samedate = (true, false, false, false, false) /\
  gc_answers w_later = [[0]; [0; 1]] /\ gverdicts w_later = (true, true, true, true, true).
Proof. exact store_invariant_backdated_refuted. Qed.
Print Assumptions C01_store_invariant_backdated_refuted.

(* non-vacuity: ten steps from the empty store — a write, a growth step revoking key 2 at a later
   date, a write of key 2 refused after the revocation, a remote row of key 2 dated BEFORE the
   revocation accepted, one dated after it rejected, a growth step with one accepted and one refused
   (back-dated) entry, a write accepted again, the creation of a second room, a write there, a
   deletion by the holder of the all-rows right *)
Example C01_defs_growth_nonvacuous :
  gverdicts w_growth_ok = (true, true, true, true, true) /\
  gc_answers w_growth_ok = [[0]; [0; 1]; [1]; [0; 0]; [0; 1; 104]; [0; 1; 0]; [0]; [2; 1; 1; 1]; [0]; [0]] /\
  dump (g_store (gc_final w_growth_ok)) = [4; 5; 7; 8; 9;  0;  0;  0] /\
  g_defs (gc_final w_growth_ok) =
    [(1, [EvGroup 1; EvUser 1 1 10 true; EvRight 1 0 10 true true;
          EvGroup 2; EvUser 2 2 10 true; EvRight 2 0 10 true false;
          EvUser 2 2 30 false; EvUser 2 2 40 true; EvUser 2 2 15 false]);
     (2, [EvGroup 1; EvUser 1 3 50 true; EvRight 1 0 50 true false])]%N.
Proof. exact defs_growth_nonvacuous. Qed.
Print Assumptions C01_defs_growth_nonvacuous.
