(* C18 — Every committed change is announced.
   Property theorems only: statement, exact, Print Assumptions.  Proofs: proofs/C18P.v (on top of proofs/C09P.v).
   Model: model/Events.v over model/DailyLog.v; run/oracle: run/Run_C18.v.
   PARTIAL: the theorems are about the writer-level model (batches of write / recompute messages,
   marks written at the end of a batch, events built from the rows a recompute found dirty).
   How tokio schedules the readers, the authorisation actor and the writer is not modelled: the
   order in which the harness sees the writes and the event of a stream is observed, and for
   room-modified events the commit order of concurrent mutations is read off the events (CRoomBurst).
   C18_full (proofs/C18P.v) is the statement at full strength; no refutation of it is left that the real
   code reproduces (all known classes were repaired); what is proved is C18_data_holds_partial. *)
From DV Require Import Run_C09 C09P Run_C18 C18P.

(* (1) the source of events: a recompute reports every row that is dirty when it runs ... *)
Theorem C18_compute_reports_all_dirty_partial : forall s s' rep, compute s = (s', rep) ->
  forall l, In l (log s) -> l_dirty l = true -> In (lrow_key l) rep.
Proof. exact compute_reports_all_dirty. Qed.
Print Assumptions C18_compute_reports_all_dirty_partial.
(* ... and the end of a writer batch turns every mark of the batch into a dirty row (so a recompute
   in the SAME batch does not see it, one in any later batch does) *)
Theorem C18_marks_become_dirty_partial : forall ks lg k, key_mem k ks = true -> dirty_key (write_marks ks lg) k.
Proof. exact write_marks_dirty. Qed.
Print Assumptions C18_marks_become_dirty_partial.

(* (2) dirty-or-reported, for ANY batching (any interleaving of the messages of concurrent callers,
   recomputes anywhere): a key changed by a committed covering write and not announced since is
   pending in the current batch or a dirty row ... *)
Theorem C18_dirty_or_reported_partial : forall bs s tr s' tr',
  OI s [] (owed tr) -> batches_covered s bs -> trace_batches (s, tr) bs = (s', tr') -> OI s' [] (owed tr').
Proof. exact trace_batches_OI. Qed.
Print Assumptions C18_dirty_or_reported_partial.
(* ... hence once a recompute request has been processed in a batch after the last write, every
   changed key has been announced *)
Theorem C18_quiescent_partial : forall t0 bs s' tr',
  batches_covered (init t0) bs -> trace_batches (init t0, []) (bs ++ [[MCompute]]) = (s', tr') -> owed tr' = [].
Proof. exact any_batching_quiescent. Qed.
Print Assumptions C18_quiescent_partial.

(* (3) API level, about the functions the harness evaluates: any sequence of mutate / delete calls
   (write, acknowledgement, then recompute request), ingested batches, explicit recompute requests
   and mutation streams (recompute request after the last reply, a874354), none of whose writes
   leaves a changed key unmarked (known_C18 = []; proofs/C09P.v shows which writes always cover),
   announces every changed key by the time each call that promises it is over *)
Theorem C18_seq_holds_partial : forall t0 prog, known_C18 (CSeq t0 prog) = [] ->
  spec_C18 (CSeq t0 prog) (run_C18 (CSeq t0 prog)) = true.
Proof. exact seq_holds_spec. Qed.
Print Assumptions C18_seq_holds_partial.
(* every promising call — a stream included, whatever it streams — ends with a recompute processed
   in a batch after its writes: no schedule premise is left *)
Theorem C18_promising_ends_with_compute_partial : forall a, promises a = true ->
  exists bs, batches_of a = bs ++ [[MCompute]].
Proof. exact promising_ends_with_compute. Qed.
Print Assumptions C18_promising_ends_with_compute_partial.

(* (4) the former refutation witness of the stream schedule (directed case of the harness) passes *)
Theorem C18_stream_holds_partial :
  spec_C18 w_stream (run_C18 w_stream) = true /\ known_C18 w_stream = [] /\
  run_trace w_stream = [TW []; TW [(1%N, 1%N, 0)]; TE [(1%N, 1%N, 0)]; TQ].
Proof. exact stream_holds. Qed.
Print Assumptions C18_stream_holds_partial.
(* the former witness of an unmarked key (a synchronised version under another entity, repaired by
   9b19d99) is announced *)
Theorem C18_unmarked_holds_partial : spec_C18 w_unmarked (run_C18 w_unmarked) = true /\ known_C18 w_unmarked = [].
Proof. exact unmarked_holds. Qed.
Print Assumptions C18_unmarked_holds_partial.
(* the former witness of C09 class 7 (an edge tombstone replaced under another source entity,
   repaired by de0967d) is announced *)
Theorem C18_edge_tombstone_holds_partial : spec_C18 w_edge_tombstone18 (run_C18 w_edge_tombstone18) = true /\ known_C18 w_edge_tombstone18 = [].
Proof. exact edge_tombstone_holds. Qed.
Print Assumptions C18_edge_tombstone_holds_partial.

(* (5) no class hypothesis left: every program of mutate / delete calls, ingested batches, recompute
   requests and streams whose writes stay inside the envelope of C09_all_writes_cover (a local
   deletion names one stored row; no edge tombstone already dated at the instant of a local reference
   deletion) announces every changed key by the time each promising call is over *)
Theorem C18_data_holds_partial : forall t0 prog, prog_env (init t0) prog ->
  spec_C18 (CSeq t0 prog) (run_C18 (CSeq t0 prog)) = true.
Proof. exact seq_holds_env. Qed.
Print Assumptions C18_data_holds_partial.

(* (6) room-modified events under concurrency: the events of the model — the fold of the accepted
   mutations of a room in commit order, as the second validation after the write produces them — are,
   for EVERY commit order, one per accepted mutation, only grow, and the last carries every accepted
   entry (the oracle the harness applies to the events of the real code, room-burst scenarios) *)
Theorem C18_room_events_hold_partial : forall base accepted order, Permutation.Permutation order accepted ->
  room_events_ok base accepted (room_events base order) = true.
Proof. exact room_events_hold. Qed.
Print Assumptions C18_room_events_hold_partial.

Example C18_nonvacuous :
  known_C18 w_seq = [] /\ spec_C18 w_seq (run_C18 w_seq) = true /\
  length (filter (fun e => match e with TE (_ :: _) => true | _ => false end) (run_trace w_seq)) = 5%nat.
Proof. exact seq_nonvacuous. Qed.
Print Assumptions C18_nonvacuous.
