(* C03 — Synchronisation converges: all members end with the same room content.
   Property theorems only: statement, exact, Print Assumptions.  Proofs: proofs/SyncP.v, proofs/C03P.v.
   Model: model/Sync.v (one room, one entity of node rows; which days a pull exchanges is an argument —
   the daily-log comparison is C09's subject). *)
From DV Require Import Sync SyncObs SyncP Run_C03 C03P C03Q.

(* the statement at full strength, against the faithful model: for every history the model's own
   observation passes the property's oracle (every pull delivers what the source has; after two quiet
   full rounds all members show the same rows and deletion records) *)
Definition C03_full : Prop := forall c, spec_C03 c (run_C03 c) = true.

(* refuted on the faithful model: two deletion records of one row in one answer collapse to one
   (NodeDeletionEntry::with_previous_authors) — class 3 *)
Theorem C03_refuted_collapse :
  spec_C03 witness_collapse (run_C03 witness_collapse) = false /\ known_C03 witness_collapse = [3].
Proof. exact refuted_collapse. Qed.
Print Assumptions C03_refuted_collapse.

(* ... when a deletion record removes another version than the one it names
   (NodeDeletionEntry::delete_all deletes whatever is stored) — class 2 *)
Theorem C03_refuted_other_version :
  spec_C03 witness_other_version (run_C03 witness_other_version) = false /\ known_C03 witness_other_version = [2].
Proof. exact refuted_other_version. Qed.
Print Assumptions C03_refuted_other_version.

(* ... and whenever the log comparison skips a day on which the source holds a row the receiver
   needs (history-hash shortcut, stale daily hash) — class 4 *)
Theorem C03_refuted_skipped_day :
  spec_C03 witness_skipped_day (run_C03 witness_skipped_day) = false /\ known_C03 witness_skipped_day = [4].
Proof. exact refuted_skipped_day. Qed.
Print Assumptions C03_refuted_skipped_day.

Theorem C03_refuted : ~ C03_full.
Proof. intros H. pose proof (H witness_collapse) as E. rewrite (proj1 refuted_collapse) in E. discriminate. Qed.
Print Assumptions C03_refuted.

(* (1) Node::filter_existing + write implement the join "greatest (modification date, signature)
   per row id": for every receiver, every source without deletion records, every selection of days that
   covers what a complete comparison selects, every row id *)
Theorem C03_lww_join : forall dst src days x,
  tombs src = [] -> nodup_ids (nodes src) ->
  days_cover days (needed_days dst src) = true ->
  find_node x (nodes (fst (fst (pull_replica false dst src days)))) =
  vjoin (find_node x (nodes dst)) (find_node x (nodes src)).
Proof. exact pull_is_join. Qed.
Print Assumptions C03_lww_join.

(* the join is a semilattice on the versions of one row: the winner does not depend on the order in
   which versions arrive *)
Theorem C03_join_commutative : forall a b, same_id a b -> vjoin a b = vjoin b a.
Proof. exact vjoin_comm. Qed.
Print Assumptions C03_join_commutative.
Theorem C03_join_associative : forall a b c, same_id a b -> same_id b c -> same_id a c ->
  vjoin (vjoin a b) c = vjoin a (vjoin b c).
Proof. exact vjoin_assoc. Qed.
Print Assumptions C03_join_associative.
Theorem C03_join_idempotent : forall a, vjoin a a = a.
Proof. exact vjoin_idem. Qed.
Print Assumptions C03_join_idempotent.

(* (2) outside the known classes: any number of peers, any history of creations, updates (any clocks,
   same-millisecond ties included) and pulls in any order — no deletions —, every pull having selected
   the days a complete comparison selects (known_C03 = []), ending with rounds in which every ordered
   pair pulls and nothing is requested: every member holds the same rows and deletion records.
   [run_sys false (init_sys n) ops] is the system whose dumps [run_C03] prints. *)
Theorem C03_outside_known : forall n hist final,
  let c := C03Case n hist final in
  known_C03 c = [] -> no_deletes (hist ++ final) = true ->
  only_pulls final = true -> full_round n final = true -> c03_quiet c = true ->
  all_agree (run_sys false (init_sys n) (hist ++ final)) = true.
Proof. exact outside_known. Qed.
Print Assumptions C03_outside_known.

(* (3) a further synchronisation between converged peers transfers no row and changes nothing *)
Theorem C03_converged_stays_quiet : forall dst src days,
  tombs src = [] -> nodup_ids (nodes src) ->
  (forall x, find_node x (nodes dst) = find_node x (nodes src)) ->
  snd (fst (pull_replica false dst src days)) = 0%N /\
  nodes (fst (fst (pull_replica false dst src days))) = nodes dst.
Proof. exact converged_stays_quiet. Qed.
Print Assumptions C03_converged_stays_quiet.

(* (4) the per-pull clause of the oracle, on the model's own states: a pull from a source without
   deletion records that selects the days a complete comparison selects delivers everything the
   source has ([delivered] is the function spec_C03 applies to the implementation's dumps) *)
Theorem C03_pull_delivers : forall dst src days,
  tombs src = [] -> nodup_ids (nodes src) ->
  days_cover days (needed_days dst src) = true ->
  delivered src (fst (fst (pull_replica false dst src days))) = true.
Proof. exact pull_delivers. Qed.
Print Assumptions C03_pull_delivers.

(* (5) the same version wins everywhere, whatever the order in which versions arrive: whatever
   sequence of complete pulls leads from S (no deletion records) to a state in which the members
   agree on row x, every member then holds the join — greatest (modification date, signature) — of
   the versions of x the members held in S *)
Theorem C03_winner_order_independent : forall S ops x p,
  no_tombs S -> wf S -> pulls_in_range (length S) ops -> run_complete false S ops = true ->
  (N.to_nat p < length S)%nat ->
  (forall q r, find_node x (nodes (get q (run_sys false S ops))) = find_node x (nodes (get r (run_sys false S ops)))) ->
  find_node x (nodes (get p (run_sys false S ops))) = gview S x.
Proof. exact winner_order_independent. Qed.
Print Assumptions C03_winner_order_independent.

Example C03_nonvacuous :
  known_C03 example_ok = [] /\ no_deletes (c03_ops example_ok) = true /\ only_pulls (c03_final example_ok) = true /\
  full_round 3%N (c03_final example_ok) = true /\ c03_quiet example_ok = true /\
  spec_C03 example_ok (run_C03 example_ok) = true /\
  map (fun r => map n_sig (nodes r)) (run_sys false (init_sys 3%N) (c03_ops example_ok)) <> [[]; []; []].
Proof. exact nonvacuous. Qed.
Print Assumptions C03_nonvacuous.
