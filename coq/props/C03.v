(* C03 — Synchronisation converges: all members end with the same room content.
   Property theorems only: statement, exact, Print Assumptions.  Proofs: proofs/SyncP.v, proofs/C03P.v,
   proofs/C03Q.v.
   Model: model/Sync.v = the code after the fix commits ca69f52, bb1bffb, ad91329 (one room, one entity
   of node rows; which days a pull exchanges is an argument — the daily-log comparison is C09's subject).
   Former classes 2 (a deletion record removing another version) and 3 (two deletion records collapsing
   to one) are repaired and are covered by C03_outside_known, which includes deletions and references; open:
   class 4 (a pull that skips a day the receiver needs: history-hash shortcut, C09 class 4), class 5 (the
   references of the losing version of a row are never delivered), class 6 (a reference deletion record
   leaves an older version of the same reference in place). *)
From DV Require Import Sync SyncObs SyncP Run_C03 C03P C03Q.

(* the statement at full strength, against the faithful model: for every history the model's own
   observation passes the property's oracle (every pull delivers what the source has; after two quiet
   full rounds all members show the same rows and deletion records) *)
Definition C03_full : Prop := forall c, spec_C03 c (run_C03 c) = true.

(* refuted whenever the log comparison skips a day on which the source holds a row the receiver
   needs (history-hash shortcut) — class 4, open *)
Theorem C03_refuted_skipped_day :
  spec_C03 witness_skipped_day (run_C03 witness_skipped_day) = false /\ known_C03 witness_skipped_day = [4].
Proof. exact refuted_skipped_day. Qed.
Print Assumptions C03_refuted_skipped_day.

(* ... when two peers concurrently add different references to one row: the references of the losing
   version never reach the other peer (Query::Edges is asked only for rows that pass filter_existing) —
   class 5, open; the members stay different although nothing moves any more *)
Theorem C03_refuted_ref_lost :
  spec_C03 witness_ref_lost (run_C03 witness_ref_lost) = false /\ known_C03 witness_ref_lost = [5] /\
  c03_quiet witness_ref_lost = true /\
  map (fun r => map (fun e => (e_src e, e_dest e)) (shown_refs r)) (run_sys (init_sys 2%N) (c03_ops witness_ref_lost)) =
  [[(1%N, 3%N); (1%N, 2%N)]; [(1%N, 3%N)]].
Proof. exact refuted_ref_lost. Qed.
Print Assumptions C03_refuted_ref_lost.

(* ... and when a reference deletion record meets an older version of the same reference: it removes
   only the exactly named version (EdgeDeletionEntry::delete_all compares the creation date) — class 6, open *)
Theorem C03_refuted_ref_below :
  spec_C03 witness_ref_below (run_C03 witness_ref_below) = false /\ known_C03 witness_ref_below = [6] /\
  map (fun r => (length (shown_refs r), length (etombs r))) (run_sys (init_sys 2%N) (c03_ops witness_ref_below)) = [(1, 1); (0, 1)]%nat.
Proof. exact refuted_ref_below. Qed.
Print Assumptions C03_refuted_ref_below.

Theorem C03_refuted : ~ C03_full.
Proof. intros H. pose proof (H witness_skipped_day) as E. rewrite (proj1 refuted_skipped_day) in E. discriminate. Qed.
Print Assumptions C03_refuted.

(* outside the open classes: any number of peers, any history of creations, updates (any clocks inside
   the envelope, same-millisecond ties included), deletions, REFERENCE additions and removals, and pulls
   in any order — every pull having selected the days a complete comparison selects (class 4), having
   left no shown reference undelivered (class 5), no reference ever lying below a reference deletion
   record (class 6): known_C03 = [] —, ending with rounds in which every ordered pair pulls and nothing
   moves: every member holds the same rows and the same deletion records, shows the same references and
   holds the same reference deletion records ([all_agree] is the function spec_C03 applies to the dumps).
   [run_sys (init_sys n) ops] is the system whose dumps [run_C03] prints; the envelope (decided on the
   run) = creations use ids the peer does not know yet, no local update carries a clock behind the
   version it replaces. *)
Theorem C03_outside_known : forall n hist final,
  let c := C03Case n hist final in
  known_C03 c = [] -> c03_envelope c = true ->
  full_round n final = true -> c03_quiet c = true ->
  all_agree (run_sys (init_sys n) (hist ++ final)) = true.
Proof. exact outside_known. Qed.
Print Assumptions C03_outside_known.

(* ... and the converged content is coherent: inside the envelope no member ever shows a row together
   with a deletion record that covers it ([coherent] is the function spec_C03 applies to the final dumps) *)
Theorem C03_converged_coherent : forall n hist final,
  let c := C03Case n hist final in
  c03_envelope c = true -> forallb coherent (run_sys (init_sys n) (hist ++ final)) = true.
Proof. exact converged_coherent. Qed.
Print Assumptions C03_converged_coherent.

(* batching: a day's deletion records and rows may arrive cut into any number of batches; applying them
   batch by batch gives what applying the whole answer gives, provided the split loses no element
   (that proviso is what the harness checks on the code, with answers of ~4 KiB) *)
Theorem C03_batches_lossless : forall tchunks rchunks r l,
  apply_tomb_batches tchunks r = fold_left apply_tomb (concat tchunks) r /\ put_batches rchunks l = fold_left put_node (concat rchunks) l.
Proof. intros. split; [apply batches_lossless_tombs|apply batches_lossless_rows]. Qed.
Print Assumptions C03_batches_lossless.

(* ... also when the last batch is empty (the number of rows to fetch is an exact multiple of the batch
   size of synchronise_day, 2048): checked on the code by the harness case 'batch_boundary' *)
Theorem C03_batches_empty_tail : forall (chunks : list (list nrow)) l, put_batches (chunks ++ [[]]) l = put_batches chunks l.
Proof. exact batches_empty_tail. Qed.
Print Assumptions C03_batches_empty_tail.

(* between replicas without deletion records: Node::filter_existing + write implement the join
   "greatest (modification date, signature) per row id" *)
Theorem C03_lww_join : forall dst src days x,
  tombs src = [] -> tombs dst = [] -> nodup_ids (nodes src) ->
  days_cover days (needed_days dst src) = true ->
  find_node x (nodes (fst (pull_replica dst src days))) =
  vjoin (find_node x (nodes dst)) (find_node x (nodes src)).
Proof. exact pull_is_join. Qed.
Print Assumptions C03_lww_join.

(* the join is a semilattice on the versions of one row: the winner does not depend on the order in
   which versions arrive *)
Theorem C03_join_commutative : forall a b, same_id a b -> vjoin a b = vjoin b a.
Proof. exact vjoin_comm. Qed.
Print Assumptions C03_join_commutative.
Theorem C03_join_associative : forall a b c, same_id a b -> same_id b c -> same_id a c ->
  vjoin (vjoin a b) c = vjoin a (vjoin b c).
Proof. exact vjoin_assoc. Qed.
Print Assumptions C03_join_associative.
Theorem C03_join_idempotent : forall a, vjoin a a = a.
Proof. exact vjoin_idem. Qed.
Print Assumptions C03_join_idempotent.

(* a further synchronisation between converged peers transfers no row and changes nothing *)
Theorem C03_converged_stays_quiet : forall dst src days,
  tombs src = [] -> tombs dst = [] -> nodup_ids (nodes src) ->
  (forall x, find_node x (nodes dst) = find_node x (nodes src)) ->
  snd (pull_replica dst src days) = 0%N /\ nodes (fst (pull_replica dst src days)) = nodes dst.
Proof. exact converged_stays_quiet. Qed.
Print Assumptions C03_converged_stays_quiet.

(* the per-pull clause of the oracle, on the model's own states ([delivered] is the function spec_C03
   applies to the implementation's dumps) *)
Theorem C03_pull_delivers : forall dst src days,
  tombs src = [] -> tombs dst = [] -> nodup_ids (nodes src) ->
  days_cover days (needed_days dst src) = true ->
  delivered src (fst (pull_replica dst src days)) = true.
Proof. exact pull_delivers. Qed.
Print Assumptions C03_pull_delivers.

(* the same version wins everywhere, whatever the order in which versions arrive: whatever sequence
   of complete pulls leads from S (no deletion records) to a state in which the members agree on row x,
   every member then holds the join of the versions of x the members held in S *)
Theorem C03_winner_order_independent : forall S ops x p,
  no_tombs S -> wf S -> pulls_in_range (length S) ops -> run_complete S ops = true ->
  (N.to_nat p < length S)%nat ->
  (forall q r, find_node x (nodes (get q (run_sys S ops))) = find_node x (nodes (get r (run_sys S ops)))) ->
  find_node x (nodes (get p (run_sys S ops))) = gview S x.
Proof. exact winner_order_independent. Qed.
Print Assumptions C03_winner_order_independent.

(* regression examples (the former refutation witnesses of the repaired classes) *)
Example C03_two_records_hold :
  spec_C03 witness_two_records (run_C03 witness_two_records) = true /\ known_C03 witness_two_records = [].
Proof. exact two_records_hold. Qed.
Print Assumptions C03_two_records_hold.

Example C03_other_version_holds :
  spec_C03 witness_other_version (run_C03 witness_other_version) = true /\ known_C03 witness_other_version = [] /\
  map (fun r => (map n_mdate (nodes r), length (tombs r))) (run_sys (init_sys 3%N) (c03_ops witness_other_version)) =
  [([63000], 2%nat); ([63000], 2%nat); ([63000], 2%nat)].
Proof. exact other_version_holds. Qed.
Print Assumptions C03_other_version_holds.

Example C03_refs_nonvacuous :
  spec_C03 example_refs_ok (run_C03 example_refs_ok) = true /\ known_C03 example_refs_ok = [] /\
  c03_quiet example_refs_ok = true /\ c03_envelope example_refs_ok = true /\
  full_round 2%N (c03_final example_refs_ok) = true /\
  map (fun r => (map e_cdate (shown_refs r), length (etombs r))) (run_sys (init_sys 2%N) (c03_ops example_refs_ok)) =
  [([31000], 1%nat); ([31000], 1%nat)].
Proof. exact refs_nonvacuous. Qed.
Print Assumptions C03_refs_nonvacuous.

Example C03_nonvacuous :
  known_C03 example_ok = [] /\ c03_envelope example_ok = true /\
  full_round 3%N (c03_final example_ok) = true /\ c03_quiet example_ok = true /\
  spec_C03 example_ok (run_C03 example_ok) = true /\
  map (fun r => (map n_sig (nodes r), length (tombs r))) (run_sys (init_sys 3%N) (c03_ops example_ok)) =
  [([5%N], 1%nat); ([5%N], 1%nat); ([5%N], 1%nat)].
Proof. exact nonvacuous. Qed.
Print Assumptions C03_nonvacuous.
