From DV Require Import DataModel Run_C15 C15P.
Theorem C15_placeholder : True.
Proof. exact placeholder_c15. Qed.
Print Assumptions C15_placeholder.
