(* C15 — Changing the data model never loses data and a refused change changes nothing.
   Property theorems only: statement, exact, Print Assumptions.
   Model: model/DataModel.v (parse_internal, insert, add_field/insert_field, update_system, update,
   update_with = apply_update on a clone + swap, Entity::update; hash-map iteration orders = the
   oracle argument `o`, every theorem quantifies over all oracles).
   Proofs: proofs/DataModelP.v, proofs/DataModelAgainP.v, proofs/C15P.v.
   Functions of run/Run_C15.v used below are the ones the harness evaluates on every case:
   run_steps / upd (what run_C15 prints), stable_b / wf_b / newfields_b (clauses of spec_C15).
   The three defects this check found on the original tree (K1, K2, K3) are repaired in /repo
   (a0ddb65, c4c0a2e, 332422f); the statements below are the full-strength ones, their former
   refutation witnesses are kept as regression examples at the end. *)
From DV Require Import DataModel Run_C15 DataModelP DataModelAgainP C15P.
Local Open Scope N_scope.

(* The part of the property that is a statement about the model, for every history of
   update_system / update calls from the empty model and all iteration orders os1, os2 of the
   hash maps: addresses of existing data are kept, identifiers never change or collide, a refused
   version changes nothing, acceptance and the resulting models (identifiers included) do not
   depend on the iteration orders. What it leaves out: that rows read back through the real query
   evaluator / SQLite are the same (observed on real instances by the harness; proved below for
   readers that address values by storage identifier). *)
Definition C15_full : Prop :=
  forall steps os1 os2,
    let h := run_steps empty_model steps os1 in
    chain addresses_kept empty_model h /\ hist_ok empty_model h /\ refused_unchanged empty_model h
    /\ map outcome (run_steps empty_model steps os2) = map outcome h.

(* (1) identifiers never change or collide: each namespace, entity and field that existed keeps
   name, storage identifier and type (stable_b), no two share an identifier (wf_b), a field added
   to an existing entity is nullable, has a default or is a reference (newfields_b) *)
Theorem C15_stable_holds : forall steps os, hist_ok empty_model (run_steps empty_model steps os).
Proof. exact ids_stable_all_histories. Qed.
Print Assumptions C15_stable_holds.

(* the same in relational form for one step (field_ext: same name, identifier, type) *)
Theorem C15_stable_step : forall o sys M v, model_ext (m_nss M) (m_nss (fst (upd o sys M v))).
Proof. exact upd_ext. Qed.
Print Assumptions C15_stable_step.

(* (2) existing data stays readable under the same names — for any reader that finds a value
   through the entity's and the field's storage identifier (as the query layer does: `_entity`
   = entity short name, `_json->>'$.<field short name>'`).  `_partial`: the real query evaluator
   and SQLite are not modelled; the harness reads rows back on real instances. *)
Theorem C15_readable_partial : forall steps os,
  chain addresses_kept empty_model (run_steps empty_model steps os).
Proof. intros. apply run_steps_addresses_kept. exact wf_model_nil. Qed.
Print Assumptions C15_readable_partial.

Theorem C15_readable_reader_partial : forall (store : Type) (read_at : eshort * N * ftype -> store -> N -> option N)
  o sys M v ns e f db row, wf_model (m_nss M) -> address (m_nss M) ns e f <> None ->
  read store read_at (m_nss (fst (upd o sys M v))) ns e f db row = read store read_at (m_nss M) ns e f db row.
Proof. exact read_stable. Qed.
Print Assumptions C15_readable_reader_partial.

(* (3) identifiers depend only on the versions applied: whatever the iteration orders of two peers,
   they accept the same versions and hold the same models — identifiers, flags, indexes, text —
   after every step of every history *)
Theorem C15_deterministic_holds : forall steps os1 os2 M,
  map outcome (run_steps M steps os1) = map outcome (run_steps M steps os2).
Proof. exact run_steps_outcome_det. Qed.
Print Assumptions C15_deterministic_holds.

Theorem C15_deterministic_step : forall o1 o2 sys M v,
  is_none (snd (upd o1 sys M v)) = is_none (snd (upd o2 sys M v)) /\ fst (upd o1 sys M v) = fst (upd o2 sys M v).
Proof. exact upd_outcome_det. Qed.
Print Assumptions C15_deterministic_step.

(* (4) a refused version changes nothing, whatever it is refused for and wherever the in-place
   loops of apply_update had got to *)
Theorem C15_refused_holds : forall o sys M v e, snd (upd o sys M v) = Some e -> fst (upd o sys M v) = M.
Proof. exact refused_changes_nothing. Qed.
Print Assumptions C15_refused_holds.

Theorem C15_refused_histories_hold : forall steps os M, refused_unchanged M (run_steps M steps os).
Proof. exact run_steps_refused_unchanged. Qed.
Print Assumptions C15_refused_histories_hold.

(* (5) the same model again (what every restart does) changes nothing: an accepted version —
   with any number of new namespaces, entities and fields — applied again under any iteration
   order is accepted, and the model stays exactly as it is (the new fields, inserted in the order
   of the text, got the identifiers the text gives them: pigeonhole on position-based identifiers) *)
Theorem C15_restart_holds : forall o o' sys M v, wf_model (m_nss M) -> snd (upd o sys M v) = None ->
  upd o' sys (fst (upd o sys M v)) v = (fst (upd o sys M v), None).
Proof. exact upd_again. Qed.
Print Assumptions C15_restart_holds.

(* (wf_model — no collisions — holds for every model a history reaches) *)
Theorem C15_reachable_models_wf : forall steps os,
  Forall (fun r => wf_model (m_nss (snd r))) (run_steps empty_model steps os).
Proof. intros. apply run_steps_wf. exact wf_model_nil. Qed.
Print Assumptions C15_reachable_models_wf.

(* (6) real instances (GraphDatabase::update_data_model): for every history of starts and run-time
   updates — versions refused by the data model rules or by the database when the model is stored
   (storage_refuses: index names that differ only by letter case) included — the model in memory
   is the stored one after every step, a refused step leaves the store (hence the running
   instance) as it was, an accepted one keeps the identifiers *)
Theorem C15_instance_memory_is_store : forall steps os,
  inst_chain empty_model (run_inst_obs empty_model empty_model false None steps os).
Proof. intros. apply run_inst_chain; [exact wf_model_nil | discriminate]. Qed.
Print Assumptions C15_instance_memory_is_store.

(* the model part of the property, all together *)
Theorem C15_full_partial : C15_full.
Proof.
  intros steps os1 os2. cbv zeta. split; [apply run_steps_addresses_kept; exact wf_model_nil|].
  split; [apply ids_stable_all_histories|]. split; [apply run_steps_refused_unchanged | apply run_steps_outcome_det].
Qed.
Print Assumptions C15_full_partial.

(* (7) regression examples: the witnesses that refuted (3), (4), (5) on the original tree.
   K1: f3 and f2 added at once get the identifiers of their place in the text and the same text
   again is accepted;  K2: a version valid for E1 and invalid for E2 is refused and nothing has
   changed, whichever entity the hash map visits first *)
Example C15_k1_regression :
  let a := run_steps empty_model w_steps [] in
  map fst a = [None; None; None] /\ map (fun r => field_ids (snd r)) a = [[(1, 32)]; [(1, 32); (3, 33); (2, 34)]; [(1, 32); (3, 33); (2, 34)]].
Proof. exact k1_regression. Qed.
Print Assumptions C15_k1_regression.

Example C15_k2_regression :
  let M := fst (upd zero_oracle false empty_model w_w1) in
  snd (upd zero_oracle false empty_model w_w1) = None /\
  upd (oracle_of w_e1_first) false M w_w2 = (M, Some EMissingField) /\
  upd (oracle_of w_e2_first) false M w_w2 = (M, Some EMissingField).
Proof. exact k2_regression. Qed.
Print Assumptions C15_k2_regression.

(* the functions the harness evaluates accept the three witnesses (K3: a refusal at run time is
   reported to the caller: api results [Ok; Err; Ok]) *)
Example C15_spec_accepts_witnesses :
  spec_C15 w_case_k1 (run_C15 w_case_k1) = true /\ spec_C15 w_case_k2 (run_C15 w_case_k2) = true /\
  spec_C15 w_case_k3 (run_C15 w_case_k3) = true /\
  map fst (run_inst_obs empty_model empty_model false None [(true, mkS false w_w1); (false, mkS false (mkV 2 [(2, [mkED 1 false true [fS 1] []])])); (true, mkS false w_w1)] []) = [true; false; true].
Proof. exact spec_witnesses. Qed.
Print Assumptions C15_spec_accepts_witnesses.

(* a version accepted by the data model rules and refused by the database (E1 and e1, both with
   index(f1)): at run time and at start it is refused, reported, and changes nothing *)
Example C15_storage_refusal_regression :
  snd (upd zero_oracle false (fst (upd zero_oracle false empty_model w_ix1)) w_ix_clash) = None /\
  storage_refuses w_ix_clash = true /\ storage_refuses w_ix3 = false /\
  map fst (run_inst_obs empty_model empty_model false None
             [(true, mkS false w_ix1); (false, mkS false w_ix_clash); (false, mkS false w_ix3); (true, mkS false w_ix_clash); (true, mkS false w_ix3)] [])
    = [true; false; true; false; true] /\
  spec_C15 w_case_storage (run_C15 w_case_storage) = true /\ known_C15 w_case_storage = [].
Proof. exact storage_witness. Qed.
Print Assumptions C15_storage_refusal_regression.

(* open finding, class 4 (outside the data model code: query.rs builds `Ifnull(<json value>, true)`):
   an entity that has rows is given `f2: Boolean default true`; the old rows read 1 for f2, not true.
   The evaluator is not modelled: run_C15 reproduces the harness' row flag for exactly this class,
   the oracle rejects it, known_C15 names the class *)
Example C15_bool_default_reads_int_refuted :
  spec_C15 w_case_bool (run_C15 w_case_bool) = false /\ known_C15 w_case_bool = [4%Z].
Proof. exact bool_default_witness. Qed.
Print Assumptions C15_bool_default_reads_int_refuted.
