(* C15 — Changing the data model never loses data and a refused change changes nothing.
   Property theorems only: statement, exact, Print Assumptions.
   Model: model/DataModel.v (parse_internal, insert, add_field/insert_field, update_system, update,
   update_with, Entity::update; hash-map iteration orders = the oracle argument `o`, every theorem
   quantifies over all oracles).  Proofs: proofs/DataModelP.v, proofs/C15P.v.
   Functions of run/Run_C15.v used below are the ones the harness evaluates on every case:
   run_steps (what run_C15 prints), stable_b / wf_b / newfields_b (clauses of spec_C15),
   known_steps / k1_step / in_loop_err (known_C15). *)
From DV Require Import DataModel Run_C15 DataModelP C15P.
Local Open Scope N_scope.

(* What the whole property would need and only partly is a statement about a model: rows written
   before stay readable with the same values (needs the query evaluator and SQLite: observed on
   real instances by the harness, proved below only for readers that address values by storage
   identifier), identifiers depend only on the accepted versions, a refused version changes
   nothing, the same model again changes nothing. *)
Definition C15_full : Prop :=
  forall steps os1 os2,
    let h := run_steps empty_model steps os1 in
    chain addresses_kept empty_model h /\ hist_ok empty_model h /\ refused_unchanged empty_model h
    /\ run_steps empty_model steps os2 = h.

(* (1) identifiers never change or collide: for EVERY history of update_system / update calls from
   the empty model, every verdict (accepted, refused, refused half-way) and every iteration order:
   each namespace, entity and field that existed keeps name, storage identifier and type
   (stable_b), no two share an identifier (wf_b), and a field added to an existing entity is
   nullable, has a default or is a reference (newfields_b). *)
Theorem C15_stable_holds : forall steps os, hist_ok empty_model (run_steps empty_model steps os).
Proof. exact ids_stable_all_histories. Qed.
Print Assumptions C15_stable_holds.

(* the same in relational form for one step (field_ext: same name, identifier, type) *)
Theorem C15_stable_step : forall o sys M v, model_ext (m_nss M) (m_nss (fst (upd o sys M v))).
Proof. exact upd_ext. Qed.
Print Assumptions C15_stable_step.

(* (2) existing data stays readable under the same names — for any reader that finds a value
   through the entity's and the field's storage identifier (as the query layer does: `_entity`
   = entity short name, `_json->>'$.<field short name>'`).  `_partial`: the real query evaluator
   and SQLite are not modelled; the harness reads rows back on real instances. *)
Theorem C15_readable_partial : forall steps os,
  chain addresses_kept empty_model (run_steps empty_model steps os).
Proof. intros. apply run_steps_addresses_kept. exact wf_model_nil. Qed.
Print Assumptions C15_readable_partial.

Theorem C15_readable_reader_partial : forall (store : Type) (read_at : eshort * N * ftype -> store -> N -> option N)
  o sys M v ns e f db row, wf_model (m_nss M) -> address (m_nss M) ns e f <> None ->
  read store read_at (m_nss (fst (upd o sys M v))) ns e f db row = read store read_at (m_nss M) ns e f db row.
Proof. exact read_stable. Qed.
Print Assumptions C15_readable_reader_partial.

(* (3) identifiers depend only on the accepted versions: REFUTED (K1). Two peers accept the same
   two versions (the second adds f2, f3 to an existing entity) and hold different identifiers;
   the peer whose hash map did not follow the text then refuses the same text again
   (InvalidFieldOrdering): a restart with an unchanged model fails. *)
Theorem C15_deterministic_refuted :
  let a := run_steps empty_model w_steps (map oracle_of [w_none; w_text_order; w_none]) in
  let b := run_steps empty_model w_steps (map oracle_of [w_none; w_other_order; w_none]) in
  map fst (firstn 2 a) = [None; None] /\ map fst (firstn 2 b) = [None; None]
  /\ map snd (firstn 2 a) <> map snd (firstn 2 b)
  /\ map fst a = [None; None; None] /\ map fst b = [None; None; Some EFieldOrdering].
Proof. exact k1_witness. Qed.
Print Assumptions C15_deterministic_refuted.

(* ... and holds outside the known classes: a history in which no version gives an existing entity
   two or more new fields at once (K1) and none is refused from inside the in-place loops (K2)
   yields the same verdicts and the same models under all iteration orders. *)
Theorem C15_deterministic_outside_known : forall steps os1 os2 M,
  known_steps M steps os1 = (false, false) -> run_steps M steps os2 = run_steps M steps os1.
Proof. exact run_steps_det. Qed.
Print Assumptions C15_deterministic_outside_known.

(* one accepted step, outside K1 *)
Theorem C15_deterministic_step : forall o1 o2 sys M v, k1_step M (mkS sys v) = false ->
  snd (upd o1 sys M v) = None -> upd o2 sys M v = upd o1 sys M v.
Proof. exact upd_det. Qed.
Print Assumptions C15_deterministic_step.

(* (4) a refused version changes nothing: REFUTED (K2). A version valid for E1 and invalid for E2
   is refused (MissingField) and E1 has gained its new field when the hash map visits E1 first. *)
Theorem C15_refused_refuted :
  let M := fst (upd zero_oracle false empty_model w_w1) in
  snd (upd zero_oracle false empty_model w_w1) = None /\
  snd (upd (oracle_of w_e1_first) false M w_w2) = Some EMissingField /\ fst (upd (oracle_of w_e1_first) false M w_w2) <> M /\
  snd (upd (oracle_of w_e2_first) false M w_w2) = Some EMissingField /\ fst (upd (oracle_of w_e2_first) false M w_w2) = M.
Proof. exact k2_witness. Qed.
Print Assumptions C15_refused_refuted.

(* ... and holds outside the known class: a version refused for its text (syntax, duplicates,
   unknown entity, index) or for the namespace rule leaves the model untouched, under every order *)
Theorem C15_refused_outside_known : forall o sys M v e,
  snd (upd o sys M v) = Some e -> in_loop_err (Some e) = false -> fst (upd o sys M v) = M.
Proof. exact refused_outside_loops_changes_nothing. Qed.
Print Assumptions C15_refused_outside_known.

Theorem C15_refused_histories_outside_known : forall steps os M,
  snd (known_steps M steps os) = false -> refused_unchanged M (run_steps M steps os).
Proof. exact run_steps_refused_unchanged. Qed.
Print Assumptions C15_refused_histories_outside_known.

(* even a half-applied refused version keeps the model free of collisions (a step of C15_stable_holds) *)
Theorem C15_halfway_keeps_ids : forall o sys M v, wf_model (m_nss M) ->
  keeps_ids M (fst (upd o sys M v)) /\ wf_model (m_nss (fst (upd o sys M v))).
Proof. exact upd_keeps_ids. Qed.
Print Assumptions C15_halfway_keeps_ids.

(* (5) the same model again (what every restart does) changes nothing: REFUTED by the third step of
   C15_deterministic_refuted (K1); outside K1 it holds under every iteration order: a version that
   was accepted and gave no existing entity more than one new field is accepted again, and the
   model — identifiers, flags, indexes, text — stays exactly as it is *)
Theorem C15_restart_outside_known : forall o o' sys M v, wf_model (m_nss M) -> k1_step M (mkS sys v) = false ->
  snd (upd o sys M v) = None -> upd o' sys (fst (upd o sys M v)) v = (fst (upd o sys M v), None).
Proof. exact upd_again. Qed.
Print Assumptions C15_restart_outside_known.

(* (its hypothesis wf_model holds for every model a history reaches) *)
Theorem C15_reachable_models_wf : forall steps os,
  Forall (fun r => wf_model (m_nss (snd r))) (run_steps empty_model steps os).
Proof. intros. apply run_steps_wf. exact wf_model_nil. Qed.
Print Assumptions C15_reachable_models_wf.

(* (6) the functions the harness evaluates flag the three witnesses and put them in their classes
   (K3: update_data_model at run time answers Ok for a refused version) *)
Theorem C15_spec_flags_witnesses :
  spec_C15 w_case_k1 (run_C15 w_case_k1) = false /\ known_C15 w_case_k1 = [1; 2]%Z /\
  spec_C15 w_case_k2 (run_C15 w_case_k2) = false /\ known_C15 w_case_k2 = [2]%Z /\
  spec_C15 w_case_k3 (run_C15 w_case_k3) = false /\ known_C15 w_case_k3 = [2; 3]%Z.
Proof. exact spec_witnesses. Qed.
Print Assumptions C15_spec_flags_witnesses.

(* the hypotheses of the outside-known theorems are satisfiable: a five-step history (one field
   per entity per version, a refused text in between, the last version applied twice) lies in no
   class, both peers accept [v1; v3; -; v4; v4] and the oracle of spec_C15 holds on it *)
Example C15_outside_known_nonvacuous :
  known_C15 w_case_clean = [] /\ spec_C15 w_case_clean (run_C15 w_case_clean) = true /\
  known_steps empty_model [mkS false w_v1; mkS false w_v3; mkS false w_bad; mkS false w_v4; mkS false w_v4] [] = (false, false) /\
  map fst (run_steps empty_model [mkS false w_v1; mkS false w_v3; mkS false w_bad; mkS false w_v4; mkS false w_v4] []) = [None; None; Some EDupField; None; None].
Proof. exact clean_witness. Qed.
Print Assumptions C15_outside_known_nonvacuous.
