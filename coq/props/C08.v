(* C08 — A peer is served data only for rooms it is a member of.
   Property theorems only: statement, exact, Print Assumptions.  Proofs: proofs/C08P.v (+ RightsP.v).
   Model: model/Outbound.v, an interpreter of gen/OutboundTable.v (regenerated from the source on
   every run by tools/extract_outbound.py).  run_C08 / spec_C08 / known_C08: run/Run_C08.v. *)
From DV Require Import RightsP Run_C08 C08P.
Open Scope N_scope.

(* the property at full strength, about the functions the harness evaluates *)
Definition C08_full : Prop := forall c, wf_case c = true -> spec_C08 c (run_C08 c) = true.

(* (1) the generated request table: every request kind that names a room is guarded by
   allowed_room.contains(that room), hands that same room to its data source, sends no success
   answer outside the guard, refuses otherwise, and its data source restricts rows to the room;
   RoomList answers only a proven, ready key from rooms_for_peer(key, now); allowed_room is written
   only by RoomList and by the definition event under room.has_user(key).  This is the obligation
   that breaks when a request kind is added or edited without the check. *)
Theorem C08_all_arms_guarded :
  forallb arm_ok all_kinds = true /\
  allowed_write_sites_as_expected = true /\ event_insert_guarded_by_has_user = true.
Proof. exact all_arms_guarded. Qed.
Print Assumptions C08_all_arms_guarded.

(* (2) room.rs' is_user_valid_at on the Room built from ANY entry sequence = membership by the
   accepted history (admin, or enabled user / user-admin of some group, entry in force at that date) *)
Theorem C08_valid_is_membership : forall r evs k d,
  is_user_valid_at (build r evs) k d = member_spec (accepted r evs) k d.
Proof. exact valid_spec. Qed.
Print Assumptions C08_valid_is_membership.

(* (3) for every history of a connection (requests of every kind with any identifiers, handshake
   events, definition changes, definition events) outside the two known classes: every item of
   every answer belongs to a room of which the proven key is a member at that moment *)
Theorem C08_outside_known : forall c, wf_case c = true -> known_C08 c = [] -> spec_C08 c (run_C08 c) = true.
Proof. exact outside_known. Qed.
Print Assumptions C08_outside_known.

(* (4) before a key is proven on the connection no answer carries any item, whatever is asked *)
Theorem C08_preauth : forall es self key i s,
  o_bound s = false -> o_allowed s = [] -> ~ In OBind es ->
  forall a, In a (orun self key i s es) -> snd a = [].
Proof. exact preauth_nothing. Qed.
Print Assumptions C08_preauth.

(* (5) a room in which the key has no entry at any moment of the connection (never a member, in any
   role) never enters allowed_room, is never listed, and every request naming it is refused *)
Theorem C08_no_entry_not_served : forall es self key i s r,
  NoDup (map fst (o_defs s)) -> ~ In r (o_allowed s) -> no_entry_along self key i s es r = true ->
  Forall2 (answer_spares r) es (orun self key i s es) /\ ~ In r (o_allowed (ostate self key i s es)).
Proof. exact no_entry_not_served. Qed.
Print Assumptions C08_no_entry_not_served.

(* (6) the property at full strength is refuted by the faithful model (and by the real code: the
   two witnesses are the first two directed cases of the harness) *)
Theorem C08_refuted :
  wf_case k1_witness = true /\ spec_C08 k1_witness (run_C08 k1_witness) = false /\ known_C08 k1_witness = [1%Z] /\
  wf_case k2_witness = true /\ spec_C08 k2_witness (run_C08 k2_witness) = false /\ known_C08 k2_witness = [2%Z].
Proof. exact refuted. Qed.
Print Assumptions C08_refuted.

Example C08_nonvacuous_ex :
  wf_case ok_witness = true /\ known_C08 ok_witness = [] /\
  run_answers ok_witness = [(1%Z, []); (0%Z, []); (0%Z, []); (2%Z, [1]); (2%Z, [1]); (1%Z, []); (2%Z, [1]); (2%Z, [1]); (1%Z, [])].
Proof. exact nonvacuous. Qed.
Print Assumptions C08_nonvacuous_ex.
