(* C08 — placeholder while the proofs are being written *)
From DV Require Import Run_C08.
