(* C17 — Full-text search returns exactly the rows whose current text matches.
   Property theorems only: statement, exact, Print Assumptions.  Proofs: proofs/FtsP.v, proofs/C17P.v.
   Model: model/Fts.v (the row store and the content-less trigram index of one peer). *)
From DV Require Import Fts FtsP Run_C17 C17P.

(* the statement at full strength, against the faithful model: on every history of a peer the model's
   own observation passes the property's oracle (at every check, every search word of three or more
   letters/digits returns exactly the rows whose text fields contain it) *)
Definition C17_full : Prop := forall c, spec_C17 c (run_C17 c) = true.

(* refuted, class 1: a row written by synchronisation is never indexed *)
Theorem C17_refuted_sync : spec_C17 witness_sync (run_C17 witness_sync) = false /\ known_C17 witness_sync = [1].
Proof. exact refuted_sync. Qed.
Print Assumptions C17_refuted_sync.

(* refuted, class 2: deleting a row leaves its index entries; the next row that takes the storage
   slot answers for the deleted text *)
Theorem C17_refuted_reuse : spec_C17 witness_reuse (run_C17 witness_reuse) = false /\ known_C17 witness_reuse = [2] /\
  search (frun_state (c17_init witness_reuse) (c17_ops witness_reuse)) t_delta = [2%N].
Proof. exact refuted_reuse. Qed.
Print Assumptions C17_refuted_reuse.

Theorem C17_refuted : ~ C17_full.
Proof. intros H. pose proof (H witness_sync) as E. rewrite (proj1 refuted_sync) in E. discriminate. Qed.
Print Assumptions C17_refuted.

(* a phrase of trigrams at consecutive positions of a text = the word is a substring of the text
   (for words of three or more characters): the link between the index and the property's oracle *)
Theorem C17_trigram_phrase_is_substring : forall t w, (3 <= length w)%nat -> text_match t w = contains t w.
Proof. exact text_match_contains. Qed.
Print Assumptions C17_trigram_phrase_is_substring.

(* a slot whose newest entries are those of the row's current text answers exactly like the substring
   test on the row's text fields (the word has no space, so it cannot match across the separator) *)
Theorem C17_match_is_substring : forall ix r w, entry_ok ix (f_rowid r) (row_text r) -> wf_term w = true ->
  fts_match ix (f_rowid r) w = row_contains r w.
Proof. exact match_is_substring. Qed.
Print Assumptions C17_match_is_substring.

(* outside the known classes (= C17_local_ok): every history of one peer made of local creations,
   updates of either text field (also to null), deletions and applied deletion records, of any length,
   with any texts — no row written by synchronisation, no new row in a slot that still has index
   entries, creations with fresh ids —: at every check of the run every well-formed word finds exactly
   the rows whose text fields contain it, and no edit is refused by the index.
   [checks_exact] runs the same [fstep]/[search] functions that [run_C17] prints. *)
Theorem C17_outside_known : forall n0 t0 ops, 0 <= n0 -> 0 <= t0 ->
  known_C17 (C17Case n0 t0 ops) = [] ->
  fev_guard (frun_events (finit n0 t0) ops) = false ->
  checks_exact (finit n0 t0) ops = true.
Proof. exact local_ok. Qed.
Print Assumptions C17_outside_known.

(* a local edit of a row that arrived by synchronisation hands FTS5 a 'delete' for text the index
   never held: the totals are drained and such edits end up refused with a write error *)
Example C17_drain_refused : run_C17 witness_drain = [2; 2].
Proof. exact drain_refused. Qed.
Print Assumptions C17_drain_refused.

(* every text field of a row set to null, then text set again: former text not found, new text found *)
Example C17_null_all_ok :
  known_C17 example_null_all = [] /\ fev_guard (frun_events (c17_init example_null_all) (c17_ops example_null_all)) = false /\
  spec_C17 example_null_all (run_C17 example_null_all) = true /\
  map (fun w => search (frun_state (c17_init example_null_all) (firstn 4 (c17_ops example_null_all))) w) [t_delta; t_alpha; t_epsilon] = [[]; []; [2%N]] /\
  map (fun w => search (frun_state (c17_init example_null_all) (c17_ops example_null_all)) w) [t_delta; t_alpha; t_epsilon] = [[1%N]; [2%N]; []].
Proof. exact null_all_ok. Qed.
Print Assumptions C17_null_all_ok.

Example C17_nonvacuous :
  known_C17 example_ok = [] /\ fev_guard (frun_events (c17_init example_ok) (c17_ops example_ok)) = false /\
  spec_C17 example_ok (run_C17 example_ok) = true /\
  search (frun_state (c17_init example_ok) (c17_ops example_ok)) t_delta = [2%N].
Proof. exact nonvacuous. Qed.
Print Assumptions C17_nonvacuous.
