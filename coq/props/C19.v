(* C19 — Connections are trusted only after key proof; invites are single-use.
   Property theorems only: statement, exact, Print Assumptions.  Proofs: proofs/C19P.v.
   Model: model/Handshake.v (initialise_connection, get_token_type, create_invite, accept_invite,
   invite_accepted as they are at the current commit; MeetingSecret::token). *)
From DV Require Import Handshake Run_C19 C19P.
Local Open Scope N_scope.

(* The full statement. Parts that only a running system shows (the answer arriving after the 10 s
   timeout, two connections of one circuit racing, what is served afterwards) are exercised by the
   harness where it can reach them (timeout, late answer) and otherwise not modelled: the theorems
   below are named _partial where they cover a part only. *)
Definition C19_full : Prop :=
  (* handshake: accepted only for a remote entitled to the key that is then bound; otherwise nothing *)
  (forall ch lk t r ev, spec_handshake ch t r (obs_handshake (init_connection ch lk t r ev)) = true) /\
  (* an invitation is consumed at most once, only for this application, only if it exists *)
  (forall app me mk ops, ops_ok 1 (n_creates ops) ops = true -> spec_invites app ops (run_ops 1 (init_pm app me mk) ops) = true) /\
  (* both sides derive the same token, for every pair of key materials *)
  (forall a b, token_of a (s_pub b) = token_of b (s_pub a)).

(* (1) accepted => the remote signed THIS connection's challenge with the key it presents, its peer
   row is well-formed and self-signed, the key is the one expected for the token (allowed peer) /
   the signer of the invitation (invite); and every key bound, reported as connected or used to
   consume an invitation is that key.  For every behaviour of the remote side. *)
Theorem C19_auth_holds : forall ch lk t r ev es,
  init_connection ch lk t r ev = (ROkTrue, es) ->
  exists a, r = Ans a /\ proof_ok ch a = true /\ peer_row_ok a = true /\ entitled ch t r = Some (a_key a) /\
            In (EBind (a_key a)) es /\
            (forall k, In (EBind k) es \/ In (MInviteAccepted k) es \/ In (MConnected k) es -> k = a_key a).
Proof. exact auth_holds. Qed.
Print Assumptions C19_auth_holds.

(* (1') the same over several connections, the challenge being an element of a stream of nonces:
   the accepted answer signs THIS connection's nonce, and — the nonces being pairwise distinct — it is
   not the answer recorded on another connection, whatever the connections announce about themselves *)
Theorem C19_auth_fresh_holds : forall nonces all i c es,
  NoDup nonces -> conn_result nonces all i c = (ROkTrue, es) ->
  exists n a, nth_error nonces i = Some n /\ sremote_of nonces all i c = Ans a /\
              proof_ok n a = true /\ a_sig_over a = n /\ peer_row_ok a = true /\
              entitled n (sc_tt c) (sremote_of nonces all i c) = Some (a_key a) /\ In (EBind (a_key a)) es /\
              (forall k, In (EBind k) es \/ In (MInviteAccepted k) es \/ In (MConnected k) es -> k = a_key a) /\
              (forall j, sc_remote c = SReplay j -> j = i).
Proof. exact auth_fresh. Qed.
Print Assumptions C19_auth_fresh_holds.

(* the session oracle (freshness of the observed challenges, every connection judged against its own
   challenge, replays refused) holds on everything the model observes for a repetition-free stream *)
Theorem C19_session_holds : forall nonces conns, length nonces = length conns -> NoDup nonces ->
  spec_session conns (map zn nonces ++ run_conns nonces conns 0 conns) = true.
Proof. exact session_spec. Qed.
Print Assumptions C19_session_holds.

(* (2) a remote that is not entitled (wrong key, replayed answer, another peer's valid key on an
   allowed-peer token, malformed peer row, no answer) gets nothing but a disconnect *)
Theorem C19_fail_holds : forall ch lk t r ev,
  entitled ch t r = None ->
  snd (init_connection ch lk t r ev) = [] /\ fst (init_connection ch lk t r ev) <> ROkTrue.
Proof. exact fail_holds. Qed.
Print Assumptions C19_fail_holds.

Example C19_handshake_nonvacuous :
  let honest := Ans {| a_key := 2; a_sig_by := Some 2%N; a_sig_over := 0; a_room := false; a_entity_ok := true; a_rowsig_ok := true; a_pubkey_ok := true |} in
  let other := Ans {| a_key := 3; a_sig_by := Some 3%N; a_sig_over := 0; a_room := false; a_entity_ok := true; a_rowsig_ok := true; a_pubkey_ok := true |} in
  let replay := Ans {| a_key := 2; a_sig_by := Some 2%N; a_sig_over := 5; a_room := false; a_entity_ok := true; a_rowsig_ok := true; a_pubkey_ok := true |} in
  init_connection 0 1 (TAllowed 2) honest true = (ROkTrue, [EBind 2; EvReady; MConnected 2]) /\
  init_connection 0 1 (TAllowed 2) other true = (RErr, []) /\
  init_connection 0 1 (TAllowed 2) replay true = (RErr, []) /\
  init_connection 0 1 (TOwned 1) other true = (ROkTrue, [EBind 3; MInviteAccepted 3; EvReady; MConnected 3]).
Proof. exact handshake_nonvacuous. Qed.
Print Assumptions C19_handshake_nonvacuous.

(* (3) invitations. HOLDS at full strength since fixes 2163820 and 1e2cdf6 (before them: refuted — an
   owned invitation was consumed by two keys; an invitation accepted twice was consumed twice), for
   every history of table operations: an invitation, created or received, accepted once or several
   times, is consumed only while it is pending (created / accepted and not consumed since) and a
   consumption ends it; it is accepted only for this application; a lookup answers an allowed-peer
   entry only for the claimed key; the token of an invitation that is not pending is unknown.
   (ops_ok is about the encoding only: a received invitation never carries the id of an invitation
   this instance creates later — ids are fresh random uids.) *)
Theorem C19_invite_holds : forall app me mk ops, ops_ok 1 (n_creates ops) ops = true ->
  spec_invites app ops (run_ops 1 (init_pm app me mk) ops) = true.
Proof. exact invite_holds. Qed.
Print Assumptions C19_invite_holds.

(* the former witnesses (= the harness' directed cases) now pass the oracle, and the oracle still
   refuses what the unrepaired code answered on them *)
Example C19_invite_witnesses_now_hold :
  run_C19 (CInvites 1 me0 1 twice) = [1; 1; 2; 1; 0; 0; 1; 2; 0; 0]%Z /\
  spec_C19 (CInvites 1 me0 1 twice) (run_C19 (CInvites 1 me0 1 twice)) = true /\
  run_C19 (CInvites 1 me0 1 accepted_twice) = [1; 0; 1; 0; 3; 1; 0; 0; 0; 0]%Z /\
  spec_C19 (CInvites 1 me0 1 accepted_twice) (run_C19 (CInvites 1 me0 1 accepted_twice)) = true /\
  spec_C19 (CInvites 1 me0 1 twice) [1; 1; 2; 1; 2; 1; 1; 2; 1; 3]%Z = false /\
  spec_C19 (CInvites 1 me0 1 accepted_twice) [1; 0; 1; 0; 3; 1; 3; 1; 0; 0]%Z = false.
Proof. exact invite_witnesses_now_hold. Qed.
Print Assumptions C19_invite_witnesses_now_hold.

(* (3') the table together with its database, across restarts. HOLDS at full strength (fixes
   2163820, 1e2cdf6, 1c5e321, 4354588) for every history of creations (with or without a default
   room, grantable or not), acceptances (of invitations received from others AND of the instance's own
   ones), lookups, uses and RESTARTS (PeerManager::new rebuilding the table from the database): an
   invitation is consumed only while it is pending and a consumption ends it — across restarts too.
   Proof: invariant "table = pending set = database rows (one row per pending invitation)",
   re-established by rebuild.  (dops_ok is about the encoding only, as in C19_invite_holds: a received
   invitation never carries the id of an invitation this instance creates later.) *)
Theorem C19_invdb_holds : forall app me mk ops, dops_ok 1 (n_dcreates ops) ops = true ->
  spec_dops app [] ops (run_dops mk (init_sys app me mk) ops) = true.
Proof. exact invdb_holds. Qed.
Print Assumptions C19_invdb_holds.

(* a used invitation is deleted from the database, so no restart brings it back (any state) *)
Theorem C19_consumed_owned_not_reloaded : forall mk s inv p,
  ~ In (TkInvite inv, TOwned inv) (pm_tokens (rebuild mk (consume_owned s inv p))).
Proof. exact consumed_owned_not_reloaded. Qed.
Print Assumptions C19_consumed_owned_not_reloaded.
Theorem C19_consumed_invite_not_reloaded : forall mk s t inv p a sg,
  ~ In (TkInvite inv, TInvite inv a sg) (pm_tokens (rebuild mk (consume_invite s t inv p))).
Proof. exact consumed_invite_not_reloaded. Qed.
Print Assumptions C19_consumed_invite_not_reloaded.

(* the witnesses of the repaired classes 4 (default room that cannot be granted) and 5 (own invitation
   accepted, then a restart) pass, and the oracle still refuses what the unrepaired code answered *)
Example C19_invdb_witnesses :
  run_C19 (CInvDb 1 me0 1 ungrantable) = [1; 1; 2; 1; 0; 0; 1; 0; 0; 0]%Z /\
  spec_C19 (CInvDb 1 me0 1 ungrantable) (run_C19 (CInvDb 1 me0 1 ungrantable)) = true /\
  spec_C19 (CInvDb 1 me0 1 ungrantable) [1; 1; 2; 1; 2; 1; 1; 0; 0; 0]%Z = false /\
  run_C19 (CInvDb 1 me0 1 grantable) = [1; 1; 1; 2; 2; 1; 1; 0; 0; 0; 2; 1; 1; 0; 0; 0]%Z /\
  spec_C19 (CInvDb 1 me0 1 grantable) (run_C19 (CInvDb 1 me0 1 grantable)) = true /\
  run_C19 (CInvDb 1 me0 1 own_accepted) = [1; 1; 1; 0; 1; 0; 2; 1; 0; 0; 0; 0]%Z /\
  spec_C19 (CInvDb 1 me0 1 own_accepted) (run_C19 (CInvDb 1 me0 1 own_accepted)) = true /\
  spec_C19 (CInvDb 1 me0 1 own_accepted) [1; 1; 1; 0; 1; 0; 2; 1; 3; 1; 3; 1]%Z = false.
Proof. exact invdb_witnesses. Qed.
Print Assumptions C19_invdb_witnesses.

(* (3'') the running service: the room list is answered on a connection only after the remote proved
   a key it was entitled to ON THAT CONNECTION — never while the proof is pending, whatever circuit the
   connection announces and whatever other connections of that circuit proved *)
Theorem C19_served_only_after_own_proof : forall lk circuit t r before ev after,
  serve_conn lk (circuit, t, r) = [before; ev; after] -> before = 0%Z /\ (after = 1%Z -> exists k, entitled 0 t r = Some k).
Proof. exact served_only_after_own_proof. Qed.
Print Assumptions C19_served_only_after_own_proof.

(* (4) tokens: the same on both sides (Diffie-Hellman commutes) unless two DIFFERENT secrets have the
   SAME public key; stated for the abstract scheme and for the executable instance *)
Theorem C19_token_symmetric : forall (sec pubk shared tok : Type) (pub_of : sec -> pubk) (dh : sec -> pubk -> shared)
  (h_shared : shared -> tok) (h_self : sec -> tok) (pubk_eqb : pubk -> pubk -> bool),
  (forall a b, pubk_eqb a b = true <-> a = b) ->
  (forall a b, dh a (pub_of b) = dh b (pub_of a)) ->
  forall a b, (pub_of a = pub_of b -> a = b) ->
  meeting_token sec pubk shared tok pub_of dh h_shared h_self pubk_eqb a (pub_of b) =
  meeting_token sec pubk shared tok pub_of dh h_shared h_self pubk_eqb b (pub_of a).
Proof. exact meeting_token_sym. Qed.
Print Assumptions C19_token_symmetric.

Theorem C19_token_refuted :
  let a := {| s_bytes := 1; s_pub := 7 |} in let b := {| s_bytes := 2; s_pub := 7 |} in
  token_of a (s_pub b) <> token_of b (s_pub a).
Proof. exact token_sym_refuted. Qed.
Print Assumptions C19_token_refuted.

(* (5) the same, about the functions the harness evaluates: outside the one open class (2) the
   property's oracle holds on everything the model can observe — every remote behaviour, every
   history of table operations, every family of secrets *)
Theorem C19_outside_known : forall c, case_ok c -> known_C19 c = [] -> spec_C19 c (run_C19 c) = true.
Proof. exact run_spec_outside_known. Qed.
Print Assumptions C19_outside_known.

Example C19_tokens_refuted_run :
  let c := CTokens [{| s_bytes := 1; s_pub := 7 |}; {| s_bytes := 2; s_pub := 7 |}] [(0, 1); (1, 0)]%nat in
  run_C19 c = [0]%Z /\ spec_C19 c (run_C19 c) = false /\ known_C19 c = [2]%Z.
Proof. exact tokens_refuted. Qed.
Print Assumptions C19_tokens_refuted_run.

(* ================================================================ C19 x C08: one connection, from the
   handshake to every answer (model/ConnSystem.v, proofs/ConnSystemP.v).  The initial state of the
   serving machine of Outbound.v (key bound?, which key, ready flag, empty allowed set) is a FUNCTION
   of the handshake outcome (serving_init / serving_key: the EBind / ENotReady effects), and the events
   that follow never bind a key (cev has no OBind). *)
From DV Require Import ConnSystem ConnSystemP.

(* (6) every item of room data in every answer of the connection (rooms listed, room definition, room
   node, logs, deletion records, member list, rows, references — Run_C08.item_rooms) was sent only if
   (a) the remote signed THIS connection's challenge with the key K it presents, its peer row is valid
   and K is the key expected for the token (entitled = Some K, the oracle of C19), and (b) the item
   belongs to a room R of which K is a member at that moment by the accepted history of R (RightsSpec,
   through Run_C08.member_now) — for every behaviour of the remote side and every sequence of requests,
   ready toggles, definition entries and definition events, outside the two open classes of C08,
   delimited by Run_C08.known_C08 itself on the connection seen as a C08 case *)
Theorem C19_served_only_to_proven_members_outside_known : forall empty c,
  wf_case (c08_of empty c) = true -> known_C08 (c08_of empty c) = [] ->
  forall n now q a ro,
    nth_error (c_events c) n = Some (CQuery now q) /\
    nth_error (conn_answers empty c) n = Some a /\
    In ro (item_rooms (c_inst c) q (snd a)) ->
    exists K ans R,
      c_remote c = Ans ans /\ a_key ans = K /\ proof_ok (c_ch c) ans = true /\ peer_row_ok ans = true /\
      entitled (c_ch c) (c_tt c) (c_remote c) = Some K /\
      ro = Some R /\ member_now (defs_before (i_defs (c_inst c)) (c_events c) n) R K now = true.
Proof. exact served_only_to_proven_members. Qed.
Print Assumptions C19_served_only_to_proven_members_outside_known.

(* the connection's answers ARE what the C08 harness evaluates on that case, after the silent prefix
   that replays the handshake's effects (commutation of the link) *)
Theorem C19_conn_is_c08_case : forall empty c,
  run_answers (c08_of empty c) = map (fun _ => (0%Z, [])) (hs_oevs (hs_outcome c)) ++ conn_answers empty c.
Proof. exact run_answers_c08_of. Qed.
Print Assumptions C19_conn_is_c08_case.

(* (7) a connection whose handshake failed (the remote is not entitled: wrong key, answer recorded on
   another connection, malformed or foreign peer row, silence, a valid key the token does not expect):
   no effect, no success, and NO answer carries any item, for every sequence of requests and events.
   Full strength: no exclusion, no well-formedness hypothesis. *)
Theorem C19_failed_handshake_served_nothing_holds : forall empty c,
  entitled (c_ch c) (c_tt c) (c_remote c) = None ->
  snd (hs_outcome c) = [] /\ fst (hs_outcome c) <> ROkTrue /\
  forall a, In a (conn_answers empty c) -> snd a = [].
Proof. exact failed_handshake_served_nothing. Qed.
Print Assumptions C19_failed_handshake_served_nothing_holds.

(* (7') in a session over a repetition-free nonce stream, a connection on which the remote replays the
   answer recorded on another connection is served nothing *)
Theorem C19_replayed_answer_served_nothing_holds : forall empty nonces all i j sc n i0 evs,
  NoDup nonces -> nth_error nonces i = Some n -> sc_remote sc = SReplay j -> j <> i ->
  let c := {| c_ch := n; c_local := sc_local sc; c_tt := sc_tt sc; c_remote := sremote_of nonces all i sc;
              c_ev := sc_ev sc; c_inst := i0; c_events := evs |} in
  forall a, In a (conn_answers empty c) -> snd a = [].
Proof. exact replayed_answer_served_nothing. Qed.
Print Assumptions C19_replayed_answer_served_nothing_holds.

(* (8) "served => initialise_connection RETURNED Ok(true)" holds exactly when the event channel of the
   connection accepts messages ... *)
Theorem C19_served_implies_accepted_outside_known : forall empty c,
  c_ev c = true ->
  wf_case (c08_of empty c) = true -> known_C08 (c08_of empty c) = [] ->
  forall n now q a ro,
    nth_error (c_events c) n = Some (CQuery now q) /\
    nth_error (conn_answers empty c) n = Some a /\
    In ro (item_rooms (c_inst c) q (snd a)) ->
    fst (hs_outcome c) = ROkTrue.
Proof. exact served_implies_accepted. Qed.
Print Assumptions C19_served_implies_accepted_outside_known.

(* ... and is refuted without it: the proof succeeds, the key is stored, Ready cannot be sent, the
   function returns Ok(false) — and until the disconnect takes effect the (proven, entitled) key is
   served its rooms *)
Theorem C19_served_implies_accepted_refuted :
  fst (hs_outcome cs_bound_not_accepted) = ROkFalse /\
  wf_case (c08_of 0 cs_bound_not_accepted) = true /\ known_C08 (c08_of 0 cs_bound_not_accepted) = [] /\
  conn_answers 0 cs_bound_not_accepted = [(2%Z, [1]); (2%Z, [1]); (2%Z, [1]); (1%Z, []); (1%Z, [])] /\
  entitled (c_ch cs_bound_not_accepted) (c_tt cs_bound_not_accepted) (c_remote cs_bound_not_accepted) = Some 2.
Proof. exact served_without_accept_refuted. Qed.
Print Assumptions C19_served_implies_accepted_refuted.

(* non-vacuity: an honest handshake, RoomList, requests for room 1 (key 2 is a member: served) and for
   room 2 (it is not: refused); then the recorded answer replayed on the next connection of the session
   followed by the same requests: nothing *)
Example C19_conn_system_nonvacuous :
  hs_outcome cs_ok = (ROkTrue, [EBind 2; EvReady; MConnected 2]) /\
  wf_case (c08_of 0 cs_ok) = true /\ known_C08 (c08_of 0 cs_ok) = [] /\
  conn_answers 0 cs_ok = [(2%Z, [1]); (2%Z, [1]); (2%Z, [1]); (1%Z, []); (1%Z, [])] /\
  entitled (c_ch cs_replayed) (c_tt cs_replayed) (c_remote cs_replayed) = None /\
  hs_outcome cs_replayed = (RErr, []) /\
  conn_answers 0 cs_replayed = [(0%Z, []); (1%Z, []); (1%Z, []); (1%Z, []); (1%Z, [])].
Proof. exact conn_system_nonvacuous. Qed.
Print Assumptions C19_conn_system_nonvacuous.
