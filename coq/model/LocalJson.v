(* LocalJson.v — model of what a local `mutate` that CREATES a row accepts for its scalar fields and
   which JSON content it stores:
     MutationParser::parse_entity_internals (parse_boolean_type / parse_int_type / parse_float_type /
       parse_string_type / parse_null_type), MutationParser::fill_not_nullable   (mutation_parser.rs)
     MutationQuery::get_mutate_query (assembly of the JSON object)                (mutation_query.rs)
     ParamValue::as_serde_json_value                                          (query_language/mod.rs)
   Literal values only (no $variables), creations only (no id field).  No proofs here. *)
From DV Require Export AuthzRemote.

(* a literal of the mutation text.  LStr b js: a string literal; b = it is valid base64;
   js = Some k if the text parses as JSON, k being the kind of the parsed value *)
Inductive lit := LBool | LInt | LFloat | LStr (b64 : bool) (js : option jval) | LNull.

(* a scalar field of the entity with the kind of value its default (if any) is stored as *)
Record lfield := { lf : field; lf_default : option jval }.

(* None = the request is refused; Some None = nothing stored for the field; Some (Some k) = a value of kind k *)
Definition local_value (f : lfield) (l : option lit) : option (option jval) :=
  match l with
  | None =>                                            (* field not mentioned: fill_not_nullable *)
      if f_nullable (lf f) then Some None
      else match lf_default f with
           | Some k => Some (Some k)
           | None => None                              (* MissingUpdateField *)
           end
  | Some LNull => if f_nullable (lf f) then Some (Some JNull) else None       (* NotNullable *)
  | Some LBool => match f_type (lf f) with TBool => Some (Some JBool) | _ => None end
  | Some LInt => match f_type (lf f) with
                 | TInt => Some (Some JInt)
                 | TFloat => Some (Some JFloat)        (* parsed as a float, stored as a float *)
                 | _ => None
                 end
  | Some LFloat => match f_type (lf f) with TFloat => Some (Some JFloat) | _ => None end
  | Some (LStr b js) =>
      match f_type (lf f) with
      | TString => Some (Some (JStr b))
      | TBase64 => if b then Some (Some (JStr true)) else None
      | TJson => match js with Some k => Some (Some k) | None => None end     (* any JSON text, stored parsed *)
      | _ => None
      end
  end.

Definition lget (lits : list (N * lit)) (k : N) : option lit :=
  match find (fun p => N.eqb (fst p) k) lits with Some p => Some (snd p) | None => None end.

(* the JSON object of the created row (entries in the order of the entity's fields) *)
Fixpoint local_store (fs : list lfield) (lits : list (N * lit)) : option json :=
  match fs with
  | [] => Some []
  | f :: tl =>
      match local_value f (lget lits (f_short (lf f))), local_store tl lits with
      | Some (Some v), Some j => Some ((f_short (lf f), v) :: j)
      | Some None, Some j => Some j
      | _, _ => None
      end
  end.

(* the JSON content the request WOULD produce if its explicit nulls were let through (what a peer would
   be handed by an author whose instance did not refuse them): None if the request is refused for
   another reason as well *)
Definition forced_value (f : lfield) (l : option lit) : option (option jval) :=
  match l with
  | Some LNull => Some (Some JNull)
  | _ => local_value f l
  end.
Fixpoint forced_store (fs : list lfield) (lits : list (N * lit)) : option json :=
  match fs with
  | [] => Some []
  | f :: tl =>
      match forced_value f (lget lits (f_short (lf f))), forced_store tl lits with
      | Some (Some v), Some j => Some ((f_short (lf f), v) :: j)
      | Some None, Some j => Some j
      | _, _ => None
      end
  end.

Definition jcode (v : option jval) : Z :=
  match v with
  | None => -1
  | Some JNull => 0 | Some JBool => 1 | Some JInt => 2 | Some JFloat => 3
  | Some (JStr false) => 4 | Some (JStr true) => 5 | Some JObj => 6 | Some JArr => 7
  end.
