(* Authz.v — model of RoomAuthorisations::validate_mutation / validate_entity_mutation (ordinary
   entities) and validate_deletion in src/database/authorisation_service.rs, over the abstract
   shape of an InsertEntity tree / DeletionQuery.  The model reproduces the code as it is.
   No proofs here. *)
From DV Require Export Rights.

Inductive verdict := VOk | VRejected | VUnknownRoom | VTooBig | VInvalidAuthMutation | VDeleteNotAllowed.
Definition verdict_code (v : verdict) : Z :=
  match v with VOk => 0 | VRejected => 1 | VUnknownRoom => 2 | VTooBig => 3
             | VInvalidAuthMutation => 4 | VDeleteNotAllowed => 5 end.

Inductive ekind := KNormal | KAuthLike.      (* sys.Authorisation / sys.EntityRight / sys.UserAuth *)

Record oldn := { o_room : option uid; o_author : key }.
(* NodeToMutate as far as validation reads it *)
Record mhead := { h_kind : ekind; h_ent : entity; h_room : option uid; h_date : Z;
                  h_has_node : bool;         (* node.is_some(): false = "reference only" *)
                  h_too_big : bool;          (* bincode size > max_node_size (computed by the caller) *)
                  h_old : option oldn;
                  h_edge_dels : list key }.  (* authors of the references the mutation removes *)
Inductive ment := MEnt (h : mhead) (subs : list ment).

Definition find_room (rooms : list room) (id : uid) : option room :=
  find (fun r => N.eqb (rm_id r) id) rooms.

Definition needed (same_user : bool) : right_t := if same_user then MutateSelf else MutateAll.

(* the head of validate_entity_mutation: None = continue with the sub-entities,
   Some v = return v at once. *)
(* removing a reference created by someone else needs the all-rows right, evaluated at `now` *)
Definition dels_ok (me : key) (now : Z) (r : room) (h : mhead) : bool :=
  forallb (fun a => N.eqb a me || can r me (h_ent h) now MutateAll) (h_edge_dels h).

Definition check_head (me : key) (now : Z) (rooms : list room) (h : mhead) : option verdict :=
  match h_kind h with
  | KAuthLike => Some VInvalidAuthMutation
  | KNormal =>
      if negb (h_has_node h) then None                          (* reference: only the sub-entities are validated *)
      else if h_too_big h then Some VTooBig
      else
        match h_old h with
        | Some old =>
            let same := N.eqb (o_author old) me in
            match h_room h with
            | None => None
            | Some rid =>
                match find_room rooms rid with
                | None => Some VUnknownRoom
                | Some r =>
                    let departing_ok :=
                      match o_room old with
                      | Some orid =>
                          if N.eqb orid rid then Some true
                          else match find_room rooms orid with
                               | Some oroom => Some (can oroom me (h_ent h) (h_date h) (needed same))
                               | None => None                    (* the departing room is unknown *)
                               end
                      | None => Some true
                      end in
                    match departing_ok with
                    | None => Some VUnknownRoom
                    | Some false => Some VRejected
                    | Some true =>
                        if can r me (h_ent h) (h_date h) (needed same)
                        then (if dels_ok me now r h then None else Some VRejected)
                        else Some VRejected
                    end
                end
            end
        | None =>
            match h_room h with
            | None => None
            | Some rid =>
                match find_room rooms rid with
                | None => Some VUnknownRoom
                | Some r => if can r me (h_ent h) (h_date h) MutateSelf
                            then (if dels_ok me now r h then None else Some VRejected)
                            else Some VRejected
                end
            end
        end
  end.

Fixpoint validate_entity (me : key) (now : Z) (rooms : list room) (m : ment) : verdict :=
  match m with
  | MEnt h subs =>
      match check_head me now rooms h with
      | Some v => v
      | None =>
          (fix go (l : list ment) : verdict :=
             match l with
             | [] => VOk
             | s :: tl => match validate_entity me now rooms s with VOk => go tl | v => v end
             end) subs
      end
  end.

Fixpoint validate_all (me : key) (now : Z) (rooms : list room) (ms : list ment) : verdict :=
  match ms with
  | [] => VOk
  | m :: tl => match validate_entity me now rooms m with VOk => validate_all me now rooms tl | v => v end
  end.

(* every row InsertEntity::write writes: the whole tree, also below a "reference" head *)
Fixpoint written (m : ment) : list mhead :=
  match m with
  | MEnt h subs => (if h_has_node h then [h] else []) ++ flat_map written subs
  end.

(* ---- deletions ---- *)
Record dnode := { dn_kind : ekind; dn_ent : entity; dn_room : option uid; dn_author : key; dn_date : Z }.
Record dedge := { de_kind : ekind; de_ent : entity; de_room : option uid; de_author : key; de_date : Z }.

Definition check_del (me : key) (now : Z) (rooms : list room) (k : ekind) (e : entity)
           (room : option uid) (author : key) (date : Z) : verdict :=
  match k with
  | KAuthLike => VDeleteNotAllowed
  | KNormal =>
      match room with
      | None => VOk
      | Some rid =>
          match find_room rooms rid with
          | None => VUnknownRoom
          | Some r =>
              let c := if N.eqb author me then can r me e date MutateSelf
                       else can r me e now MutateAll in
              if c then VOk else VRejected
          end
      end
  end.

Fixpoint validate_dnodes me now rooms (l : list dnode) : verdict :=
  match l with
  | [] => VOk
  | n :: tl => match check_del me now rooms (dn_kind n) (dn_ent n) (dn_room n) (dn_author n) (dn_date n) with
               | VOk => validate_dnodes me now rooms tl | v => v end
  end.
Fixpoint validate_dedges me now rooms (l : list dedge) : verdict :=
  match l with
  | [] => VOk
  | n :: tl => match check_del me now rooms (de_kind n) (de_ent n) (de_room n) (de_author n) (de_date n) with
               | VOk => validate_dedges me now rooms tl | v => v end
  end.
(* DeletionQuery.updated_nodes: the source row of a reference deletion is re-dated and signed
   again by the caller; it is checked like an update, at `now` *)
Fixpoint validate_dupd me now rooms (l : list dnode) : verdict :=
  match l with
  | [] => VOk
  | n :: tl => match check_del me now rooms (dn_kind n) (dn_ent n) (dn_room n) (dn_author n) now with
               | VOk => validate_dupd me now rooms tl | v => v end
  end.
Definition validate_deletion me now rooms (ns : list dnode) (es : list dedge) (upd : list dnode) : verdict :=
  match validate_dnodes me now rooms ns with
  | VOk => match validate_dupd me now rooms upd with
           | VOk => validate_dedges me now rooms es
           | v => v
           end
  | v => v
  end.
