(* Handshake.v — model of the connection handshake, the invitation table and the meeting tokens (C19).
     init_connection   <- LocalPeerService::initialise_connection   (synchronisation/peer_inbound_service.rs)
     get_token_type, create_invite, accept_invite, invite_accepted  <- network/peer_manager.rs
     token / derived tokens                                        <- MeetingSecret::{token, derive_token} (security.rs)
   The code is reproduced AS IT IS at the current commit.  Keys, invitation ids and
   secrets are indices; signatures are symbolic (who signed what).  No proofs here. *)
From DV Require Export Base.
Local Open Scope N_scope.

(* ------------------------------------------------------------------ meeting tokens *)
Section Token.
  (* x25519 idealised: sec -> public key, Diffie-Hellman, the two hashes truncated to 7 bytes *)
  Variables (sec pubk shared tok : Type).
  Variable pub_of : sec -> pubk.
  Variable dh : sec -> pubk -> shared.
  Variable h_shared : shared -> tok.
  Variable h_self : sec -> tok.
  Variable pubk_eqb : pubk -> pubk -> bool.
  (* MeetingSecret::token: same public key => hash of the own secret BYTES, else hash of the DH result *)
  Definition meeting_token (me : sec) (their : pubk) : tok :=
    if pubk_eqb their (pub_of me) then h_self me else h_shared (dh me their).
End Token.

(* executable instance: a secret is (identity of its 32 bytes, identity of the public key they give);
   x25519 clamps the scalar at use, so several byte strings give one public key *)
Record secret := { s_bytes : N; s_pub : N }.
Inductive token :=
| TkSelf (bytes : N)          (* blake3(secret bytes)[0..7] *)
| TkPair (lo hi : N)          (* blake3(dh)[0..7]; the DH value is a function of the two public keys *)
| TkInvite (inv : N)          (* derive_token("P", invite id) *)
| TkOwn.                      (* derive_token("MEETING_TOKEN", database key): the instance's own allowed-peer entry *)
Definition token_eqb (a b : token) : bool :=
  match a, b with
  | TkSelf x, TkSelf y => N.eqb x y
  | TkPair a1 a2, TkPair b1 b2 => N.eqb a1 b1 && N.eqb a2 b2
  | TkInvite x, TkInvite y => N.eqb x y
  | TkOwn, TkOwn => true
  | _, _ => false
  end.
Definition dh_pair (me : secret) (their : N) : N * N := (N.min (s_pub me) their, N.max (s_pub me) their).
Definition token_of : secret -> N -> token :=
  meeting_token secret N (N * N) token s_pub dh_pair (fun p => TkPair (fst p) (snd p)) (fun s => TkSelf (s_bytes s)) N.eqb.

(* ------------------------------------------------------------------ the token table of PeerManager *)
Inductive ttype :=
| TAllowed (k : key)                                    (* TokenType::AllowedPeer: expected verifying key *)
| TOwned (inv : N)                                      (* TokenType::OwnedInvite: an invitation this instance created *)
| TInvite (inv : N) (app : N) (signer : option key).    (* TokenType::Invite: received invitation; who signed hash(id,app), None = nobody *)

Record peer := { p_key : key; p_pub : N }.              (* a remote identity: signing key, meeting public key *)

Record pm := { pm_app : N; pm_secret : secret;
               pm_tokens : list (token * ttype) }.      (* HashMap<MeetingToken, Vec<TokenType>>: insertion order kept per token *)

(* get_token_type: first entry under the token that is an invitation, or an allowed peer with that key *)
Definition entry_matches (k : key) (t : ttype) : bool :=
  match t with TAllowed p => N.eqb p k | TOwned _ => true | TInvite _ _ _ => true end.
Definition get_token_type (m : pm) (tk : token) (k : key) : option ttype :=
  match find (fun e => token_eqb (fst e) tk && entry_matches k (snd e)) (pm_tokens m) with
  | Some e => Some (snd e)
  | None => None
  end.

Definition push (m : pm) (tk : token) (t : ttype) : pm :=
  {| pm_app := pm_app m; pm_secret := pm_secret m; pm_tokens := pm_tokens m ++ [(tk, t)] |}.

(* create_invite: a fresh OwnedInvite row (id = inv) registered under the invitation's token *)
Definition create_invite (m : pm) (inv : N) : pm := push m (TkInvite inv) (TOwned inv).

(* accept_invite: the bytes must deserialize and name this application; an invitation that is already
   in the table (accepted before, or created by this instance) is not registered again (fix 1e2cdf6) *)
Inductive invite_bytes := Garbage | InviteFor (inv : N) (app : N) (signer : option key).
Definition is_owned (inv : N) (t : ttype) : bool := match t with TOwned i => N.eqb i inv | _ => false end.
Definition is_invite (inv : N) (t : ttype) : bool := match t with TInvite i _ _ => N.eqb i inv | _ => false end.
Definition registered (inv : N) (e : token * ttype) : bool :=
  token_eqb (fst e) (TkInvite inv) && (is_owned inv (snd e) || is_invite inv (snd e)).
Definition accept_invite (m : pm) (b : invite_bytes) : option pm :=
  match b with
  | Garbage => None
  | InviteFor inv app signer =>
      if N.eqb app (pm_app m) then
        if existsb (registered inv) (pm_tokens m) then Some m
        else Some (push m (TkInvite inv) (TInvite inv app signer))
      else None
  end.

(* remove the first entry under token tk that satisfies p (Vec::position + remove) *)
Fixpoint remove_first (tk : token) (p : ttype -> bool) (l : list (token * ttype)) : list (token * ttype) :=
  match l with
  | [] => []
  | e :: r => if token_eqb (fst e) tk && p (snd e) then r else e :: remove_first tk p r
  end.
(* invite_accepted: the new peer becomes an allowed peer under its pairwise token, and the consumed
   invitation is removed from the list of ITS OWN token (fix 2163820; before it, the list of the new
   peer's pairwise token was searched and the invitation stayed usable until restart) *)
Definition invite_accepted (m : pm) (t : ttype) (p : peer) : option pm :=
  let tk := token_of (pm_secret m) (p_pub p) in                 (* the NEW peer's pairwise token *)
  let m1 := push m tk (TAllowed (p_key p)) in
  match t with
  | TOwned inv =>
      Some {| pm_app := pm_app m1; pm_secret := pm_secret m1;
              pm_tokens := remove_first (TkInvite inv) (is_owned inv) (pm_tokens m1) |}
  | TInvite inv _ _ =>
      Some {| pm_app := pm_app m1; pm_secret := pm_secret m1;
              pm_tokens := remove_first (TkInvite inv) (is_invite inv) (pm_tokens m1) |}
  | TAllowed _ => None                                           (* unreachable!() *)
  end.

(* ------------------------------------------------------------------ the handshake *)
(* what the remote side sends back for ProveIdentity(challenge) *)
Record answer := { a_key : key;            (* verifying key of the peer row it presents *)
                   a_sig_by : option key;  (* who produced chall_signature (None: garbage) *)
                   a_sig_over : N;         (* which challenge that signature is over *)
                   a_room : bool;          (* peer row has a room id *)
                   a_entity_ok : bool;     (* peer row is a sys.Peer row *)
                   a_rowsig_ok : bool;     (* peer row's own signature verifies under a_key *)
                   a_pubkey_ok : bool }.   (* peer row carries a decodable meeting public key *)
Inductive remote := NoAnswer | Ans (a : answer).

Inductive result := ROkFalse | ROkTrue | RErr.
Inductive effect := EBind (k : key) | ENotReady | EvReadyFingerprint | EvReady | MInviteAccepted (k : key) | MConnected (k : key).

(* IdentityAnswer::verify: chall_signature verifies over THIS challenge under the presented key *)
Definition proof_ok (challenge : N) (a : answer) : bool :=
  match a_sig_by a with Some s => N.eqb s (a_key a) && N.eqb (a_sig_over a) challenge | None => false end.
(* Peer::validate *)
Definition peer_row_ok (a : answer) : bool :=
  negb (a_room a) && a_entity_ok a && a_rowsig_ok a && a_pubkey_ok a.

(* initialise_connection; events_ok = the event channel of the connection still accepts messages *)
Definition init_connection (challenge : N) (local_key : key) (t : ttype) (r : remote) (events_ok : bool)
  : result * list effect :=
  match r with
  | NoAnswer => (ROkFalse, [])
  | Ans a =>
      if negb (proof_ok challenge a) then (RErr, [])
      else if negb (peer_row_ok a) then (RErr, [])
      else
        let k := a_key a in
        let finish (pre : list effect) :=
          if events_ok then (ROkTrue, pre ++ [EvReady; MConnected k]) else (ROkFalse, pre) in
        match t with
        | TAllowed expected =>
            if N.eqb expected k then
              if N.eqb local_key k then
                if events_ok then (ROkTrue, [EBind k; ENotReady; EvReadyFingerprint]) else (ROkFalse, [EBind k; ENotReady])
              else finish [EBind k]
            else (RErr, [])
        | TOwned _ => finish [EBind k; MInviteAccepted k]
        | TInvite _ _ signer =>
            match signer with
            | Some s => if N.eqb s k then finish [EBind k; MInviteAccepted k] else (RErr, [])
            | None => (RErr, [])
            end
        end
  end.

(* ------------------------------------------------------------------ several connections *)
(* The challenge of a connection is an element of a stream of nonces (random32() per connection);
   the stream is an explicit argument: the harness passes the challenges the implementation really
   sent, the theorems quantify over streams without repetition.  The remote side may answer live,
   or replay verbatim the answer an earlier connection received. *)
Inductive sremote := SNo | SAns (a : answer) | SReplay (j : nat).
Record sconn := { sc_local : key; sc_tt : ttype; sc_remote : sremote; sc_ev : bool }.
(* the answer as it is when produced for challenge n: chall_signature is over n *)
Definition over (a : answer) (n : N) : answer :=
  {| a_key := a_key a; a_sig_by := a_sig_by a; a_sig_over := n; a_room := a_room a;
     a_entity_ok := a_entity_ok a; a_rowsig_ok := a_rowsig_ok a; a_pubkey_ok := a_pubkey_ok a |}.
Definition sremote_of (nonces : list N) (all : list sconn) (i : nat) (c : sconn) : remote :=
  match sc_remote c with
  | SNo => NoAnswer
  | SAns a => match nth_error nonces i with Some n => Ans (over a n) | None => NoAnswer end
  | SReplay j =>
      match nth_error all j, nth_error nonces j with
      | Some cj, Some nj => match sc_remote cj with SAns a => Ans (over a nj) | _ => NoAnswer end
      | _, _ => NoAnswer
      end
  end.
Definition conn_result (nonces : list N) (all : list sconn) (i : nat) (c : sconn) : result * list effect :=
  match nth_error nonces i with
  | Some n => init_connection n (sc_local c) (sc_tt c) (sremote_of nonces all i c) (sc_ev c)
  | None => (ROkFalse, [])
  end.

(* ------------------------------------------------------------------ the table and the database *)
(* PeerManager keeps the token table in memory and the invitations / allowed peers in the database;
   PeerManager::new rebuilds the table from the database (restart).  An owned invitation may name a
   default room; the grant (a sys.Room mutation) can fail when the invitation is used. *)
Record sys := { sy_pm : pm;
                sy_next : N;                                  (* rank of the next created invitation *)
                sy_db_owned : list N;                         (* sys.OwnedInvite rows *)
                sy_db_invites : list (N * N * option key);    (* sys.Invite rows *)
                sy_db_allowed : list peer }.                  (* sys.AllowedPeer rows (the instance itself aside) *)
Definition mem_N (x : N) (l : list N) : bool := existsb (N.eqb x) l.
Definition with_tokens (m : pm) (l : list (token * ttype)) : pm :=
  {| pm_app := pm_app m; pm_secret := pm_secret m; pm_tokens := l |}.
(* PeerManager::new: allowed peers, then owned invitations, then received invitations *)
Definition rebuild (me_key : key) (s : sys) : pm :=
  with_tokens (sy_pm s)
    ((TkOwn, TAllowed me_key)
     :: map (fun p => (token_of (pm_secret (sy_pm s)) (p_pub p), TAllowed (p_key p))) (sy_db_allowed s)
     ++ map (fun i => (TkInvite i, TOwned i)) (sy_db_owned s)
     ++ map (fun x => let '(i, a, sg) := x in (TkInvite i, TInvite i a sg)) (sy_db_invites s)).
Definition add_allowed (l : list peer) (p : peer) : list peer :=
  if existsb (fun q => N.eqb (p_key q) (p_key p)) l then l else l ++ [p].

Inductive dop :=
| DCreate (grant : N)                 (* create_invite: 0 no default room, 1 a room that can be granted, 2 one that cannot *)
| DAccept (b : invite_bytes)
| DLookup (tk : token) (k : key)
| DConsume (tk : token) (p : peer)    (* a connection on tk whose remote proved to be p *)
| DRestart.

(* invite_accepted on an owned invitation: the row is deleted and the invitation leaves the table;
   only then is the default room granted (fix 1c5e321: a failing grant no longer keeps the invitation
   usable) — so the outcome of the grant does not matter for the table *)
Definition consume_owned (s : sys) (inv : N) (p : peer) : sys :=
  let m := sy_pm s in
  {| sy_pm := match invite_accepted m (TOwned inv) p with Some x => x | None => m end;
     sy_next := sy_next s;
     sy_db_owned := filter (fun i => negb (N.eqb i inv)) (sy_db_owned s);
     sy_db_invites := sy_db_invites s; sy_db_allowed := add_allowed (sy_db_allowed s) p |}.
Definition consume_invite (s : sys) (t : ttype) (inv : N) (p : peer) : sys :=
  let m := sy_pm s in
  {| sy_pm := match invite_accepted m t p with Some x => x | None => m end;
     sy_next := sy_next s; sy_db_owned := sy_db_owned s;
     sy_db_invites := filter (fun x => negb (N.eqb (fst (fst x)) inv)) (sy_db_invites s);
     sy_db_allowed := add_allowed (sy_db_allowed s) p |}.

(* one operation: new state and the two observed numbers *)
Definition dstep (me_key : key) (s : sys) (o : dop) : sys * N * N :=
  let m := sy_pm s in
  match o with
  | DCreate g =>
      let inv := sy_next s in
      ({| sy_pm := create_invite m inv; sy_next := N.succ inv;
          sy_db_owned := sy_db_owned s ++ [inv]; sy_db_invites := sy_db_invites s; sy_db_allowed := sy_db_allowed s |}, 1, inv)
  | DAccept b =>
      match accept_invite m b, b with
      | Some m', InviteFor inv a sg =>
          (* fix 4354588: an invitation the table already knows is not stored either; otherwise the
             sys.Invite row is written unless it exists *)
          if existsb (registered inv) (pm_tokens m) then (s, 1, 0)
          else
          ({| sy_pm := m'; sy_next := sy_next s; sy_db_owned := sy_db_owned s;
              sy_db_invites := if existsb (fun x => N.eqb (fst (fst x)) inv) (sy_db_invites s) then sy_db_invites s
                               else sy_db_invites s ++ [(inv, a, sg)];
              sy_db_allowed := sy_db_allowed s |}, 1, 0)
      | _, _ => (s, 0, 0)
      end
  | DLookup tk k =>
      match get_token_type m tk k with
      | None => (s, 0, 0)
      | Some (TAllowed q) => (s, 1, q)
      | Some (TOwned i) => (s, 2, i)
      | Some (TInvite i _ _) => (s, 3, i)
      end
  | DConsume tk p =>
      match get_token_type m tk (p_key p) with
      | None => (s, 0, 0)
      | Some (TAllowed _) => (s, 1, 0)
      | Some (TOwned i) => (consume_owned s i p, 2, 1)
      | Some (TInvite i a sg) =>
          (* initialise_connection: the remote must be the signer of the invitation *)
          if match sg with Some k => N.eqb k (p_key p) | None => false end
          then (consume_invite s (TInvite i a sg) i p, 3, 1) else (s, 3, 0)
      end
  | DRestart =>
      ({| sy_pm := rebuild me_key s; sy_next := sy_next s; sy_db_owned := sy_db_owned s;
          sy_db_invites := sy_db_invites s; sy_db_allowed := sy_db_allowed s |}, 1, 0)
  end.
Definition init_sys (app : N) (me : secret) (me_key : key) : sys :=
  {| sy_pm := {| pm_app := app; pm_secret := me; pm_tokens := [(TkOwn, TAllowed me_key)] |};
     sy_next := 1; sy_db_owned := []; sy_db_invites := []; sy_db_allowed := [] |}.
