(* RoomNode.v — model of src/database/room_node.rs (RoomNode / AuthorisationNode: check_consistency,
   parse, prepare_room_with_history, prepare_auth_with_history, prepare_new_auth, prepare_new_room)
   and of RoomAuthorisations::prepare_room_node (authorisation_service.rs), as the code is.

   Entries are signed rows: the row's verifying key is the [author] field (the signature check of
   SignatureVerificationService::room_check is assumed to have authenticated it; the harness only
   submits candidates on which the real room_check succeeds).  Placing references are signed
   edges: [e_author] is the edge's verifying key.  Payloads are well-formed (the JSON parse
   errors of UserNode::parse / EntityRightNode::parse are not modelled).  Of an authorisation
   row only (id, mdate, author) are kept (its name and the need_update write flag are not).
   Lists of the Rights model are newest-first.  State of /repo: after the fix commits 83dc3ea
   (oldest-first export), 85b1827 (prepare_new_auth) and cd32c02 (check_placed).  No proofs here. *)
From DV Require Export Rights.

(* un_date / rn_date is the row's mdate: the date the entry takes effect and at which its author must be
   entitled; un_cdate / rn_cdate is the row's cdate, chosen by the signer as well, only compared by Node::eq *)
Record unode := { un_id : uid; un_date : Z; un_author : key; un_key : key; un_enabled : bool; un_cdate : Z }.
Record rnode := { rn_id : uid; rn_date : Z; rn_author : key; rn_ent : entity; rn_self : bool; rn_all : bool; rn_cdate : Z }.
Record edge := { e_src : uid; e_label : N; e_dest : uid; e_date : Z; e_author : key }.
Record anode := { an_id : uid; an_date : Z; an_author : key;
                  an_redges : list edge; an_rnodes : list rnode;
                  an_uedges : list edge; an_unodes : list unode;
                  an_aedges : list edge; an_anodes : list unode }.
Record roomnode := { rmn_id : uid; rmn_cdate : Z; rmn_date : Z; rmn_author : key;
                     rmn_aedges : list edge; rmn_anodes : list unode;
                     rmn_gedges : list edge; rmn_gnodes : list anode }.

(* short field names of system_entities.rs *)
Definition L_ADMIN : N := 32%N.   (* sys.Room.admin *)
Definition L_AUTHS : N := 33%N.   (* sys.Room.authorisations *)
Definition L_RIGHTS : N := 33%N.  (* sys.Authorisation.rights *)
Definition L_USERS : N := 34%N.   (* sys.Authorisation.users *)
Definition L_UADMIN : N := 35%N.  (* sys.Authorisation.user_admin *)

(* error sites: every Err(..) of the modelled functions has its own code *)
Inductive perr := EInvalid (site : N) | EUserDate | ERightDate | EAuthExists | EPanic.
Inductive pres (A : Type) := POk (a : A) | PErr (e : perr).
Arguments POk {A} a.
Arguments PErr {A} e.
Definition pbind {A B} (x : pres A) (f : A -> pres B) : pres B :=
  match x with POk a => f a | PErr e => PErr e end.
Notation "'do' x <- e1 ;; e2" := (pbind e1 (fun x => e2)) (at level 200, x name, e1 at level 100, e2 at level 200).
Definition perr_code (e : perr) : Z :=
  match e with EInvalid s => 100 + Z.of_N s | EUserDate => 3 | ERightDate => 4 | EAuthExists => 5 | EPanic => 6 end.

(* Node::eq on the modelled fields; Edge::eq (the signature is not compared) *)
Definition unode_eqb (a b : unode) : bool :=
  N.eqb (un_id a) (un_id b) && Z.eqb (un_date a) (un_date b) && N.eqb (un_author a) (un_author b) &&
  N.eqb (un_key a) (un_key b) && Bool.eqb (un_enabled a) (un_enabled b) && Z.eqb (un_cdate a) (un_cdate b).
Definition rnode_eqb (a b : rnode) : bool :=
  N.eqb (rn_id a) (rn_id b) && Z.eqb (rn_date a) (rn_date b) && N.eqb (rn_author a) (rn_author b) &&
  N.eqb (rn_ent a) (rn_ent b) && Bool.eqb (rn_self a) (rn_self b) && Bool.eqb (rn_all a) (rn_all b) &&
  Z.eqb (rn_cdate a) (rn_cdate b).
Definition edge_eqb (a b : edge) : bool :=
  N.eqb (e_src a) (e_src b) && N.eqb (e_label a) (e_label b) && N.eqb (e_dest a) (e_dest b) &&
  Z.eqb (e_date a) (e_date b) && N.eqb (e_author a) (e_author b).

(* ------------------------------------------------------------------ check_consistency *)
Fixpoint check_edges (cid : uid) (s_src s_dest : N) (ids : list uid) (es : list edge) : pres unit :=
  match es with
  | [] => POk tt
  | e :: tl =>
      if negb (N.eqb (e_src e) cid) then PErr (EInvalid s_src)
      else if negb (existsb (N.eqb (e_dest e)) ids) then PErr (EInvalid s_dest)
      else check_edges cid s_src s_dest ids tl
  end.

(* check_placed (cd32c02): the rows of a list in order; an id may appear once (site 70) and must be the
   destination of a reference of that list carrying the list's field name (site 71); the signer of
   the reference is not looked at *)
Fixpoint check_placed_from (seen : list uid) (es : list edge) (label : N) (ids : list uid) : pres unit :=
  match ids with
  | [] => POk tt
  | i :: tl =>
      if existsb (N.eqb i) seen then PErr (EInvalid 70)
      else if negb (existsb (fun e => N.eqb (e_dest e) i && N.eqb (e_label e) label) es) then PErr (EInvalid 71)
      else check_placed_from (i :: seen) es label tl
  end.
Definition check_placed (es : list edge) (label : N) (ids : list uid) : pres unit := check_placed_from [] es label ids.

Definition check_auth (a : anode) : pres unit :=
  if negb (Nat.eqb (length (an_redges a)) (length (an_rnodes a))) then PErr (EInvalid 7)
  else do _ <- check_edges (an_id a) 8 9 (map rn_id (an_rnodes a)) (an_redges a) ;;
  if negb (Nat.eqb (length (an_uedges a)) (length (an_unodes a))) then PErr (EInvalid 10)
  else do _ <- check_edges (an_id a) 11 12 (map un_id (an_unodes a)) (an_uedges a) ;;
  if negb (Nat.eqb (length (an_aedges a)) (length (an_anodes a))) then PErr (EInvalid 7)     (* same message as site 7 *)
  else do _ <- check_edges (an_id a) 8 9 (map un_id (an_anodes a)) (an_aedges a) ;;
  do _ <- check_placed (an_redges a) L_RIGHTS (map rn_id (an_rnodes a)) ;;
  do _ <- check_placed (an_uedges a) L_USERS (map un_id (an_unodes a)) ;;
  check_placed (an_aedges a) L_UADMIN (map un_id (an_anodes a)).

Fixpoint check_auth_edges (cid : uid) (gs : list anode) (es : list edge) : pres unit :=
  match es with
  | [] => POk tt
  | e :: tl =>
      if negb (N.eqb (e_src e) cid) then PErr (EInvalid 5)
      else match find (fun a => N.eqb (an_id a) (e_dest e)) gs with
           | None => PErr (EInvalid 6)
           | Some a => do _ <- check_auth a ;; check_auth_edges cid gs tl
           end
  end.

Definition check_consistency (n : roomnode) : pres unit :=
  if negb (Nat.eqb (length (rmn_aedges n)) (length (rmn_anodes n))) then PErr (EInvalid 1)
  else do _ <- check_edges (rmn_id n) 2 3 (map un_id (rmn_anodes n)) (rmn_aedges n) ;;
  do _ <- check_placed (rmn_aedges n) L_ADMIN (map un_id (rmn_anodes n)) ;;
  if negb (Nat.eqb (length (rmn_gedges n)) (length (rmn_gnodes n))) then PErr (EInvalid 4)
  else do _ <- check_auth_edges (rmn_id n) (rmn_gnodes n) (rmn_gedges n) ;;
  check_placed (rmn_gedges n) L_AUTHS (map an_id (rmn_gnodes n)).

(* ------------------------------------------------------------------ parse *)
Definition user_of (n : unode) : user := {| u_key := un_key n; u_date := un_date n; u_enabled := un_enabled n |}.
Definition right_of (n : rnode) : eright := mk_right (rn_date n) (rn_ent n) (rn_self n) (rn_all n).

Fixpoint add_users (l : list user) (ns : list unode) : pres (list user) :=
  match ns with
  | [] => POk l
  | n :: tl => match add_user l (user_of n) with Some l' => add_users l' tl | None => PErr EUserDate end
  end.
Fixpoint add_rights (l : list eright) (ns : list rnode) : pres (list eright) :=
  match ns with
  | [] => POk l
  | n :: tl => match add_right l (right_of n) with Some l' => add_rights l' tl | None => PErr ERightDate end
  end.

(* AuthorisationNode::parse : rights, then users, then user admins *)
Definition parse_auth (a : anode) : pres auth :=
  do rs <- add_rights [] (an_rnodes a) ;;
  do us <- add_users [] (an_unodes a) ;;
  do uas <- add_users [] (an_anodes a) ;;
  POk {| a_id := an_id a; a_users := us; a_rights := rs; a_uadmins := uas |}.

Fixpoint add_auths (l : list auth) (gs : list anode) : pres (list auth) :=
  match gs with
  | [] => POk l
  | g :: tl =>
      do a <- parse_auth g ;;
      if existsb (fun x => N.eqb (a_id x) (a_id a)) l then PErr EAuthExists
      else add_auths (l ++ [a]) tl
  end.

(* RoomNode::parse *)
Definition parse_room (n : roomnode) : pres room :=
  do ads <- add_users [] (rmn_anodes n) ;;
  do aus <- add_auths [] (rmn_gnodes n) ;;
  POk {| rm_id := rmn_id n; rm_admins := ads; rm_auths := aus |}.

(* ------------------------------------------------------------------ stable sort (Vec::sort_by is stable) *)
Fixpoint insert_by {A} (f : A -> Z) (x : A) (l : list A) : list A :=
  match l with
  | [] => [x]
  | y :: tl => if Z.leb (f x) (f y) then x :: y :: tl else y :: insert_by f x tl
  end.
Definition sort_by {A} (f : A -> Z) (l : list A) : list A := fold_right (insert_by f) [] l.

(* ------------------------------------------------------------------ merging the stored definition *)
(* "ensure that existing edges exist": an old edge that no candidate edge equals is pushed back *)
Definition merge_edges (old new : list edge) : list edge :=
  fold_left (fun acc oe => if existsb (edge_eqb oe) acc then acc else acc ++ [oe]) old new.

(* old nodes: the FIRST candidate node with the same id must be equal, else error; absent -> pushed *)
Fixpoint merge_unodes (site : N) (old new : list unode) : pres (list unode) :=
  match old with
  | [] => POk new
  | o :: tl =>
      match find (fun u => N.eqb (un_id u) (un_id o)) new with
      | Some u => if unode_eqb u o then merge_unodes site tl new else PErr (EInvalid site)
      | None => merge_unodes site tl (new ++ [o])
      end
  end.
Fixpoint merge_rnodes (site : N) (old new : list rnode) : pres (list rnode) :=
  match old with
  | [] => POk new
  | o :: tl =>
      match find (fun u => N.eqb (rn_id u) (rn_id o)) new with
      | Some u => if rnode_eqb u o then merge_rnodes site tl new else PErr (EInvalid site)
      | None => merge_rnodes site tl (new ++ [o])
      end
  end.

Definition in_uold (old : list unode) (x : unode) : bool := existsb (fun o => N.eqb (un_id o) (un_id x)) old.
Definition in_rold (old : list rnode) (x : rnode) : bool := existsb (fun o => N.eqb (rn_id o) (rn_id x)) old.

(* new administrators extend the cloned room one after the other *)
Fixpoint check_new_admins (r : room) (old : list unode) (l : list unode) : pres (room * bool) :=
  match l with
  | [] => POk (r, false)
  | x :: tl =>
      if in_uold old x then check_new_admins r old tl
      else if is_admin r (un_author x) (un_date x) then
        match add_user (rm_admins r) (user_of x) with
        | Some l' => do p <- check_new_admins {| rm_id := rm_id r; rm_admins := l'; rm_auths := rm_auths r |} old tl ;;
                     POk (fst p, true)
        | None => PErr EUserDate
        end
      else PErr (EInvalid 51)
  end.

(* new user admins extend the cloned authorisation *)
Fixpoint check_new_uadmins (r : room) (a : auth) (old : list unode) (l : list unode) : pres (auth * bool) :=
  match l with
  | [] => POk (a, false)
  | x :: tl =>
      if in_uold old x then check_new_uadmins r a old tl
      else if is_admin r (un_author x) (un_date x) then
        match add_user (a_uadmins a) (user_of x) with
        | Some l' => do p <- check_new_uadmins r {| a_id := a_id a; a_users := a_users a; a_rights := a_rights a; a_uadmins := l' |} old tl ;;
                     POk (fst p, true)
        | None => PErr EUserDate
        end
      else PErr (EInvalid 41)
  end.

Fixpoint check_new_users (r : room) (a : auth) (old : list unode) (l : list unode) : pres bool :=
  match l with
  | [] => POk false
  | x :: tl =>
      if in_uold old x then check_new_users r a old tl
      else if can_admin_users a (un_author x) (un_date x) || is_admin r (un_author x) (un_date x) then
        do _ <- check_new_users r a old tl ;; POk true
      else PErr (EInvalid 43)
  end.

Fixpoint check_new_rights (r : room) (old : list rnode) (l : list rnode) : pres bool :=
  match l with
  | [] => POk false
  | x :: tl =>
      if in_rold old x then check_new_rights r old tl
      else if is_admin r (rn_author x) (rn_date x) then
        do _ <- check_new_rights r old tl ;; POk true
      else PErr (EInvalid 31)     (* same message as site 31 of prepare_new_auth *)
  end.

(* prepare_auth_with_history; [new] already carries the row chosen by the caller *)
Definition prepare_auth_with_history (r : room) (old new : anode) : pres (bool * anode) :=
  match find_auth r (an_id old) with
  | None => PErr EPanic              (* .expect("the old auth is extracted from the passed room") *)
  | Some a0 =>
      let aedges := sort_by e_date (merge_edges (an_aedges old) (an_aedges new)) in
      do an0 <- merge_unodes 40 (an_anodes old) (an_anodes new) ;;
      let anodes := sort_by un_date an0 in
      do p1 <- check_new_uadmins r a0 (an_anodes old) anodes ;;
      let a1 := fst p1 in
      let uedges := sort_by e_date (merge_edges (an_uedges old) (an_uedges new)) in
      do un0 <- merge_unodes 42 (an_unodes old) (an_unodes new) ;;
      let unodes := sort_by un_date un0 in
      do b2 <- check_new_users r a1 (an_unodes old) unodes ;;
      let redges := sort_by e_date (merge_edges (an_redges old) (an_redges new)) in
      do rn0 <- merge_rnodes 44 (an_rnodes old) (an_rnodes new) ;;
      let rnodes := sort_by rn_date rn0 in
      do b3 <- check_new_rights r (an_rnodes old) rnodes ;;
      POk (snd p1 || b2 || b3,
           {| an_id := an_id new; an_date := an_date new; an_author := an_author new;
              an_redges := redges; an_rnodes := rnodes; an_uedges := uedges; an_unodes := unodes;
              an_aedges := aedges; an_anodes := anodes |})
  end.

Fixpoint all_uadmin_users (a : auth) (l : list unode) : bool :=
  match l with
  | [] => true
  | x :: tl => can_admin_users a (un_author x) (un_date x) && all_uadmin_users a tl
  end.
Fixpoint all_admin_rights (r : room) (l : list rnode) : bool :=
  match l with
  | [] => true
  | x :: tl => is_admin r (rn_author x) (rn_date x) && all_admin_rights r tl
  end.
Fixpoint all_admin_users (r : room) (l : list unode) : bool :=
  match l with
  | [] => true
  | x :: tl => is_admin r (un_author x) (un_date x) && all_admin_users r tl
  end.

Fixpoint all_uadmin_or_admin_users (r : room) (a : auth) (l : list unode) : bool :=
  match l with
  | [] => true
  | x :: tl => (can_admin_users a (un_author x) (un_date x) || is_admin r (un_author x) (un_date x)) &&
               all_uadmin_or_admin_users r a tl
  end.

(* prepare_new_auth (as of 85b1827): the new group's user-admin entries against the room's admins,
   its users against the group's own user admins or the room's admins, its rights against the
   room's admins *)
Definition prepare_new_auth (r : room) (g : anode) : pres unit :=
  do a <- parse_auth g ;;
  if negb (all_admin_users r (an_anodes g)) then PErr (EInvalid 41)   (* same message as site 41 *)
  else if negb (all_uadmin_or_admin_users r a (an_unodes g)) then PErr (EInvalid 30)
  else if negb (all_admin_rights r (an_rnodes g)) then PErr (EInvalid 31)
  else POk tt.

(* the loop over the stored authorisations *)
Fixpoint update_first (id : uid) (f : anode -> pres (bool * anode)) (l : list anode) : option (pres (bool * list anode)) :=
  match l with
  | [] => None
  | a :: tl =>
      if N.eqb (an_id a) id then
        Some (do p <- f a ;; POk (fst p, snd p :: tl))
      else match update_first id f tl with
           | Some x => Some (do p <- x ;; POk (fst p, a :: snd p))
           | None => None
           end
  end.

Definition merge_one_auth (r : room) (old : anode) (new : anode) : pres (bool * anode) :=
  if Z.ltb (an_date old) (an_date new) then
    if negb (is_admin r (an_author new) (an_date new)) then PErr (EInvalid 52)
    else do p <- prepare_auth_with_history r old new ;; POk (true, snd p)
  else
    prepare_auth_with_history r old
      {| an_id := an_id old; an_date := an_date old; an_author := an_author old;
         an_redges := an_redges new; an_rnodes := an_rnodes new; an_uedges := an_uedges new;
         an_unodes := an_unodes new; an_aedges := an_aedges new; an_anodes := an_anodes new |}.

Fixpoint merge_auths (r : room) (old : list anode) (new : list anode) : pres (bool * list anode) :=
  match old with
  | [] => POk (false, new)
  | o :: tl =>
      match update_first (an_id o) (merge_one_auth r o) new with
      | Some x => do p <- x ;; do q <- merge_auths r tl (snd p) ;; POk (fst p || fst q, snd q)
      | None => merge_auths r tl (new ++ [o])
      end
  end.

Fixpoint check_new_auths (r : room) (old : list anode) (l : list anode) : pres bool :=
  match l with
  | [] => POk false
  | g :: tl =>
      if existsb (fun o => N.eqb (an_id o) (an_id g)) old then check_new_auths r old tl
      else if is_admin r (an_author g) (an_date g) then
        do _ <- prepare_new_auth r g ;; do _ <- check_new_auths r old tl ;; POk true
      else PErr (EInvalid 53)
  end.

(* prepare_room_with_history: returns need_update and the candidate as it will be written / parsed *)
Definition prepare_room_with_history (r : room) (old cand : roomnode) : pres (bool * roomnode) :=
  let aedges := sort_by e_date (merge_edges (rmn_aedges old) (rmn_aedges cand)) in
  do an0 <- merge_unodes 50 (rmn_anodes old) (rmn_anodes cand) ;;
  let anodes := sort_by un_date an0 in
  do p1 <- check_new_admins r (rmn_anodes old) anodes ;;
  let r1 := fst p1 in
  let gedges := merge_edges (rmn_gedges old) (rmn_gedges cand) in
  do p2 <- merge_auths r1 (rmn_gnodes old) (rmn_gnodes cand) ;;
  do b3 <- check_new_auths r1 (rmn_gnodes old) (snd p2) ;;
  let res := {| rmn_id := rmn_id cand; rmn_cdate := rmn_cdate cand; rmn_date := rmn_date cand;
                rmn_author := rmn_author cand;
                rmn_aedges := aedges; rmn_anodes := anodes; rmn_gedges := gedges; rmn_gnodes := snd p2 |} in
  do _ <- parse_room res ;;
  POk (snd p1 || fst p2 || b3, res).

(* prepare_new_room *)
Fixpoint check_new_room_auths (r : room) (l : list anode) : pres unit :=
  match l with
  | [] => POk tt
  | g :: tl =>
      if is_admin r (an_author g) (an_date g) then
        if negb (all_admin_users r (an_unodes g)) then PErr (EInvalid 21)
        else if negb (all_admin_rights r (an_rnodes g)) then PErr (EInvalid 22)
        else if negb (all_admin_users r (an_anodes g)) then PErr (EInvalid 23)
        else check_new_room_auths r tl
      else PErr (EInvalid 25)
  end.

Definition prepare_new_room (n : roomnode) : pres unit :=
  do r <- parse_room n ;;
  if negb (all_admin_users r (rmn_anodes n)) then PErr (EInvalid 20)
  else check_new_room_auths r (rmn_gnodes n).

(* RoomAuthorisations::prepare_room_node; [known] = self.rooms.get(room id) *)
Definition prepare_room_node (known : option room) (old : option roomnode) (cand : roomnode) : pres (bool * roomnode) :=
  do _ <- check_consistency cand ;;
  match known with
  | Some r => match old with
              | Some o => prepare_room_with_history r o cand
              | None => PErr (EInvalid 60)
              end
  | None => do _ <- prepare_new_room cand ;; POk (true, cand)
  end.

(* ------------------------------------------------------------------ storage order *)
(* RoomNode::read / AuthorisationNode::read (as of 83dc3ea) return every entry list oldest first
   (references sorted by cdate ascending, rows read in that order): the stored form of a definition
   whose lists are in insertion order is that definition *)
Definition read_order (n : roomnode) : roomnode := n.

(* ------------------------------------------------------------------ decisions *)
Definition decide (r : room) (p : key * entity * Z) : list Z :=
  let '(k, e, d) := p in
  [zb (can r k e d MutateSelf); zb (can r k e d MutateAll); zb (is_admin r k d);
   zb (is_user_valid_at r k d); zb (existsb (fun a => can_admin_users a k d) (rm_auths r))].
Definition decisions (r : room) (probes : list (key * entity * Z)) : list Z := flat_map (decide r) probes.
