(* System.v — the receiver as ONE state machine: the four tables of AuthzRemote.store, changed by any
   interleaving of
     - remote ingestion calls  (AuthzRemote.do_step: rows, references, row tombstones, reference tombstones),
     - accepted local writes   (Authz.validate_all answered VOk: MutationQuery::write), and
     - accepted local deletions (Authz.validate_deletion answered VOk: DeletionQuery::delete),
   and the STATE INVARIANT "every stored row and every stored reference is entitled", stated with the
   same grant specification C01 and C02 use (RightsSpec.granted through Run_C02.grantedR).
   The room definitions `defs` are a FIXED parameter of a history: changes of a room's definition are
   the subject of C07 / C10, not of this file.  No proofs here (proofs/SystemP.v). *)
From DV Require Export RightsSpec Authz AuthzRemote Run_C01 Run_C02.

(* ------------------------------------------------------------------ what "entitled" means for a stored row *)
(* A stored row (table _node) is entitled if its author is granted, by the accepted history of the
   row's room, at least the own-rows right for the row's entity at the row's own modification date.
   The own-rows right is the strongest right that is a function of the stored row alone: whether the
   all-rows right was needed depends on the row that was REPLACED, which the table no longer holds
   (that is what C02's per-call oracle, kinds 3 and 4, is about; see SystemP.kinds_3_4_keep_the_invariant).
   A row in no room is private to the local user (never synchronised, no room's rights apply:
   Authz.check_head and Run_C01.head_entitled do not constrain it either): it is entitled. *)
Definition room_grants (defs : list (uid * list event)) (room : option uid) (k : key) (en : entity) (d : Z) : bool :=
  match room with
  | Some R => grantedR defs R k en d MutateSelf
  | None => true
  end.

Definition entitled_node (defs : list (uid * list event)) (x : rnode) : bool :=
  match n_room x with
  | None => true
  | Some R => match n_ent x with
              | Some en => grantedR defs R (n_author x) en (n_mdate x) MutateSelf
              | None => false
              end
  end.

(* A stored reference (table _edge) carries NO room: its room is the room of its source row
   (GraphDatabase::add_edges looks the source up in the room of the call; a local write attaches the
   reference to the row it writes).  A stored reference is entitled if it hangs on a stored row of
   the entity it names (same id as e_src, same entity as e_ent) that is private or lies in a room
   whose history grants the reference's author the own-rows right for that entity at the
   reference's creation date.  A reference that hangs on nothing is NOT entitled. *)
Definition anchors (n : rnode) (y : redge) : bool :=
  N.eqb (n_id n) (e_src y) && oent_eqb (n_ent n) (e_ent y).

Definition entitled_edge (defs : list (uid * list event)) (nodes : list rnode) (y : redge) : bool :=
  match e_ent y with
  | None => false
  | Some en => existsb (fun n => anchors n y && room_grants defs (n_room n) (e_author y) en (e_cdate y)) nodes
  end.

Definition nodes_entitled (defs : list (uid * list event)) (st : store) : bool :=
  forallb (entitled_node defs) (s_nodes st).
Definition edges_entitled (defs : list (uid * list event)) (st : store) : bool :=
  forallb (entitled_edge defs (s_nodes st)) (s_edges st).
Definition all_entitled (defs : list (uid * list event)) (st : store) : bool :=
  nodes_entitled defs st && edges_entitled defs st.

(* ------------------------------------------------------------------ local writes *)
(* Authz.mhead is what validation READS of a NodeToMutate; it does not carry what is STORED.
   The link is made explicit: the i-th head of `flat_map written ms` (the rows InsertEntity::write
   writes, in its order) is stored under the i-th `lextra`:
     row        id = x_id, room = h_room, entity = h_ent, mdate = h_date, author = the caller, signed by the caller
     references one per entry of x_refs (tag, label, dest): src = x_id, src entity = h_ent,
                cdate = h_date, author = the caller       (mutation_query.rs get_mutate_query: Edge { src: node_to_mutate.id,
                src_entity: entity.short_name, cdate: node_to_mutate.date }, signed by sign_all)
     x_unrefs   (label, dest) of the references from x_id the write removes first (edge_deletions)
   h_old is NOT linked to the table: the theorems hold whatever the request claims about the row it replaces. *)
Record lrow := { x_tag : N; x_id : uid; x_json : option json; x_sig : N }.
Record lextra := { x_row : lrow; x_refs : list (N * N * uid); x_unrefs : list (N * uid) }.

Definition local_node (me : key) (room : option uid) (en : entity) (date : Z) (big : bool) (x : lrow) : rnode :=
  {| n_tag := x_tag x; n_id := x_id x; n_room := room; n_ent := Some en; n_json := x_json x;
     n_mdate := date; n_author := me; n_sig := x_sig x; n_sig_ok := true; n_too_big := big |}.

Definition write_rows (ms : list ment) (xs : list lextra) : list (mhead * lextra) :=
  combine (flat_map written ms) xs.
Definition row_id (p : mhead * lextra) : uid := x_id (x_row (snd p)).
Definition row_node (me : key) (p : mhead * lextra) : rnode :=
  local_node me (h_room (fst p)) (h_ent (fst p)) (h_date (fst p)) (h_too_big (fst p)) (x_row (snd p)).
Definition row_refs (me : key) (p : mhead * lextra) : list redge :=
  map (fun r => {| e_tag := fst (fst r); e_src := row_id p; e_ent := Some (h_ent (fst p)); e_label := snd (fst r);
                   e_dest := snd r; e_cdate := h_date (fst p); e_author := me; e_sig_ok := true |})
      (x_refs (snd p)).

(* Edge::delete : DELETE FROM _edge WHERE src=? AND label=? AND dest=? *)
Definition del_edge (st : store) (pk : uid * N * uid) : store :=
  {| s_nodes := s_nodes st;
     s_edges := filter (fun y => negb (N.eqb (e_src y) (fst (fst pk)) && N.eqb (e_label y) (snd (fst pk)) && N.eqb (e_dest y) (snd pk)))
                       (s_edges st);
     s_ndels := s_ndels st; s_edels := s_edels st |}.
(* InsertEntity::write for one entity, reference part: edge_deletions, then edge_insertions *)
Definition row_edges (me : key) (st : store) (p : mhead * lextra) : store :=
  fold_left put_edge (row_refs me p)
            (fold_left del_edge (map (fun ld => (row_id p, fst ld, snd ld)) (x_unrefs (snd p))) st).

(* the deletion logs are no part of the invariant, and every remote step is proved for ANY content of
   them: a local step may leave them in any state (`ndl`, `edl` = the two log tables afterwards) *)
Definition with_logs (st : store) (ndl : list rndel) (edl : list redel) : store :=
  {| s_nodes := s_nodes st; s_edges := s_edges st; s_ndels := ndl; s_edels := edl |}.

(* answer: [0] written; [verdict code] refused by validation, nothing changes; [9] the request does
   not give exactly one lextra per written row (no such request exists) *)
Definition step_write (rooms : list room) (st : store) (me : key) (now : Z) (ms : list ment) (xs : list lextra)
           (ndl : list rndel) (edl : list redel) : store * list Z :=
  match validate_all me now rooms ms with
  | VOk =>
      if Nat.eqb (length (flat_map written ms)) (length xs) then
        let rows := write_rows ms xs in
        (with_logs (fold_left (row_edges me) rows (fold_left put_node (map (row_node me) rows) st)) ndl edl, [0])
      else (st, [9])
  | v => (st, [verdict_code v])
  end.

(* ------------------------------------------------------------------ local deletions *)
(* DeletionQuery::delete: the references `es` (by primary key), then the rows `ns` (Node::delete by id,
   Edge::delete_src, Edge::delete_dest), then the source rows `upd` of the deleted references written
   again: same room and entity, mdate = now, signed by the caller (deletion.rs: node.mdate = date). *)
Definition del_node (st : store) (id : uid) : store :=
  {| s_nodes := filter (fun y => negb (N.eqb (n_id y) id)) (s_nodes st);
     s_edges := filter (fun y => negb (N.eqb (e_src y) id || N.eqb (e_dest y) id)) (s_edges st);
     s_ndels := s_ndels st; s_edels := s_edels st |}.
Definition upd_node (me : key) (now : Z) (p : dnode * lrow) : rnode :=
  local_node me (dn_room (fst p)) (dn_ent (fst p)) now false (snd p).

Definition step_delete (rooms : list room) (st : store) (me : key) (now : Z)
           (ns : list (dnode * uid)) (es : list (dedge * (uid * N * uid))) (upd : list (dnode * lrow))
           (ndl : list rndel) (edl : list redel) : store * list Z :=
  match validate_deletion me now rooms (map fst ns) (map fst es) (map fst upd) with
  | VOk =>
      let st1 := fold_left del_edge (map snd es) st in
      let st2 := fold_left del_node (map snd ns) st1 in
      (with_logs (fold_left put_node (map (upd_node me now) upd) st2) ndl edl, [0])
  | v => (st, [verdict_code v])
  end.

(* ------------------------------------------------------------------ interleaved histories *)
Inductive sys_step :=
| SysRemote (s : step)
| SysWrite (me : key) (now : Z) (ms : list ment) (xs : list lextra) (ndl : list rndel) (edl : list redel)
| SysDelete (me : key) (now : Z) (ns : list (dnode * uid)) (es : list (dedge * (uid * N * uid)))
            (upd : list (dnode * lrow)) (ndl : list rndel) (edl : list redel).

Definition sys_do (rooms : list room) (dm : dmodel) (st : store) (s : sys_step) : store * list Z :=
  match s with
  | SysRemote r => do_step rooms dm st r
  | SysWrite me now ms xs ndl edl => step_write rooms st me now ms xs ndl edl
  | SysDelete me now ns es upd ndl edl => step_delete rooms st me now ns es upd ndl edl
  end.

(* the states after each step and what each call answered (as AuthzRemote.run_steps) *)
Fixpoint sys_run (rooms : list room) (dm : dmodel) (st : store) (hist : list sys_step) : list (store * list Z) :=
  match hist with
  | [] => []
  | s :: tl => let r := sys_do rooms dm st s in r :: sys_run rooms dm (fst r) tl
  end.
Fixpoint sys_final (rooms : list room) (dm : dmodel) (st : store) (hist : list sys_step) : store :=
  match hist with
  | [] => st
  | s :: tl => sys_final rooms dm (fst (sys_do rooms dm st s)) tl
  end.

Definition is_local (s : sys_step) : bool := match s with SysRemote _ => false | _ => true end.

(* the kinds C02's oracle reports on a step (Run_C02.viol_step on the model's own behaviour, exactly
   what known_C02 classifies); a local step is no subject of that oracle *)
Definition sys_kinds (defs : list (uid * list event)) (dm : dmodel) (st : store) (s : sys_step) : list Z :=
  match s with
  | SysRemote r =>
      let a := do_step (build_rooms defs) dm st r in
      viol_step defs dm r (match snd a with 0 :: _ => true | _ => false end) st (fst a)
  | _ => []
  end.

(* ------------------------------------------------------------------ the side condition on references *)
(* Because a reference has no room of its own, a step that RETYPES, MOVES to another room or REMOVES
   a row on which a kept reference hangs takes the reference along (or leaves it hanging on nothing)
   without any check of the reference author's rights — in the remote path (a row tombstone does not
   remove the row's references; a new version of a row may change its entity or its room) and in the
   local path (a write may move a row).  This, NOT C02's kinds 3 and 4, is what can break the
   invariant for references (closed witnesses in SystemP.store_invariant_refuted); rows need no
   side condition at all.
   anchors_kept before after: every row of `before` on which a reference hangs that the step keeps
   (a reference of `after` that was already in `before`) still has, in `after`, a row of the same
   id, entity and room (content, author and date may change). *)
Definition redge_eqb (a b : redge) : bool :=
  N.eqb (e_tag a) (e_tag b) && N.eqb (e_src a) (e_src b) && oent_eqb (e_ent a) (e_ent b) &&
  N.eqb (e_label a) (e_label b) && N.eqb (e_dest a) (e_dest b) && Z.eqb (e_cdate a) (e_cdate b) &&
  N.eqb (e_author a) (e_author b) && Bool.eqb (e_sig_ok a) (e_sig_ok b).
Definition same_place (n n' : rnode) : bool :=
  N.eqb (n_id n') (n_id n) && oent_eqb (n_ent n') (n_ent n) && opt_eqb N.eqb (n_room n') (n_room n).
Definition carries_kept (before after : store) (n : rnode) : bool :=
  existsb (fun y => anchors n y && existsb (redge_eqb y) (s_edges before)) (s_edges after).
Definition anchors_kept (before after : store) : bool :=
  forallb (fun n => negb (carries_kept before after n) || existsb (same_place n) (s_nodes after)) (s_nodes before).

(* a local write stores each row id at most once (else the references of the first version hang on
   the second one) *)
Fixpoint nodupN (l : list N) : bool :=
  match l with
  | [] => true
  | a :: t => negb (existsb (N.eqb a) t) && nodupN t
  end.
Definition step_stable (before : store) (s : sys_step) (after : store) : bool :=
  anchors_kept before after &&
  match s with
  | SysWrite _ _ ms xs _ _ => nodupN (map row_id (write_rows ms xs))
  | _ => true
  end.
Fixpoint hist_stable (rooms : list room) (dm : dmodel) (st : store) (hist : list sys_step) : bool :=
  match hist with
  | [] => true
  | s :: tl => let after := fst (sys_do rooms dm st s) in
               step_stable st s after && hist_stable rooms dm after tl
  end.

(* ------------------------------------------------------------------ closed cases (for the examples) *)
Record syscase := { c_defs : list (uid * list event); c_dm : dmodel; c_pre : store; c_hist : list sys_step }.
Definition c_final (c : syscase) : store := sys_final (build_rooms (c_defs c)) (c_dm c) (c_pre c) (c_hist c).
Definition c_answers (c : syscase) : list (list Z) :=
  map snd (sys_run (build_rooms (c_defs c)) (c_dm c) (c_pre c) (c_hist c)).
(* every kind C02's oracle reports along the history *)
Fixpoint hist_kinds (defs : list (uid * list event)) (dm : dmodel) (st : store) (hist : list sys_step) : list Z :=
  match hist with
  | [] => []
  | s :: tl => sys_kinds defs dm st s ++ hist_kinds defs dm (fst (sys_do (build_rooms defs) dm st s)) tl
  end.
Definition c_kinds (c : syscase) : list Z := hist_kinds (c_defs c) (c_dm c) (c_pre c) (c_hist c).
(* (initial store entitled, history stable, rows of the final store entitled, final store entitled) *)
Definition verdicts (c : syscase) : bool * bool * bool * bool :=
  (all_entitled (c_defs c) (c_pre c),
   hist_stable (build_rooms (c_defs c)) (c_dm c) (c_pre c) (c_hist c),
   nodes_entitled (c_defs c) (c_final c),
   all_entitled (c_defs c) (c_final c)).
Definition of_c02 (c : c02case) : syscase :=
  match c with
  | CIngest defs dm pre steps => {| c_defs := defs; c_dm := dm; c_pre := pre; c_hist := map SysRemote steps |}
  end.
