(* AuthzRemote.v — model of the path by which rows received from a peer are validated and stored:
     validate_json_for_entity                         (data_model_parser.rs)
     GraphDatabase::add_nodes / add_edges / delete_nodes / delete_edges (filters, graph_database.rs)
     Node::filter_existing, NodeDeletionEntry::with_previous_authors / delete_all   (node.rs)
     EdgeDeletionEntry::with_source_authors / delete_all, Edge::write               (edge.rs)
     RoomAuthorisations::validate_node, validate_node_deletions, validate_edge_deletions and the
     AddEdges arm of AuthorisationService::process_message       (authorisation_service.rs)
     SignatureVerificationService::{nodes,edges,node_log,edge_log}_check (symbolic: a validity bit)
   The model reproduces the code as it is (defects included).  No proofs here. *)
From DV Require Export Rights Authz.

(* ------------------------------------------------------------------ data model conformance *)
Inductive ftype := TBool | TFloat | TBase64 | TInt | TString | TJson.
(* the kind of a JSON value, as far as validate_json_for_entity looks at it *)
Inductive jval := JNull | JBool | JInt | JFloat | JStr (b64 : bool) | JObj | JArr.
Record field := { f_short : N; f_type : ftype; f_nullable : bool; f_default : bool }.
Definition json := list (N * jval).          (* the object's entries, by short field name *)

(* Value::as_bool / as_f64 / as_i64 / as_str (+ base64_decode) / is_object||is_array *)
Definition value_ok (t : ftype) (v : jval) : bool :=
  match t, v with
  | TBool, JBool => true
  | TFloat, JInt => true
  | TFloat, JFloat => true
  | TBase64, JStr b => b
  | TInt, JInt => true
  | TString, JStr _ => true
  | TJson, JObj => true
  | TJson, JArr => true
  | _, _ => false
  end.
Definition jget (j : json) (k : N) : option jval :=
  match find (fun p => N.eqb (fst p) k) j with Some p => Some (snd p) | None => None end.
Definition is_null (v : jval) : bool := match v with JNull => true | _ => false end.
Definition field_ok (j : json) (f : field) : bool :=
  match jget j (f_short f) with
  | Some v => (f_nullable f && is_null v)              (* an explicit null for a nullable field *)
              || value_ok (f_type f) v                 (* else a present key must carry a value of the type *)
  | None => f_nullable f || f_default f
  end.
(* validate_json_for_entity: a row without json content carries no field at all *)
Definition conform (fields : list field) (j : option json) : bool :=
  forallb (field_ok (match j with Some o => o | None => [] end)) fields.

Definition dmodel := list (entity * list field).      (* entities of the receiver's data model *)
Definition fields_of (dm : dmodel) (e : entity) : option (list field) :=
  match find (fun p => N.eqb (fst p) e) dm with Some p => Some (snd p) | None => None end.

(* ------------------------------------------------------------------ rows *)
(* n_ent / e_ent / ... : the entity NAME the receiver resolves the row's short name to
   (DataModel::name_for); None = a short name the receiver's model does not know.
   n_sig : rank of the signature bytes (only compared by filter_existing on equal dates).
   *_sig_ok : the row verifies under its stated author's key (symbolic signature). *)
Record rnode := { n_tag : N; n_id : uid; n_room : option uid; n_ent : option entity; n_json : option json;
                  n_mdate : Z; n_author : key; n_sig : N; n_sig_ok : bool; n_too_big : bool }.
Record redge := { e_tag : N; e_src : uid; e_ent : option entity; e_label : N; e_dest : uid;
                  e_cdate : Z; e_author : key; e_sig_ok : bool }.
Record rndel := { nd_tag : N; nd_room : uid; nd_id : uid; nd_ent : option entity; nd_mdate : Z;
                  nd_date : Z; nd_author : key; nd_sig_ok : bool }.
Record redel := { ed_tag : N; ed_room : uid; ed_src : uid; ed_ent : option entity; ed_label : N; ed_dest : uid;
                  ed_cdate : Z; ed_date : Z; ed_author : key; ed_sig_ok : bool }.
(* _node, _edge, _node_deletion_log, _edge_deletion_log *)
Record store := { s_nodes : list rnode; s_edges : list redge; s_ndels : list rndel; s_edels : list redel }.

Definition oent_eqb := opt_eqb N.eqb.

(* ------------------------------------------------------------------ validate_node *)
(* NodeToInsert as validate_node reads it: the node, entity_name, old_room_id, old_verifying_key *)
Definition required_right (old_author : option key) (author : key) : right_t :=
  match old_author with
  | Some k => needed (N.eqb k author)
  | None => MutateSelf
  end.

Definition validate_node (rooms : list room) (x : rnode) (old_room : option uid) (old_author : option key) : bool :=
  if n_too_big x then false
  else
    let t := required_right old_author (n_author x) in
    match n_room x with
    | None => false
    | Some rid =>
        let departing :=
          match old_room with
          | Some orid =>
              if N.eqb orid rid then true
              else match find_room rooms orid with
                   | None => false
                   | Some oroom => match n_ent x with
                                   | None => false
                                   | Some en => can oroom (n_author x) en (n_mdate x) t
                                   end
                   end
          | None => true
          end in
        if negb departing then false
        else match find_room rooms rid with
             | None => false
             | Some r => match n_ent x with
                         | None => false
                         | Some en => can r (n_author x) en (n_mdate x) t
                         end
             end
    end.

(* the filter of GraphDatabase::add_nodes in front of it: room of the request, known entity,
   validate_json_for_entity *)
Definition prefilter (dm : dmodel) (R : uid) (x : rnode) : bool :=
  match n_room x with
  | Some r => N.eqb r R
  | None => false
  end &&
  match n_ent x with
  | Some en => match fields_of dm en with Some fs => conform fs (n_json x) | None => false end
  | None => false
  end.

(* ------------------------------------------------------------------ ingestion of nodes *)
Definition lookup_node (st : store) (id : uid) : option rnode :=
  find (fun y => N.eqb (n_id y) id) (s_nodes st).

(* Node::filter_existing: an announced version older than the stored one, or of the same date
   with a signature not greater, is not requested *)
Definition lww_pass (ex x : rnode) : bool :=
  negb (Z.ltb (n_mdate x) (n_mdate ex)) &&
  negb (Z.eqb (n_mdate x) (n_mdate ex) && N.leb (n_sig x) (n_sig ex)).
(* ... and a version not newer than the one a stored deletion record of that id names is not
   requested either (any room, any entity) *)
Definition tombstoned (st : store) (x : rnode) : bool :=
  existsb (fun d => N.eqb (nd_id d) (n_id x) && Z.leb (n_mdate x) (nd_mdate d)) (s_ndels st).
Definition requested (st : store) (x : rnode) : bool :=
  negb (tombstoned st x) &&
  match lookup_node st (n_id x) with Some ex => lww_pass ex x | None => true end.

Definition accept_node (rooms : list room) (dm : dmodel) (R : uid) (st : store) (x : rnode) : bool :=
  prefilter dm R x &&
  match lookup_node st (n_id x) with
  | Some ex => validate_node rooms x (n_room ex) (Some (n_author ex))
  | None => validate_node rooms x None None
  end.

(* NodeToInsert::write: UPDATE of the row found by filter_existing, else INSERT *)
Definition put_node (st : store) (x : rnode) : store :=
  {| s_nodes := x :: filter (fun y => negb (N.eqb (n_id y) (n_id x))) (s_nodes st);
     s_edges := s_edges st; s_ndels := s_ndels st; s_edels := s_edels st |}.

Fixpoint insert_sorted (z : Z) (l : list Z) : list Z :=
  match l with
  | [] => [z]
  | h :: t => if Z.leb z h then z :: l else h :: insert_sorted z t
  end.
Definition sortz (l : list Z) : list Z := fold_right insert_sorted [] l.
Definition counted (l : list Z) : list Z := Z.of_nat (length l) :: l.

(* one call sequence filter_existing_node -> nodes_check -> add_nodes(R, ..) as synchronise_day makes it.
   result: the new store and [status; number of rejected ids; rejected ids sorted]
   (status 1 = a signature does not verify: the whole reply is dropped) *)
Definition step_nodes (rooms : list room) (dm : dmodel) (R : uid) (st : store) (batch : list rnode) : store * list Z :=
  let req := filter (requested st) batch in
  if forallb n_sig_ok req then
    let acc := filter (accept_node rooms dm R st) req in
    let rej := filter (fun x => negb (accept_node rooms dm R st x)) req in
    (fold_left put_node acc st, 0 :: counted (sortz (map (fun x => zn (n_id x)) rej)))
  else (st, [1]).

(* ------------------------------------------------------------------ ingestion of edges *)
Definition same_edge_pk (a b : redge) : bool :=
  N.eqb (e_src a) (e_src b) && N.eqb (e_label a) (e_label b) && N.eqb (e_dest a) (e_dest b).
(* Edge::write : INSERT OR REPLACE, primary key (src, label, dest) *)
Definition put_edge (st : store) (x : redge) : store :=
  {| s_nodes := s_nodes st;
     s_edges := x :: filter (fun y => negb (same_edge_pk y x)) (s_edges st);
     s_ndels := s_ndels st; s_edels := s_edels st |}.
(* the AddEdges arm: the author's own-rows right for the source entity at the edge's date, in the
   room named by the request; nothing else *)
Definition edge_right (r : room) (x : redge) : bool :=
  match e_ent x with
  | Some en => can r (e_author x) en (e_cdate x) MutateSelf
  | None => false
  end.
(* GraphDatabase::add_edges: the source must be a row of that entity stored in the room of the call *)
Definition src_in_room (nodes : list rnode) (src : uid) (R : uid) (en : entity) : bool :=
  existsb (fun n => N.eqb (n_id n) src && opt_eqb N.eqb (n_room n) (Some R) && oent_eqb (n_ent n) (Some en)) nodes.
Definition edge_ok (r : room) (R : uid) (st : store) (x : redge) : bool :=
  match e_ent x with
  | Some en => src_in_room (s_nodes st) (e_src x) R en
  | None => false
  end && edge_right r x.
Definition step_edges (rooms : list room) (R : uid) (st : store) (batch : list redge) : store * list Z :=
  if forallb e_sig_ok batch then
    match find_room rooms R with
    | None => (st, [2])                                        (* Err(UnknownRoom) for the whole call *)
    | Some r =>
        let acc := filter (edge_ok r R st) batch in
        let rej := filter (fun x => negb (edge_ok r R st x)) batch in
        (fold_left put_edge acc st, 0 :: counted (sortz (map (fun x => zn (e_src x)) rej)))
    end
  else (st, [1]).

(* ------------------------------------------------------------------ node tombstones *)
(* validate_node_deletions: the right for the entity named in the tombstone, in the room named in
   the tombstone, at the deletion date; all-rows right iff the stored row with that id (in any
   room) has another author.  with_previous_authors drops an entry that names another entity than
   the stored row. *)
Definition ndel_ok (rooms : list room) (st : store) (d : rndel) : bool :=
  match nd_ent d with
  | None => false
  | Some en =>
      match find_room rooms (nd_room d) with
      | None => false
      | Some r =>
          match lookup_node st (nd_id d) with
          | Some ex => oent_eqb (n_ent ex) (nd_ent d) &&
                       can r (nd_author d) en (nd_date d) (needed (N.eqb (n_author ex) (nd_author d)))
          | None => can r (nd_author d) en (nd_date d) MutateSelf
          end
      end
  end.
Definition same_ndel_pk (a b : rndel) : bool :=
  N.eqb (nd_room a) (nd_room b) && Z.eqb (nd_date a) (nd_date b) && N.eqb (nd_id a) (nd_id b) && oent_eqb (nd_ent a) (nd_ent b).
(* NodeDeletionEntry::delete_all: DELETE FROM _node WHERE room_id=? AND id=? AND mdate<=? ;
   INSERT OR REPLACE the entry *)
Definition node_hit (d : rndel) (y : rnode) : bool :=
  opt_eqb N.eqb (n_room y) (Some (nd_room d)) && N.eqb (n_id y) (nd_id d) && Z.leb (n_mdate y) (nd_mdate d).
Definition apply_ndel (st : store) (d : rndel) : store :=
  {| s_nodes := filter (fun y => negb (node_hit d y)) (s_nodes st);
     s_edges := s_edges st;
     s_ndels := d :: filter (fun y => negb (same_ndel_pk y d)) (s_ndels st);
     s_edels := s_edels st |}.
(* GraphDatabaseService::delete_nodes cuts the answer into batches with at most one entry per row id
   (the k-th entry of an id goes to the k-th batch) and processes the batches one after the other,
   each validated against the rows held at that moment.  Entries of different ids do not influence
   each other (verdict and effect of an entry depend on rows and log entries of its own id only), so
   this is one entry at a time, in the order received. *)
Definition one_ndel (rooms : list room) (st : store) (d : rndel) : store :=
  if ndel_ok rooms st d then apply_ndel st d else st.
Definition step_ndels (rooms : list room) (st : store) (batch : list rndel) : store * list Z :=
  if forallb nd_sig_ok batch then (fold_left (one_ndel rooms) batch st, [0])
  else (st, [1]).

(* ------------------------------------------------------------------ edge tombstones *)
(* the edge an entry designates: (src, src_entity, label, dest, cdate) *)
Definition edge_hit (d : redel) (y : redge) : bool :=
  N.eqb (e_src y) (ed_src d) && oent_eqb (e_ent y) (ed_ent d) && N.eqb (e_label y) (ed_label d) &&
  N.eqb (e_dest y) (ed_dest d) && Z.eqb (e_cdate y) (ed_cdate d).
Definition edel_ok (rooms : list room) (st : store) (d : redel) : bool :=
  match ed_ent d with
  | None => false
  | Some en =>
      match find_room rooms (ed_room d) with
      | None => false
      | Some r =>
          let t := match find (edge_hit d) (s_edges st) with
                   | Some ex => needed (N.eqb (e_author ex) (ed_author d))
                   | None => MutateSelf
                   end in
          can r (ed_author d) en (ed_date d) t
      end
  end.
Definition same_edel_pk (a b : redel) : bool :=
  N.eqb (ed_room a) (ed_room b) && Z.eqb (ed_date a) (ed_date b) && N.eqb (ed_src a) (ed_src b) &&
  N.eqb (ed_label a) (ed_label b) && N.eqb (ed_dest a) (ed_dest b).
Definition apply_edel (st : store) (d : redel) : store :=
  {| s_nodes := s_nodes st;
     s_edges := filter (fun y => negb (edge_hit d y)) (s_edges st);
     s_ndels := s_ndels st;
     s_edels := d :: filter (fun y => negb (same_edel_pk y d)) (s_edels st) |}.
Definition step_edels (rooms : list room) (st : store) (batch : list redel) : store * list Z :=
  if forallb ed_sig_ok batch then
    (fold_left apply_edel (filter (edel_ok rooms st) batch) st, [0])
  else (st, [1]).

(* ------------------------------------------------------------------ a sequence of calls *)
Inductive step :=
| SNodes (R : uid) (batch : list rnode)
| SEdges (R : uid) (batch : list redge)
| SNDels (batch : list rndel)
| SEDels (batch : list redel).

Definition do_step (rooms : list room) (dm : dmodel) (st : store) (s : step) : store * list Z :=
  match s with
  | SNodes R b => step_nodes rooms dm R st b
  | SEdges R b => step_edges rooms R st b
  | SNDels b => step_ndels rooms st b
  | SEDels b => step_edels rooms st b
  end.

(* the states after each step (the initial one first) and what each call returned *)
Fixpoint run_steps (rooms : list room) (dm : dmodel) (st : store) (ss : list step) : list (store * list Z) :=
  match ss with
  | [] => []
  | s :: tl => let r := do_step rooms dm st s in r :: run_steps rooms dm (fst r) tl
  end.
