(* Codec.v — how text values travel (C04):
     json_esc       <- serde_json's string escaping (serde_json::to_string in get_mutate_query: the _json column)
     json_unesc     <- JSON string unescaping (what any JSON reader makes of it)
     decode_literal <- query_language::decode_string_literal (commit cdaba75), which turns the text between the quotes
                       of a literal into its value at the four call sites (mutation_parser.rs parse_string_type,
                       query_parser.rs parse_field_value / search, data_model_parser.rs default values)
     tokens         <- the `string` / `char` rules of the three .pest grammars: what a literal may contain
   Text = list of Unicode scalar values (QLang.str).  No proofs here. *)
From DV Require Export QLang.
Open Scope list_scope.

Definition hexd (n : N) : N := if N.ltb n 10 then (48 + n)%N else (87 + n)%N.      (* lowercase, as serde_json *)
Definition esc_char (c : N) : str :=
  if N.eqb c 34 then [92; 34]%N            (* backslash quote *)
  else if N.eqb c 92 then [92; 92]%N       (* \\  *)
  else if N.eqb c 8 then [92; 98]%N        (* \b  *)
  else if N.eqb c 12 then [92; 102]%N      (* \f  *)
  else if N.eqb c 10 then [92; 110]%N      (* \n  *)
  else if N.eqb c 13 then [92; 114]%N      (* \r  *)
  else if N.eqb c 9 then [92; 116]%N       (* \t  *)
  else if N.ltb c 32 then [92; 117; 48; 48; hexd (N.div c 16); hexd (N.modulo c 16)]%N   (* \u00XX *)
  else [c].
Definition json_esc (s : str) : str := flat_map esc_char s.

Definition hexv (c : N) : option N :=
  if N.leb 48 c && N.leb c 57 then Some (c - 48)%N
  else if N.leb 97 c && N.leb c 102 then Some (c - 87)%N
  else if N.leb 65 c && N.leb c 70 then Some (c - 55)%N
  else None.
Definition hex4 (a b c d : N) : option N :=
  match hexv a, hexv b, hexv c, hexv d with
  | Some x, Some y, Some z, Some w => Some (x * 4096 + y * 256 + z * 16 + w)%N
  | _, _, _, _ => None
  end.
Definition is_high (u : N) : bool := N.leb 55296 u && N.leb u 56319.     (* D800..DBFF *)
Definition is_low (u : N) : bool := N.leb 56320 u && N.leb u 57343.      (* DC00..DFFF *)

(* the meaning of a one-letter escape *)
Definition simple_esc (e : N) : option N :=
  if N.eqb e 34 then Some 34%N else if N.eqb e 92 then Some 92%N else if N.eqb e 47 then Some 47%N
  else if N.eqb e 98 then Some 8%N else if N.eqb e 102 then Some 12%N else if N.eqb e 110 then Some 10%N
  else if N.eqb e 114 then Some 13%N else if N.eqb e 116 then Some 9%N else None.

(* the text between the quotes of a JSON string -> its value; None = not a JSON string body *)
Fixpoint json_unesc (l : str) : option str :=
  match l with
  | [] => Some []
  | c :: t =>
      if N.eqb c 92 then
        match t with
        | [] => None
        | e :: r =>
            if N.eqb e 117 then
              match r with
              | a :: b :: c' :: d :: r1 =>
                  match hex4 a b c' d with
                  | None => None
                  | Some u =>
                      if is_low u then None
                      else if is_high u then
                        match r1 with
                        | b1 :: u1 :: a' :: b' :: c'' :: d' :: r2 =>
                            if N.eqb b1 92 && N.eqb u1 117 then
                              match hex4 a' b' c'' d' with
                              | Some v => if is_low v
                                          then option_map (cons (65536 + (u - 55296) * 1024 + (v - 56320))%N) (json_unesc r2)
                                          else None
                              | None => None
                              end
                            else None
                        | _ => None
                        end
                      else option_map (cons u) (json_unesc r1)
                  end
              | _ => None
              end
            else match simple_esc e with
                 | Some v => option_map (cons v) (json_unesc r)
                 | None => None
                 end
        end
      else if N.eqb c 34 || N.ltb c 32 then None
      else option_map (cons c) (json_unesc t)
  end.

(* decode_string_literal: one pass over the characters; a \u escape gives a UTF-16 code unit, a high surrogate
   waits for the low one that must follow, a surrogate that stays alone becomes U+FFFD *)
Definition flush (pending : option N) : str := match pending with Some _ => [65533%N] | None => [] end.
Definition fix_unit (u : N) : N := if is_low u then 65533%N else u.
(* what one escape unit adds to the output, given the pending high surrogate *)
Definition unit_out (pending : option N) (u : N) : str :=
  match pending with
  | Some h => if is_low u then [(65536 + (h - 55296) * 1024 + (u - 56320))%N]
              else 65533%N :: (if is_high u then [] else [fix_unit u])
  | None => if is_high u then [] else [fix_unit u]
  end.
Definition unit_pending (u : N) : option N := if is_high u then Some u else None.
Definition esc_unit (e : N) : N := match simple_esc e with Some v => v | None => e end.

Fixpoint decode_from (pending : option N) (l : str) : str :=
  match l with
  | [] => flush pending
  | c :: t =>
      if N.eqb c 92 then
        match t with
        | [] => unit_out pending 92%N ++ flush (unit_pending 92%N)
        | e :: r =>
            if N.eqb e 117 then
              match r with
              | a :: b :: c' :: d :: r1 =>
                  let u := match hex4 a b c' d with Some u => u | None => 65533%N end in
                  unit_out pending u ++ decode_from (unit_pending u) r1
              | _ => unit_out pending 65533%N      (* not produced by the grammars *)
              end
            else unit_out pending (esc_unit e) ++ decode_from (unit_pending (esc_unit e)) r
        end
      else flush pending ++ c :: decode_from None t
  end.
Definition decode_literal (l : str) : str := decode_from None l.

(* ---- what the grammars accept between the quotes ---- *)
Inductive esc := EQuote | EBslash | ESlash | Eb | Ef | En | Er | Et | Eu (a b c d : N).
Inductive tok := TChar (c : N) | TEsc (e : esc).

Definition is_hex (c : N) : bool := match hexv c with Some _ => true | None => false end.
Definition wf_tok (t : tok) : bool :=
  match t with
  | TChar c => negb (N.eqb c 34) && negb (N.eqb c 92)
  | TEsc (Eu a b c d) => is_hex a && is_hex b && is_hex c && is_hex d
  | TEsc _ => true
  end.
Definition render_esc (e : esc) : str :=
  match e with
  | EQuote => [92; 34] | EBslash => [92; 92] | ESlash => [92; 47] | Eb => [92; 98] | Ef => [92; 102]
  | En => [92; 110] | Er => [92; 114] | Et => [92; 116] | Eu a b c d => [92; 117; a; b; c; d]
  end%N.
Definition render_tok (t : tok) : str := match t with TChar c => [c] | TEsc e => render_esc e end.
Definition render (ts : list tok) : str := flat_map render_tok ts.

(* the value a literal denotes: characters denote themselves, an escape its JSON meaning - a \u escape is a
   UTF-16 code unit, a high surrogate followed by a low one is one scalar, a surrogate left alone is U+FFFD *)
Definition esc_value (e : esc) : N :=
  match e with
  | EQuote => 34 | EBslash => 92 | ESlash => 47 | Eb => 8 | Ef => 12 | En => 10 | Er => 13 | Et => 9
  | Eu a b c d => match hex4 a b c d with Some u => u | None => 65533 end
  end%N.
Fixpoint toks_from (pending : option N) (ts : list tok) : str :=
  match ts with
  | [] => flush pending
  | TChar c :: r => flush pending ++ c :: toks_from None r
  | TEsc e :: r => unit_out pending (esc_value e) ++ toks_from (unit_pending (esc_value e)) r
  end.
Definition toks_value (ts : list tok) : str := toks_from None ts.

(* tokenizer (the `char*` rule) *)
Definition simple_tok (e : N) : option esc :=
  if N.eqb e 34 then Some EQuote else if N.eqb e 92 then Some EBslash else if N.eqb e 47 then Some ESlash
  else if N.eqb e 98 then Some Eb else if N.eqb e 102 then Some Ef else if N.eqb e 110 then Some En
  else if N.eqb e 114 then Some Er else if N.eqb e 116 then Some Et else None.
Fixpoint lex_lit (l : str) : option (list tok) :=
  match l with
  | [] => Some []
  | c :: t =>
      if N.eqb c 92 then
        match t with
        | [] => None
        | e :: r =>
            if N.eqb e 117 then
              match r with
              | a :: b :: c' :: d :: r1 =>
                  if is_hex a && is_hex b && is_hex c' && is_hex d then option_map (cons (TEsc (Eu a b c' d))) (lex_lit r1) else None
              | _ => None
              end
            else match simple_tok e with
                 | Some k => option_map (cons (TEsc k)) (lex_lit r)
                 | None => None
                 end
        end
      else if N.eqb c 34 then None
      else option_map (cons (TChar c)) (lex_lit t)
  end.
