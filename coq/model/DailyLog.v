(* DailyLog.v — executable model of the daily log of discret (src/database/daily_log.rs) and of the
   table effects + marks of every write that reaches the writer thread.  No proofs here.

   Hashes are FREE TERMS (an injective, collision-free idealisation of BLAKE3):
     HD sigs      = blake3(sig_1 ++ ... ++ sig_n)           (daily hash, signatures in byte order)
     HC prev d    = blake3(prev_history ++ [previous daily])  (history chain)
   Signatures, ids, rooms, entities are indices (N); the harness numbers signatures, rooms and
   entities by the byte order of the real values, so `N.leb` is the order SQLite sorts them in. *)
From DV Require Export Base.
Open Scope Z_scope.

Inductive hterm := HD (sigs : list N) | HC (prev : hterm) (daily : option hterm).

Definition lkey := (N * N * Z)%type.          (* (room, entity, day) *)
Definition key_eqb (a b : lkey) : bool :=
  let '(r1, e1, d1) := a in let '(r2, e2, d2) := b in N.eqb r1 r2 && N.eqb e1 e2 && Z.eqb d1 d2.
Definition key_ltb (a b : lkey) : bool :=
  let '(r1, e1, d1) := a in let '(r2, e2, d2) := b in
  N.ltb r1 r2 || (N.eqb r1 r2 && (N.ltb e1 e2 || (N.eqb e1 e2 && Z.ltb d1 d2))).

(* ---- tables ---- *)
Record nrow := { n_id : N; n_room : option N; n_ent : N; n_mdate : Z; n_sig : N }.
Record ndel := { nd_room : N; nd_id : N; nd_ent : N; nd_mdate : Z; nd_date : Z; nd_sig : N }.
Record erow := { e_src : N; e_ent : N; e_label : N; e_dest : N; e_cdate : Z }.
Record edel := { ed_room : N; ed_edge : erow; ed_date : Z; ed_sig : N }.
Record lrow := { l_room : N; l_ent : N; l_day : Z; l_n : N;
                 l_daily : option hterm; l_hist : option hterm; l_dirty : bool }.
Record state := { nodes : list nrow; ndels : list ndel; edels : list edel; edges : list erow;
                  log : list lrow; now : Z }.

Definition init (t : Z) : state :=
  {| nodes := []; ndels := []; edels := []; edges := []; log := []; now := t |}.

Definition lrow_key (l : lrow) : lkey := (l_room l, l_ent l, l_day l).
Definition node_key (n : nrow) : option lkey :=
  match n_room n with Some r => Some (r, n_ent n, day (n_mdate n)) | None => None end.
Definition ndel_key (d : ndel) : lkey := (nd_room d, nd_ent d, day (nd_date d)).
Definition edel_key (d : edel) : lkey := (ed_room d, e_ent (ed_edge d), day (ed_date d)).
Definition okey_is (ok : option lkey) (k : lkey) : bool :=
  match ok with Some k' => key_eqb k' k | None => false end.

(* the rows the recompute query of DailyLogsUpdate::compute unions for (room, entity, day) *)
Definition sigs (s : state) (k : lkey) : list N :=
  map nd_sig (filter (fun d => key_eqb (ndel_key d) k) (ndels s)) ++
  map ed_sig (filter (fun d => key_eqb (edel_key d) k) (edels s)) ++
  map n_sig (filter (fun n => okey_is (node_key n) k) (nodes s)).

Fixpoint ninsert (x : N) (l : list N) : list N :=
  match l with [] => [x] | h :: t => if N.leb x h then x :: h :: t else h :: ninsert x t end.
Fixpoint isort (l : list N) : list N := match l with [] => [] | x :: t => ninsert x (isort t) end.

(* ORDER BY signature *)
Definition content (s : state) (k : lkey) : list N := isort (sigs s k).
Definition daily_of (c : list N) : option hterm := match c with [] => None | _ => Some (HD c) end.
Definition recount (s : state) (k : lkey) : N * option hterm :=
  let c := content s k in (N.of_nat (length c), daily_of c).

(* ---- DailyMutations::write : upsert (.., 0, NULL, NULL, 1) ON CONFLICT SET daily_hash = NULL, need_recompute = 1 ---- *)
Definition new_row (k : lkey) : lrow :=
  let '(r, e, d) := k in
  {| l_room := r; l_ent := e; l_day := d; l_n := 0%N; l_daily := None; l_hist := None; l_dirty := true |}.
Definition mark_row (l : lrow) : lrow :=
  {| l_room := l_room l; l_ent := l_ent l; l_day := l_day l; l_n := l_n l;
     l_daily := None; l_hist := l_hist l; l_dirty := true |}.
Fixpoint insert_sorted (r : lrow) (lg : list lrow) : list lrow :=
  match lg with
  | [] => [r]
  | l :: t => if key_ltb (lrow_key r) (lrow_key l) then r :: l :: t else l :: insert_sorted r t
  end.
Definition has_key (k : lkey) (lg : list lrow) : bool := existsb (fun l => key_eqb (lrow_key l) k) lg.
Definition upsert (k : lkey) (lg : list lrow) : list lrow :=
  if has_key k lg then map (fun l => if key_eqb (lrow_key l) k then mark_row l else l) lg
  else insert_sorted (new_row k) lg.
Definition write_marks (ks : list lkey) (lg : list lrow) : list lrow :=
  fold_left (fun lg k => upsert k lg) ks lg.

(* ---- DailyLogsUpdate::compute ---- *)
Definition same_group (l : lrow) (r e : N) : bool := N.eqb (l_room l) r && N.eqb (l_ent l) e.
Definition omin (a : option Z) (b : Z) : option Z :=
  match a with None => Some b | Some x => Some (Z.min x b) end.
Definition omax (a : option Z) (b : Z) : option Z :=
  match a with None => Some b | Some x => Some (Z.max x b) end.
(* SELECT min(date) .. WHERE same room, same entity AND need_recompute = 1 *)
Definition min_dirty (lg : list lrow) (r e : N) : option Z :=
  fold_left (fun a l => if same_group l r e && l_dirty l then omin a (l_day l) else a) lg None.
(* SELECT max(date) .. WHERE same room, same entity AND date < m *)
Definition max_before (lg : list lrow) (r e : N) (m : Z) : option Z :=
  fold_left (fun a l => if same_group l r e && (l_day l <? m) then omax a (l_day l) else a) lg None.
(* date >= IFNULL(max_before(min_dirty), min_dirty); NULL comparison selects nothing *)
Definition selected (lg : list lrow) (l : lrow) : bool :=
  match min_dirty lg (l_room l) (l_ent l) with
  | None => false
  | Some m => match max_before lg (l_room l) (l_ent l) m with
              | Some p => p <=? l_day l
              | None => m <=? l_day l
              end
  end.

(* previous_room / previous_entity / previous_hash / previous_history; None = the initial
   [0;16] / "-" sentinels, which no real room / entity equals *)
Record cstate := { c_room : option N; c_ent : option N; c_hash : option hterm; c_hist : option hterm }.
Definition cinit : cstate := {| c_room := None; c_ent := None; c_hash := None; c_hist := None |}.
Definition opt_is (o : option N) (x : N) : bool := match o with Some y => N.eqb y x | None => false end.

Definition set_hist (l : lrow) (h : option hterm) : lrow :=
  {| l_room := l_room l; l_ent := l_ent l; l_day := l_day l; l_n := l_n l;
     l_daily := l_daily l; l_hist := h; l_dirty := l_dirty l |}.

(* the `if !need_recompute` branch *)
Definition process_clean (c : cstate) (l : lrow) : lrow * cstate :=
  if opt_is (c_room c) (l_room l) && opt_is (c_ent c) (l_ent l) then
    match c_hist c with
    | Some p => let h := HC p (c_hash c) in
                (set_hist l (Some h),
                 {| c_room := Some (l_room l); c_ent := Some (l_ent l); c_hash := l_daily l; c_hist := Some h |})
    | None => (l, {| c_room := Some (l_room l); c_ent := Some (l_ent l); c_hash := l_daily l; c_hist := l_hist l |})
    end
  else (l, {| c_room := Some (l_room l); c_ent := Some (l_ent l); c_hash := None; c_hist := None |}).

(* the `else` branch: recount, daily hash, history hash, update, report *)
Definition process_dirty (s : state) (c : cstate) (l : lrow) : lrow * cstate :=
  let cnt := content s (lrow_key l) in
  let daily := daily_of cnt in
  let hist := if opt_is (c_room c) (l_room l)
              then match c_hist c with Some p => Some (HC p (c_hash c)) | None => None end
              else daily in
  ({| l_room := l_room l; l_ent := l_ent l; l_day := l_day l; l_n := N.of_nat (length cnt);
      l_daily := daily; l_hist := hist; l_dirty := false |},
   {| c_room := Some (l_room l); c_ent := Some (l_ent l); c_hash := daily; c_hist := hist |}).

(* the cursor walks the rows in (room, entity, date) order; the row filter is evaluated when the
   cursor reaches the row, on the table as the loop's UPDATEs have left it (same connection) *)
Fixpoint cloop (s : state) (pre todo : list lrow) (c : cstate) (rep : list lkey) : list lrow * list lkey :=
  match todo with
  | [] => (pre, rep)
  | l :: t =>
      if selected (pre ++ todo) l then
        if l_dirty l then
          let '(l1, c1) := process_dirty s c l in
          (* SQLite artefact, observed on the real engine: the UPDATE rewrites the row under the read
             cursor (delete + insert in the WITHOUT ROWID b-tree); the cursor re-seeks with the
             primary key AND the next column (entry_number); when entry_number grew, the rewritten
             row sorts after the saved position and is yielded once more. If the row filter still
             holds (it is now the clean predecessor of a later dirty day) it goes through the
             `!need_recompute` branch with itself as the previous row *)
          if N.ltb (l_n l) (l_n l1) && selected (pre ++ l1 :: t) l1 then
            let '(l2, c2) := process_clean c1 l1 in cloop s (pre ++ [l2]) t c2 (rep ++ [lrow_key l])
          else cloop s (pre ++ [l1]) t c1 (rep ++ [lrow_key l])
        else
          let '(l', c') := process_clean c l in cloop s (pre ++ [l']) t c' rep
      else cloop s (pre ++ [l]) t c rep
  end.

Definition set_log (s : state) (lg : list lrow) : state :=
  {| nodes := nodes s; ndels := ndels s; edels := edels s; edges := edges s; log := lg; now := now s |}.
(* result: new state, reported keys (DailyLogsUpdate.room_dates -> DataModification) *)
Definition compute_v1 (s : state) : state * list lkey :=
  let '(lg, rep) := cloop s [] (log s) cinit [] in (set_log s lg, rep).

(* ---- DailyLogsUpdate::compute as repaired by requests/C09-fix-6.diff (NOT applied to /repo yet) ----
   the history of a room is chained over its days, and over the entities inside a day (the order
   of get_room_log); the rows of every room that has a dirty day are read — before any update — from
   the day before its first dirty day to its last day; a dirty day that stores nothing loses its
   row; rows before the first dirty day keep their history, every row after it is chained again *)
Definition same_room (l : lrow) (r : N) : bool := N.eqb (l_room l) r.
Definition min_dirty_room (lg : list lrow) (r : N) : option Z :=
  fold_left (fun a l => if same_room l r && l_dirty l then omin a (l_day l) else a) lg None.
Definition max_before_room (lg : list lrow) (r : N) (m : Z) : option Z :=
  fold_left (fun a l => if same_room l r && (l_day l <? m) then omax a (l_day l) else a) lg None.
Definition selected2 (lg : list lrow) (l : lrow) : bool :=
  match min_dirty_room lg (l_room l) with
  | None => false
  | Some m => match max_before_room lg (l_room l) m with
              | Some p => p <=? l_day l
              | None => m <=? l_day l
              end
  end.
(* ORDER BY room_id, date, entity *)
Definition chain_ltb (a b : lrow) : bool :=
  N.ltb (l_room a) (l_room b) || (N.eqb (l_room a) (l_room b) &&
  (Z.ltb (l_day a) (l_day b) || (Z.eqb (l_day a) (l_day b) && N.ltb (l_ent a) (l_ent b)))).
Fixpoint chain_insert (r : lrow) (lg : list lrow) : list lrow :=
  match lg with
  | [] => [r]
  | l :: t => if chain_ltb r l then r :: l :: t else l :: chain_insert r t
  end.
Definition chain_sort (lg : list lrow) : list lrow := fold_left (fun acc r => chain_insert r acc) lg [].
Definition key_sort (lg : list lrow) : list lrow := fold_left (fun acc r => insert_sorted r acc) lg [].
Fixpoint kinsert_k (k : lkey) (l : list lkey) : list lkey :=
  match l with [] => [k] | h :: t => if key_ltb k h then k :: l else h :: kinsert_k k t end.
Definition ksort_k (l : list lkey) : list lkey := fold_left (fun acc k => kinsert_k k acc) l [].

Record c2state := { c2_room : option N; c2_mod : bool; c2_prev : option (option hterm * option hterm) }.
Definition c2init : c2state := {| c2_room := None; c2_mod := false; c2_prev := None |}.
Definition chain2 (prev : option (option hterm * option hterm)) (daily : option hterm) : option hterm :=
  match prev with
  | Some (Some ph, pd) => Some (HC ph pd)
  | Some (None, _) => None
  | None => daily
  end.
Definition c2enter (c : c2state) (l : lrow) : c2state :=
  let c1 := if opt_is (c2_room c) (l_room l) then c else {| c2_room := Some (l_room l); c2_mod := false; c2_prev := None |} in
  if l_dirty l then {| c2_room := c2_room c1; c2_mod := true; c2_prev := c2_prev c1 |} else c1.
Definition c2next (c : c2state) (hist daily : option hterm) : c2state :=
  {| c2_room := c2_room c; c2_mod := c2_mod c; c2_prev := Some (hist, daily) |}.
Fixpoint loop2 (s : state) (c : c2state) (rows : list lrow) : list lrow * list lkey :=
  match rows with
  | [] => ([], [])
  | l :: t =>
      let c1 := c2enter c l in
      if l_dirty l then
        let cnt := content s (lrow_key l) in
        match cnt with
        | [] => let '(rs, rep) := loop2 s c1 t in (rs, lrow_key l :: rep)
        | _ => let daily := Some (HD cnt) in
               let hist := chain2 (c2_prev c1) daily in
               let l' := {| l_room := l_room l; l_ent := l_ent l; l_day := l_day l; l_n := N.of_nat (length cnt);
                            l_daily := daily; l_hist := hist; l_dirty := false |} in
               let '(rs, rep) := loop2 s (c2next c1 hist daily) t in (l' :: rs, lrow_key l :: rep)
        end
      else
        let hist := if c2_mod c1 then chain2 (c2_prev c1) (l_daily l) else l_hist l in
        let '(rs, rep) := loop2 s (c2next c1 hist (l_daily l)) t in (set_hist l hist :: rs, rep)
  end.
Definition compute_v2 (s : state) : state * list lkey :=
  let sel := filter (selected2 (log s)) (log s) in
  let rest := filter (fun l => negb (selected2 (log s) l)) (log s) in
  let '(rs, rep) := loop2 s c2init (chain_sort sel) in
  (set_log s (key_sort (rest ++ rs)), ksort_k rep).

(* THE SWITCH: compute_v1 = /repo as it is; compute_v2 = /repo with requests/C09-fix-6.diff *)
Definition compute := compute_v1.

(* ---- the writes ---- *)
Record snode := { sn_id : N; sn_ent : N; sn_mdate : Z; sn_sig : N }.

Inductive op :=
| Tick (t : Z)                                           (* the clock moves to t *)
| LCreate (id : N) (room : option N) (ent : N) (sig : N)  (* mutate { E { room_id? name } } *)
| LUpdate (id ent : N) (room : option N) (sig : N)        (* mutate { E { id room_id? name } } *)
| LAddRef (src ent dest : N) (sig : N)                    (* mutate { E { id:src parents:[{id:dest}] } } *)
| LDelNode (id ent : N) (tsig : N)                        (* delete { E { $id } } *)
| LDelRef (src ent dest : N) (sig esig : N)               (* delete { E { $src parents[$dest] } } *)
| SNodes (room : N) (ns : list snode)                     (* filter_existing_node + add_nodes *)
| SDelNodes (ts : list ndel)                              (* delete_nodes (tombstones from a peer) *)
| SDelEdges (ts : list edel).                             (* delete_edges *)

Definition the_label : N := 1%N.

Definition set_tables (s : state) (ns : list nrow) (nd : list ndel) (ed : list edel) (eg : list erow) : state :=
  {| nodes := ns; ndels := nd; edels := ed; edges := eg; log := log s; now := now s |}.
Definition set_now (s : state) (t : Z) : state :=
  {| nodes := nodes s; ndels := ndels s; edels := edels s; edges := edges s; log := log s; now := t |}.

Definition find_node (s : state) (id ent : N) : option nrow :=
  find (fun n => N.eqb (n_id n) id && N.eqb (n_ent n) ent) (nodes s).
Definition find_node_id (s : state) (id : N) : option nrow :=
  find (fun n => N.eqb (n_id n) id) (nodes s).
Fixpoint replace_first {A} (p : A -> bool) (x : A) (l : list A) : list A :=
  match l with [] => [] | h :: t => if p h then x :: t else h :: replace_first p x t end.
Definition edge_is (src label dest : N) (e : erow) : bool :=
  N.eqb (e_src e) src && N.eqb (e_label e) label && N.eqb (e_dest e) dest.
Definition erow_eqb (a b : erow) : bool :=
  N.eqb (e_src a) (e_src b) && N.eqb (e_ent a) (e_ent b) && N.eqb (e_label a) (e_label b) &&
  N.eqb (e_dest a) (e_dest b) && Z.eqb (e_cdate a) (e_cdate b).
(* INSERT OR REPLACE, PRIMARY KEY(room_id, deletion_date, id, entity) *)
Definition put_ndel (t : ndel) (l : list ndel) : list ndel :=
  filter (fun d => negb (N.eqb (nd_room d) (nd_room t) && Z.eqb (nd_date d) (nd_date t) &&
                         N.eqb (nd_id d) (nd_id t) && N.eqb (nd_ent d) (nd_ent t))) l ++ [t].
(* INSERT OR REPLACE, PRIMARY KEY(room_id, deletion_date, src, label, dest) — no source entity *)
Definition edel_pk (t d : edel) : bool :=
  N.eqb (ed_room d) (ed_room t) && Z.eqb (ed_date d) (ed_date t) &&
  N.eqb (e_src (ed_edge d)) (e_src (ed_edge t)) &&
  N.eqb (e_label (ed_edge d)) (e_label (ed_edge t)) &&
  N.eqb (e_dest (ed_edge d)) (e_dest (ed_edge t)).
Definition put_edel (t : edel) (l : list edel) : list edel :=
  filter (fun d => negb (edel_pk t d)) l ++ [t].
Definition room_mark (r : option N) (e : N) (d : Z) : list lkey :=
  match r with Some x => [(x, e, day d)] | None => [] end.

(* SELECT id, max(mdate) FROM _node_deletion_log WHERE id in (..) GROUP BY id  (any room, any entity) *)
Definition max_tombstone (s : state) (id : N) : option Z :=
  fold_left (fun a d => if N.eqb (nd_id d) id then omax a (nd_mdate d) else a) (ndels s) None.

(* one NodeToInsert: Node::filter_existing (a version that a stored deletion record covers is not
   requested; an older or equal stored version wins), Node::write, NodeToInsert::update_daily_logs
   (the day of the previous version is always marked, under the entity it is stored with: 9b19d99) *)
Definition ingest1 (room : N) (acc : state * list lkey) (sn : snode) : state * list lkey :=
  let '(s, ms) := acc in
  let n' := {| n_id := sn_id sn; n_room := Some room; n_ent := sn_ent sn; n_mdate := sn_mdate sn; n_sig := sn_sig sn |} in
  if match max_tombstone s (sn_id sn) with Some m => sn_mdate sn <=? m | None => false end then (s, ms) else
  match find_node_id s (sn_id sn) with
  | Some old =>
      if (sn_mdate sn <? n_mdate old) || ((sn_mdate sn =? n_mdate old) && N.leb (sn_sig sn) (n_sig old))
      then (s, ms)
      else (set_tables s (replace_first (fun n => N.eqb (n_id n) (sn_id sn)) n' (nodes s)) (ndels s) (edels s) (edges s),
            ms ++ room_mark (n_room old) (n_ent old) (n_mdate old) ++ [(room, sn_ent sn, day (sn_mdate sn))])
  | None => (set_tables s (nodes s ++ [n']) (ndels s) (edels s) (edges s),
             ms ++ [(room, sn_ent sn, day (sn_mdate sn))])
  end.

(* NodeDeletionEntry::with_previous_authors drops an entry that names another entity than a stored
   node of that id; NodeDeletionEntry::delete_all removes the version it names or an older one,
   marks the day of every version it removes, the deletion day and the named day *)
Definition sdel_node1 (acc : state * list lkey) (t : ndel) : state * list lkey :=
  let '(s, ms) := acc in
  if existsb (fun n => N.eqb (n_id n) (nd_id t) && negb (N.eqb (n_ent n) (nd_ent t))) (nodes s) then (s, ms) else
  let hit := fun n => opt_is (n_room n) (nd_room t) && N.eqb (n_id n) (nd_id t) && (n_mdate n <=? nd_mdate t) in
  (set_tables s (filter (fun n => negb (hit n)) (nodes s)) (put_ndel t (ndels s)) (edels s) (edges s),
   ms ++ map (fun n => (nd_room t, n_ent n, day (n_mdate n))) (filter hit (nodes s))
      ++ [(nd_room t, nd_ent t, day (nd_date t)); (nd_room t, nd_ent t, day (nd_mdate t))]).
(* EdgeDeletionEntry::delete_all: the day of an entry that is replaced (possibly recorded under
   another source entity: de0967d) and the day of the new entry are marked *)
Definition sdel_edge1 (acc : state * list lkey) (t : edel) : state * list lkey :=
  let '(s, ms) := acc in
  (set_tables s (nodes s) (ndels s) (put_edel t (edels s))
              (filter (fun e => negb (erow_eqb e (ed_edge t))) (edges s)),
   ms ++ map edel_key (filter (edel_pk t) (edels s)) ++ [(ed_room t, e_ent (ed_edge t), day (ed_date t))]).

(* table effects of one write message and the keys it passes to set_need_update *)
Definition exec_op (o : op) (s : state) : state * list lkey :=
  match o with
  | Tick t => (set_now s t, [])
  | LCreate id room ent sig =>
      (* InsertEntity::update_daily_logs: node Some, old_node None *)
      (set_tables s (nodes s ++ [{| n_id := id; n_room := room; n_ent := ent; n_mdate := now s; n_sig := sig |}])
                  (ndels s) (edels s) (edges s),
       room_mark room ent (now s))
  | LUpdate id ent room sig =>
      match find_node s id ent with
      | None => (s, [])                                  (* Error::UnknownEntity *)
      | Some old =>
          let nroom := match room with Some r => Some r | None => n_room old end in
          let n' := {| n_id := id; n_room := nroom; n_ent := ent; n_mdate := now s; n_sig := sig |} in
          (set_tables s (replace_first (fun n => N.eqb (n_id n) id && N.eqb (n_ent n) ent) n' (nodes s))
                      (ndels s) (edels s) (edges s),
           match nroom with
           | Some r => (r, ent, day (now s)) :: room_mark (n_room old) ent (n_mdate old)
           | None => [] end)
      end
  | LAddRef src ent dest sig =>
      match find_node s src ent, find_node s dest ent with
      | Some p, Some d =>
          (* the sub entity is a plain reference: node None, old_node Some -> its own day is marked *)
          let subm := room_mark (n_room d) ent (n_mdate d) in
          if existsb (edge_is src the_label dest) (edges s) then
            (s, subm ++ room_mark (n_room p) ent (n_mdate p))    (* nothing to write; old day still marked *)
          else
            let p' := {| n_id := src; n_room := n_room p; n_ent := ent; n_mdate := now s; n_sig := sig |} in
            (set_tables s (replace_first (fun n => N.eqb (n_id n) src && N.eqb (n_ent n) ent) p' (nodes s))
                        (ndels s) (edels s)
                        (edges s ++ [{| e_src := src; e_ent := ent; e_label := the_label; e_dest := dest; e_cdate := now s |}]),
             subm ++ match n_room p with
                     | Some r => [(r, ent, day (now s)); (r, ent, day (n_mdate p))]
                     | None => [] end)
      | _, _ => (s, [])
      end
  | LDelNode id ent tsig =>
      match find_node s id ent with
      | None => (s, [])
      | Some n =>
          let nodes' := filter (fun x => negb (N.eqb (n_id x) id)) (nodes s) in
          let edges' := filter (fun e => negb (N.eqb (e_src e) id) && negb (N.eqb (e_dest e) id)) (edges s) in
          match n_room n with
          | Some r =>
              let t := {| nd_room := r; nd_id := id; nd_ent := ent; nd_mdate := n_mdate n; nd_date := now s; nd_sig := tsig |} in
              (set_tables s nodes' (put_ndel t (ndels s)) (edels s) edges',
               [(r, ent, day (n_mdate n)); (r, ent, day (now s))])
          | None => (set_tables s nodes' (ndels s) (edels s) edges', [])
          end
      end
  | LDelRef src ent dest sig esig =>
      match find_node s src ent with
      | None => (s, [])
      | Some n =>
          (* updated_nodes: the source row is re-dated and re-signed whether or not the edge exists *)
          let n' := {| n_id := src; n_room := n_room n; n_ent := ent; n_mdate := now s; n_sig := sig |} in
          let nodes' := replace_first (fun x => N.eqb (n_id x) src && N.eqb (n_ent x) ent) n' (nodes s) in
          (* updated_nodes_previous + updated_nodes: the day the source row leaves and the day it enters *)
          let upd_marks := room_mark (n_room n) (n_ent n) (n_mdate n) ++ room_mark (n_room n) ent (now s) in
          match find (edge_is src the_label dest) (edges s) with
          | Some e =>
              let edges' := filter (fun x => negb (edge_is src the_label dest x)) (edges s) in
              match n_room n with
              | Some r =>
                  let t := {| ed_room := r; ed_edge := e; ed_date := now s; ed_sig := esig |} in
                  (set_tables s nodes' (ndels s) (put_edel t (edels s)) edges', (r, e_ent e, day (now s)) :: upd_marks)
              | None => (set_tables s nodes' (ndels s) (edels s) edges', upd_marks)
              end
          | None => (set_tables s nodes' (ndels s) (edels s) (edges s), upd_marks)
          end
      end
  | SNodes room ns => fold_left (ingest1 room) ns (s, [])
  | SDelNodes ts => fold_left sdel_node1 ts (s, [])
  | SDelEdges ts => fold_left sdel_edge1 ts (s, [])
  end.

(* ---- the writer: messages are processed in batches (one transaction each); the marks of a
   batch are written at its end (process_batch_write), so a recompute inside the batch does not
   see them ---- *)
Inductive msg := MOp (o : op) | MCompute.

(* state, pending marks of the batch, events (one list of reported keys per recompute) *)
Definition exec_msg (acc : state * list lkey * list (list lkey)) (m : msg) : state * list lkey * list (list lkey) :=
  let '(s, pend, evs) := acc in
  match m with
  | MOp o => let '(s', ms) := exec_op o s in (s', pend ++ ms, evs)
  | MCompute => let '(s', rep) := compute s in (s', pend, evs ++ [rep])
  end.
Definition exec_batch (acc : state * list (list lkey)) (b : list msg) : state * list (list lkey) :=
  let '(s, evs) := acc in
  let '(s', pend, evs') := fold_left exec_msg b (s, [], evs) in
  (set_log s' (write_marks pend (log s')), evs').
Definition exec_batches (s : state) (bs : list (list msg)) : state * list (list lkey) :=
  fold_left exec_batch bs (s, []).

(* ---- coverage: does a write mark every key whose content it changes? (decidable) ---- *)
Definition all_keys (s : state) : list lkey :=
  map ndel_key (ndels s) ++ map edel_key (edels s) ++
  flat_map (fun n => match node_key n with Some k => [k] | None => [] end) (nodes s).
Definition nlist_eqb := list_eqb N.eqb.
Definition key_mem (k : lkey) (ks : list lkey) : bool := existsb (key_eqb k) ks.
Definition uncovered (pre post : state) (marks : list lkey) : list lkey :=
  filter (fun k => negb (nlist_eqb (content pre k) (content post k)) && negb (key_mem k marks))
         (all_keys pre ++ all_keys post).
