(* Blake3.v — executable BLAKE3 (hash mode, any input length) in Gallina.
   Used ONLY to make the correspondence direct: the harness observes the 32-byte digest the real
   code signs, the model computes blake3 (enc layout row); no theorem depends on this file (the
   theorems idealise the hash as a Section variable).  If this transcription of the BLAKE3
   specification were wrong, the correspondence run would fail on the first case.  No proofs. *)
From DV Require Export Base.
From Coq Require Export Strings.Byte.
Local Open Scope N_scope.

Definition nb (n : N) : byte := match Byte.of_N n with Some b => b | None => x00 end.
Definition bn (b : byte) : N := Byte.to_N b.

Definition w32 (x : N) : N := N.land x 4294967295.
Definition add32 (a b : N) : N := w32 (a + b).
Definition rotr (x n : N) : N := N.lor (N.shiftr x n) (w32 (N.shiftl x (32 - n))).

Definition G (a b c d mx my : N) : N * N * N * N :=
  let a := add32 (add32 a b) mx in
  let d := rotr (N.lxor d a) 16 in
  let c := add32 c d in
  let b := rotr (N.lxor b c) 12 in
  let a := add32 (add32 a b) my in
  let d := rotr (N.lxor d a) 8 in
  let c := add32 c d in
  let b := rotr (N.lxor b c) 7 in
  (a, b, c, d).

Fixpoint upd (i : nat) (v : N) (s : list N) : list N :=
  match s, i with
  | [], _ => []
  | _ :: t, O => v :: t
  | x :: t, S k => x :: upd k v t
  end.
Definition at_ (s : list N) (i : nat) : N := nth i s 0.

Definition g_at (s : list N) (ia ib ic id : nat) (mx my : N) : list N :=
  let '(a, b, c, d) := G (at_ s ia) (at_ s ib) (at_ s ic) (at_ s id) mx my in
  upd id d (upd ic c (upd ib b (upd ia a s))).

Definition round (s m : list N) : list N :=
  let s := g_at s 0 4 8 12 (at_ m 0) (at_ m 1) in
  let s := g_at s 1 5 9 13 (at_ m 2) (at_ m 3) in
  let s := g_at s 2 6 10 14 (at_ m 4) (at_ m 5) in
  let s := g_at s 3 7 11 15 (at_ m 6) (at_ m 7) in
  let s := g_at s 0 5 10 15 (at_ m 8) (at_ m 9) in
  let s := g_at s 1 6 11 12 (at_ m 10) (at_ m 11) in
  let s := g_at s 2 7 8 13 (at_ m 12) (at_ m 13) in
  g_at s 3 4 9 14 (at_ m 14) (at_ m 15).

Definition permute (m : list N) : list N :=
  map (at_ m) [2; 6; 3; 10; 7; 0; 4; 13; 1; 11; 12; 5; 9; 14; 15; 8]%nat.

Fixpoint rounds (n : nat) (s m : list N) : list N :=
  match n with
  | O => s
  | S k => rounds k (round s m) (permute m)
  end.

Definition IV : list N :=
  [1779033703; 3144134277; 1013904242; 2773480762; 1359893119; 2600822924; 528734635; 1541459225].

Definition CHUNK_START : N := 1.
Definition CHUNK_END : N := 2.
Definition PARENT : N := 4.
Definition ROOT : N := 8.

(* returns the first 8 output words (chaining value / root output) *)
Definition compress (cv block : list N) (counter block_len flags : N) : list N :=
  let s0 := cv ++ firstn 4 IV ++ [w32 counter; w32 (N.shiftr counter 32); block_len; flags] in
  let s := rounds 7 s0 block in
  map (fun i => N.lxor (at_ s i) (at_ s (i + 8))) [0; 1; 2; 3; 4; 5; 6; 7]%nat.

Fixpoint words_le (k : nat) (l : list byte) : list N :=
  match k with
  | O => []
  | S k' =>
      let b i := match nth_error l i with Some x => bn x | None => 0 end in
      (b 0%nat + 256 * b 1%nat + 65536 * b 2%nat + 16777216 * b 3%nat) :: words_le k' (skipn 4 l)
  end.

(* blocks of one chunk: cv so far, remaining bytes, index of the block; fuel = number of blocks *)
Fixpoint chunk_blocks (fuel : nat) (cv : list N) (l : list byte) (first : bool) (counter : N) (root : bool) : list N :=
  match fuel with
  | O => cv
  | S k =>
      let last := Nat.leb (length l) 64 in
      let blk := firstn 64 l in
      let flags := (if first then CHUNK_START else 0) + (if last then CHUNK_END + (if root then ROOT else 0) else 0) in
      let cv' := compress cv (words_le 16 blk) counter (N.of_nat (length blk)) flags in
      if last then cv' else chunk_blocks k cv' (skipn 64 l) false counter root
  end.
Definition chunk_cv (l : list byte) (counter : N) (root : bool) : list N :=
  chunk_blocks 17 IV l true counter root.

(* largest power of two (in chunks) strictly below the number of chunks of an input of n > 1024 bytes *)
Fixpoint left_chunks (fuel : nat) (p n : nat) : nat :=
  match fuel with
  | O => p
  | S k => if Nat.ltb (2 * p * 1024) n then left_chunks k (2 * p) n else p
  end.

Fixpoint subtree (fuel : nat) (l : list byte) (counter : N) (root : bool) : list N :=
  match fuel with
  | O => []
  | S k =>
      if Nat.leb (length l) 1024 then chunk_cv l counter root
      else
        let lc := left_chunks 64 1 (length l) in
        let lcv := subtree k (firstn (lc * 1024) l) counter false in
        let rcv := subtree k (skipn (lc * 1024) l) (counter + N.of_nat lc) false in
        compress IV (lcv ++ rcv) 0 64 (PARENT + (if root then ROOT else 0))
  end.

Definition word_bytes (w : N) : list byte :=
  [nb (w mod 256); nb ((w / 256) mod 256); nb ((w / 65536) mod 256); nb ((w / 16777216) mod 256)].

Definition blake3 (l : list byte) : list byte :=
  flat_map word_bytes (subtree 64 l 0 true).
