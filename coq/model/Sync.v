(* Sync.v — replicated-state model of room synchronisation (C03, C11).  No proofs here.

   Mirrors, for ONE room and ONE entity of node rows (references are not modelled):
     local create / update      <- MutationQuery::execute + Node::write        (mutation_query.rs, node.rs)
     local delete               <- DeletionQuery::build / delete + NodeDeletionEntry::build
                                   (deletion.rs, authorisation_service.rs::validate_deletion)
     pull dst src days          <- LocalPeerService::synchronise_room -> synchronise_day  (peer_inbound_service.rs)
        tombstones of the day   <- NodeDeletionEntry::get_entries (served in primary-key order
                                   (deletion_date, id)), NodeDeletionEntry::with_previous_authors
                                   (a HashMap keyed by row id: of several tombstones of one row in one
                                   answer only the LAST survives), NodeDeletionEntry::delete_all
                                   (DELETE FROM _node WHERE room_id=? AND id=?  — whatever version is
                                   stored — then INSERT OR REPLACE of the tombstone)
        rows of the day         <- Node::get_daily_nodes_for_room (id, mdate, signature of the rows whose
                                   mdate lies in the day), Node::filter_existing (last writer wins on
                                   (mdate, signature); consults _node only: NO tombstone lookup),
                                   Node::filtered_by_room + NodeToInsert::write (update in place / insert)
   WHICH days a pull exchanges is decided by the daily-log comparison of synchronise_room_data /
   synchronise_history / synchronise_last_day; that comparison (hashes of _daily_log, history-hash
   shortcut) is the business of C09 and is NOT modelled here: the list of days is an argument of
   [Pull] (the harness reads it off the queries that cross the wire), and [needed_days] says which
   days a complete comparison has to select.
   Rights: every peer may write every row of the room at every date of the scenario, so ingestion
   validation (authorisation_service.rs::validate_node / validate_node_deletions) always accepts.
   Signatures are abstract: a row version carries the RANK of its signature in byte order (that is
   all filter_existing looks at); equal rank = same signed version. *)
From DV Require Export Base.

Record nrow := { n_id : uid; n_mdate : Z; n_sig : N }.
Record tomb := { t_id : uid; t_mdate : Z; t_ddate : Z }.   (* key in _node_deletion_log: (id, deletion date) *)
Record replica := { nodes : list nrow; tombs : list tomb }.
Definition empty_replica : replica := {| nodes := []; tombs := [] |}.

Definition row_eqb (a b : nrow) : bool :=
  N.eqb (n_id a) (n_id b) && Z.eqb (n_mdate a) (n_mdate b) && N.eqb (n_sig a) (n_sig b).
Definition tomb_eqb (a b : tomb) : bool :=
  N.eqb (t_id a) (t_id b) && Z.eqb (t_mdate a) (t_mdate b) && Z.eqb (t_ddate a) (t_ddate b).
Definition same_key (a b : tomb) : bool := N.eqb (t_id a) (t_id b) && Z.eqb (t_ddate a) (t_ddate b).

(* ---- the row store: at most one row per id ---- *)
Definition find_node (x : uid) (l : list nrow) : option nrow := find (fun n => N.eqb (n_id n) x) l.
Definition remove_node (x : uid) (l : list nrow) : list nrow := filter (fun n => negb (N.eqb (n_id n) x)) l.
Definition put_node (l : list nrow) (n : nrow) : list nrow := n :: remove_node (n_id n) l.
Definition tomb_put (l : list tomb) (t : tomb) : list tomb := t :: filter (fun u => negb (same_key u t)) l.

(* ---- Node::filter_existing: keep the offered version iff nothing is stored under that id or the
        stored one is older, or as old with a smaller signature ---- *)
Definition newer (o e : nrow) : bool :=
  (n_mdate e <? n_mdate o) || ((n_mdate e =? n_mdate o) && (n_sig e <? n_sig o)%N).
Definition wanted (stored : list nrow) (o : nrow) : bool :=
  match find_node (n_id o) stored with None => true | Some e => newer o e end.

(* the repair of C11 (requests/C11-fix-1.diff): also drop an offered version that is not newer than a
   stored tombstone of that row.  [fixed = false] is the code as it is. *)
Definition below_tomb (ts : list tomb) (o : nrow) : bool :=
  existsb (fun t => N.eqb (t_id t) (n_id o) && (n_mdate o <=? t_mdate t)) ts.

Definition on_day (d : Z) (l : list nrow) : list nrow := filter (fun n => Z.eqb (day (n_mdate n)) d) l.
Definition tombs_on_day (d : Z) (l : list tomb) : list tomb := filter (fun t => Z.eqb (day (t_ddate t)) d) l.

(* with_previous_authors: one answer is folded into a HashMap keyed by id, later entries overwrite
   earlier ones; entries arrive ordered by (deletion_date, id): the greatest deletion date survives *)
Definition dedup_tombs (ts : list tomb) : list tomb :=
  filter (fun t => forallb (fun u => negb (N.eqb (t_id u) (t_id t)) || (t_ddate u <=? t_ddate t)) ts) ts.

Definition apply_tomb (r : replica) (t : tomb) : replica :=
  {| nodes := remove_node (t_id t) (nodes r); tombs := tomb_put (tombs r) t |}.

(* events of a run that the theorems and the known-finding classes talk about *)
Record events := { ev_resurrect : bool;     (* a pull stored a row at or below a tombstone the receiver holds *)
                   ev_othervers : bool;     (* a tombstone removed a stored version other than the one it names *)
                   ev_collapse : bool;      (* two tombstones of one row in one answer: one was dropped *)
                   ev_guard : bool }.       (* a local step outside the modelled envelope (see [step]) *)
Definition no_events : events := {| ev_resurrect := false; ev_othervers := false; ev_collapse := false; ev_guard := false |}.
Definition ev_or (a b : events) : events :=
  {| ev_resurrect := ev_resurrect a || ev_resurrect b; ev_othervers := ev_othervers a || ev_othervers b;
     ev_collapse := ev_collapse a || ev_collapse b; ev_guard := ev_guard a || ev_guard b |}.

(* synchronise_day for one (entity, day): returns the receiver, the number of rows requested
   (Query::Nodes) and the events *)
Definition sync_day (fixed : bool) (src : replica) (acc : replica * N * events) (d : Z) : replica * N * events :=
  let '(dst, cnt, ev) := acc in
  let offered_t := tombs_on_day d (tombs src) in
  let ts := dedup_tombs offered_t in
  let other := existsb (fun t => match find_node (t_id t) (nodes dst) with
                                 | Some e => negb (Z.eqb (n_mdate e) (t_mdate t)) | None => false end) ts in
  let dst1 := fold_left apply_tomb ts dst in
  let fetch := filter (fun o => wanted (nodes dst1) o && (negb fixed || negb (below_tomb (tombs dst1) o)))
                      (on_day d (nodes src)) in
  ({| nodes := fold_left put_node fetch (nodes dst1); tombs := tombs dst1 |},
   (cnt + N.of_nat (length fetch))%N,
   ev_or ev {| ev_resurrect := existsb (below_tomb (tombs dst1)) fetch; ev_othervers := other;
               ev_collapse := negb (Nat.eqb (length ts) (length offered_t)); ev_guard := false |}).

Definition pull_replica (fixed : bool) (dst src : replica) (days : list Z) : replica * N * events :=
  fold_left (sync_day fixed src) days (dst, 0%N, no_events).

(* ---- the system: peers 0 .. n-1 ---- *)
Definition sys := list replica.
Definition get (p : N) (S : sys) : replica := nth (N.to_nat p) S empty_replica.
Fixpoint set_nth (k : nat) (r : replica) (S : sys) : sys :=
  match k, S with
  | O, _ :: t => r :: t
  | S k', h :: t => h :: set_nth k' r t
  | _, [] => []
  end.
Definition set (p : N) (r : replica) (S : sys) : sys := set_nth (N.to_nat p) r S.
Definition init_sys (n : N) : sys := repeat empty_replica (N.to_nat n).

Inductive sop :=
| Create (p : N) (x : uid) (t : Z) (sg : N)      (* mutate { ns.Doc{ room_id .. } } at clock t; sg = signature rank *)
| Update (p : N) (x : uid) (t : Z) (sg : N)      (* mutate { ns.Doc{ id:x .. } } *)
| Delete (p : N) (x : uid) (t : Z)               (* delete { ns.Doc{ x } } *)
| Pull (dst src : N) (days : list Z).            (* dst synchronises the room from src; days = what the log comparison selected *)

Definition op_peer (o : sop) : N :=
  match o with Create p _ _ _ | Update p _ _ _ | Delete p _ _ => p | Pull d _ _ => d end.

Definition mentions (x : uid) (r : replica) : bool :=
  existsb (fun n => N.eqb (n_id n) x) (nodes r) || existsb (fun t => N.eqb (t_id t) x) (tombs r).

(* one step: new system, the flag the harness observes (1 = done / number of rows requested), events.
   ev_guard marks what the envelope of the theorems excludes: a Create that reuses an id the peer
   already knows, an Update whose clock is behind the stored version. *)
Definition step (fixed : bool) (S : sys) (o : sop) : sys * Z * events :=
  match o with
  | Create p x t sg =>
      let r := get p S in
      (set p {| nodes := put_node (nodes r) {| n_id := x; n_mdate := t; n_sig := sg |}; tombs := tombs r |} S, 1,
       {| ev_resurrect := false; ev_othervers := false; ev_collapse := false; ev_guard := mentions x r |})
  | Update p x t sg =>
      let r := get p S in
      match find_node x (nodes r) with
      | Some e => (set p {| nodes := put_node (nodes r) {| n_id := x; n_mdate := t; n_sig := sg |}; tombs := tombs r |} S, 1,
                   {| ev_resurrect := false; ev_othervers := false; ev_collapse := false; ev_guard := t <? n_mdate e |})
      | None => (S, 0, no_events)          (* UnknownEntity: nothing written *)
      end
  | Delete p x t =>
      let r := get p S in
      match find_node x (nodes r) with
      | Some e => (set p {| nodes := remove_node x (nodes r);
                            tombs := tomb_put (tombs r) {| t_id := x; t_mdate := n_mdate e; t_ddate := t |} |} S, 1, no_events)
      | None => (S, 0, no_events)          (* nothing selected: no tombstone *)
      end
  | Pull d s days =>
      let '(r, cnt, ev) := pull_replica fixed (get d S) (get s S) days in
      (set d r S, Z.of_N cnt, ev)
  end.

(* ---- what a complete log comparison has to select: the days of the source's row versions that
        filter_existing would let through, and of the source's tombstones the receiver lacks ---- *)
Definition has_row (l : list nrow) (n : nrow) : bool := existsb (row_eqb n) l.
Definition has_tomb (l : list tomb) (t : tomb) : bool := existsb (tomb_eqb t) l.
Definition needed_days (dst src : replica) : list Z :=
  map (fun n => day (n_mdate n)) (filter (wanted (nodes dst)) (nodes src)) ++
  map (fun t => day (t_ddate t)) (filter (fun t => negb (has_tomb (tombs dst) t)) (tombs src)).
Definition days_cover (days need : list Z) : bool := forallb (fun d => existsb (Z.eqb d) days) need.

(* ---- dumps: rows sorted by id, tombstones by (id, deletion date) ---- *)
Fixpoint ins_node (n : nrow) (l : list nrow) : list nrow :=
  match l with
  | [] => [n]
  | h :: t => if (n_id n <=? n_id h)%N then n :: l else h :: ins_node n t
  end.
Definition sort_nodes (l : list nrow) : list nrow := fold_right ins_node [] l.
Definition tomb_le (a b : tomb) : bool := (t_id a <? t_id b)%N || (N.eqb (t_id a) (t_id b) && (t_ddate a <=? t_ddate b)).
Fixpoint ins_tomb (n : tomb) (l : list tomb) : list tomb :=
  match l with
  | [] => [n]
  | h :: t => if tomb_le n h then n :: l else h :: ins_tomb n t
  end.
Definition sort_tombs (l : list tomb) : list tomb := fold_right ins_tomb [] l.

Definition enc_dump (r : replica) : list Z :=
  Z.of_nat (length (nodes r)) :: flat_map (fun n => [zn (n_id n); n_mdate n; zn (n_sig n)]) (sort_nodes (nodes r)) ++
  Z.of_nat (length (tombs r)) :: flat_map (fun t => [zn (t_id t); t_mdate t; t_ddate t]) (sort_tombs (tombs r)).

(* the run: observation = for every step [flag] ++ dump of the peer the step touched *)
Fixpoint run_obs (fixed : bool) (S : sys) (ops : list sop) : list Z :=
  match ops with
  | [] => []
  | o :: rest => let '(S', flag, _) := step fixed S o in
                 (flag :: enc_dump (get (op_peer o) S')) ++ run_obs fixed S' rest
  end.
Fixpoint run_sys (fixed : bool) (S : sys) (ops : list sop) : sys :=
  match ops with [] => S | o :: rest => run_sys fixed (fst (fst (step fixed S o))) rest end.
Fixpoint run_events (fixed : bool) (S : sys) (ops : list sop) : events :=
  match ops with
  | [] => no_events
  | o :: rest => let '(S', _, ev) := step fixed S o in ev_or ev (run_events fixed S' rest)
  end.
Fixpoint run_flags (fixed : bool) (S : sys) (ops : list sop) : list Z :=
  match ops with
  | [] => []
  | o :: rest => let '(S', flag, _) := step fixed S o in flag :: run_flags fixed S' rest
  end.
(* every pull of the run selected at least the days a complete comparison selects *)
Fixpoint run_complete (fixed : bool) (S : sys) (ops : list sop) : bool :=
  match ops with
  | [] => true
  | o :: rest =>
      (match o with Pull d s days => days_cover days (needed_days (get d S) (get s S)) | _ => true end)
      && run_complete fixed (fst (fst (step fixed S o))) rest
  end.
(* the systems after each step *)
Fixpoint run_trace (fixed : bool) (S : sys) (ops : list sop) : list sys :=
  match ops with [] => [] | o :: rest => let S' := fst (fst (step fixed S o)) in S' :: run_trace fixed S' rest end.

(* ---- decoding an observation (used by the property oracles, which judge what the
        IMPLEMENTATION showed) ---- *)
Fixpoint dec_rows (k : nat) (l : list Z) : option (list nrow * list Z) :=
  match k with
  | O => Some ([], l)
  | S k' => match l with
            | a :: b :: c :: rest =>
                match dec_rows k' rest with
                | Some (rs, rest') => Some ({| n_id := Z.to_N a; n_mdate := b; n_sig := Z.to_N c |} :: rs, rest')
                | None => None end
            | _ => None end
  end.
Fixpoint dec_tombs (k : nat) (l : list Z) : option (list tomb * list Z) :=
  match k with
  | O => Some ([], l)
  | S k' => match l with
            | a :: b :: c :: rest =>
                match dec_tombs k' rest with
                | Some (rs, rest') => Some ({| t_id := Z.to_N a; t_mdate := b; t_ddate := c |} :: rs, rest')
                | None => None end
            | _ => None end
  end.
Definition dec_dump (l : list Z) : option (replica * list Z) :=
  match l with
  | k :: rest =>
      match dec_rows (Z.to_nat k) rest with
      | Some (ns, m :: rest') =>
          match dec_tombs (Z.to_nat m) rest' with
          | Some (ts, rest'') => Some ({| nodes := ns; tombs := ts |}, rest'')
          | None => None end
      | _ => None end
  | [] => None
  end.
(* one block per step: (flag, dump) *)
Fixpoint dec_steps (k : nat) (l : list Z) : option (list (Z * replica)) :=
  match k with
  | O => match l with [] => Some [] | _ => None end
  | S k' => match l with
            | flag :: rest =>
                match dec_dump rest with
                | Some (r, rest') => match dec_steps k' rest' with Some bs => Some ((flag, r) :: bs) | None => None end
                | None => None end
            | [] => None end
  end.

(* replicas hold the same rows / the same deletion records *)
Definition rows_subset (a b : list nrow) : bool := forallb (has_row b) a.
Definition tombs_subset (a b : list tomb) : bool := forallb (has_tomb b) a.
Definition same_rows (a b : replica) : bool := rows_subset (nodes a) (nodes b) && rows_subset (nodes b) (nodes a).
Definition same_tombs (a b : replica) : bool := tombs_subset (tombs a) (tombs b) && tombs_subset (tombs b) (tombs a).
Definition agree (a b : replica) : bool := same_rows a b && same_tombs a b.
Fixpoint all_agree (S : sys) : bool :=
  match S with a :: ((b :: _) as t) => agree a b && all_agree t | _ => true end.
