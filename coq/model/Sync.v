(* Sync.v — replicated-state model of room synchronisation (C03, C11).  No proofs here.

   Mirrors, for ONE room and ONE entity of node rows with ONE reference field (label):
     local create / update      <- MutationQuery::execute + Node::write        (mutation_query.rs, node.rs)
     local delete               <- DeletionQuery::build / delete + NodeDeletionEntry::build
                                   (deletion.rs, authorisation_service.rs::validate_deletion)
     pull dst src days          <- LocalPeerService::synchronise_room -> synchronise_day  (peer_inbound_service.rs)
        tombstones of the day   <- NodeDeletionEntry::get_entries; GraphDatabaseService::delete_nodes hands
                                   them on in batches with at most one record per row id, so EVERY record
                                   of an answer is stored (fix bb1bffb); NodeDeletionEntry::delete_all
                                   removes the stored version only if it is the named one or an older one
                                   (DELETE .. AND mdate <= ?, fix ad91329), then INSERT OR REPLACE of the
                                   record
        rows of the day         <- Node::get_daily_nodes_for_room (id, mdate, signature of the rows whose
                                   mdate lies in the day), Node::filter_existing: offered versions not
                                   newer than a stored deletion record of the row are dropped (fix
                                   ca69f52), then last writer wins on (mdate, signature) against _node;
                                   Node::filtered_by_room + NodeToInsert::write (update in place / insert)
     references                <- add: MutationQuery (Edge + re-dated, re-signed source row); remove:
                                   DeletionQuery (Edge::delete + EdgeDeletionEntry + re-dated source row, also when
                                   the reference does not exist); local row deletion: Edge::delete_src/delete_dest;
                                   pull: EdgeDeletionEntry::get_entries / delete_all (exact creation date) first,
                                   then Query::Edges for the fetched rows: Edge::filtered_by_room (cdate >= the
                                   receiver's old version of the row), Edge::write (INSERT OR REPLACE)
   WHICH days a pull exchanges is decided by the daily-log comparison of synchronise_room_data /
   synchronise_history / synchronise_last_day; that comparison (hashes of _daily_log, history-hash
   shortcut) is the business of C09 and is NOT modelled here: the list of days is an argument of
   [Pull] (the harness reads it off the queries that cross the wire), and [needed_days] says which
   days a complete comparison has to select.
   Rights: every peer may write every row of the room at every date of the scenario, so ingestion
   validation (authorisation_service.rs::validate_node / validate_node_deletions) always accepts.
   Signatures are abstract: a row version carries the RANK of its signature in byte order (that is
   all filter_existing looks at); equal rank = same signed version. *)
From DV Require Export Base.

Record nrow := { n_id : uid; n_mdate : Z; n_sig : N }.
Record tomb := { t_id : uid; t_mdate : Z; t_ddate : Z }.   (* key in _node_deletion_log: (id, deletion date) *)
(* a reference src -(label)-> dest; one label ("refs") and one source entity in the model: the key of
   _edge is (src, dest); the key of _edge_deletion_log is (deletion date, src, dest) *)
Record erow := { e_src : uid; e_dest : uid; e_cdate : Z }.
Record etomb := { et_src : uid; et_dest : uid; et_cdate : Z; et_ddate : Z }.
Record replica := { nodes : list nrow; tombs : list tomb; edges : list erow; etombs : list etomb }.
Definition empty_replica : replica := {| nodes := []; tombs := []; edges := []; etombs := [] |}.
(* the same replica with other rows / row deletion records *)
Definition with_nodes (r : replica) (ns : list nrow) : replica :=
  {| nodes := ns; tombs := tombs r; edges := edges r; etombs := etombs r |}.
Definition with_nodes_tombs (r : replica) (ns : list nrow) (ts : list tomb) : replica :=
  {| nodes := ns; tombs := ts; edges := edges r; etombs := etombs r |}.

Definition edge_eqb (a b : erow) : bool :=
  N.eqb (e_src a) (e_src b) && N.eqb (e_dest a) (e_dest b) && Z.eqb (e_cdate a) (e_cdate b).
Definition same_ends (a b : erow) : bool := N.eqb (e_src a) (e_src b) && N.eqb (e_dest a) (e_dest b).
Definition etomb_eqb (a b : etomb) : bool :=
  N.eqb (et_src a) (et_src b) && N.eqb (et_dest a) (et_dest b) && Z.eqb (et_cdate a) (et_cdate b) && Z.eqb (et_ddate a) (et_ddate b).
Definition same_ekey (a b : etomb) : bool :=
  N.eqb (et_src a) (et_src b) && N.eqb (et_dest a) (et_dest b) && Z.eqb (et_ddate a) (et_ddate b).
Definition has_edge (l : list erow) (e : erow) : bool := existsb (edge_eqb e) l.
Definition has_etomb (l : list etomb) (t : etomb) : bool := existsb (etomb_eqb t) l.
Definition find_edge (x y : uid) (l : list erow) : option erow := find (fun e => N.eqb (e_src e) x && N.eqb (e_dest e) y) l.
(* Edge::write: INSERT OR REPLACE on (src, label, dest) — no date comparison *)
Definition put_edge (l : list erow) (e : erow) : list erow := e :: filter (fun u => negb (same_ends u e)) l.
Definition etomb_put (l : list etomb) (t : etomb) : list etomb :=
  if has_etomb l t then l else t :: filter (fun u => negb (same_ekey u t)) l.

Definition row_eqb (a b : nrow) : bool :=
  N.eqb (n_id a) (n_id b) && Z.eqb (n_mdate a) (n_mdate b) && N.eqb (n_sig a) (n_sig b).
Definition tomb_eqb (a b : tomb) : bool :=
  N.eqb (t_id a) (t_id b) && Z.eqb (t_mdate a) (t_mdate b) && Z.eqb (t_ddate a) (t_ddate b).
Definition same_key (a b : tomb) : bool := N.eqb (t_id a) (t_id b) && Z.eqb (t_ddate a) (t_ddate b).

(* ---- the row store: at most one row per id ---- *)
Definition find_node (x : uid) (l : list nrow) : option nrow := find (fun n => N.eqb (n_id n) x) l.
Definition remove_node (x : uid) (l : list nrow) : list nrow := filter (fun n => negb (N.eqb (n_id n) x)) l.
Definition put_node (l : list nrow) (n : nrow) : list nrow := n :: remove_node (n_id n) l.
Definition has_row (l : list nrow) (n : nrow) : bool := existsb (row_eqb n) l.
Definition has_tomb (l : list tomb) (t : tomb) : bool := existsb (tomb_eqb t) l.
(* INSERT OR REPLACE on the key (id, deletion date); writing a record that is already stored changes nothing *)
Definition tomb_put (l : list tomb) (t : tomb) : list tomb :=
  if has_tomb l t then l else t :: filter (fun u => negb (same_key u t)) l.

(* ---- Node::filter_existing: keep the offered version iff nothing is stored under that id or the
        stored one is older, or as old with a smaller signature ---- *)
Definition newer (o e : nrow) : bool :=
  (n_mdate e <? n_mdate o) || ((n_mdate e =? n_mdate o) && (n_sig e <? n_sig o)%N).
Definition wanted (stored : list nrow) (o : nrow) : bool :=
  match find_node (n_id o) stored with None => true | Some e => newer o e end.

(* ca69f52: an offered version that is not newer than a stored deletion record of that row is
   dropped before the comparison with _node *)
Definition below_tomb (ts : list tomb) (o : nrow) : bool :=
  existsb (fun t => N.eqb (t_id t) (n_id o) && (n_mdate o <=? t_mdate t)) ts.

Definition on_day (d : Z) (l : list nrow) : list nrow := filter (fun n => Z.eqb (day (n_mdate n)) d) l.
Definition tombs_on_day (d : Z) (l : list tomb) : list tomb := filter (fun t => Z.eqb (day (t_ddate t)) d) l.

(* ad91329: a deletion record removes the version it names or an older one (DELETE .. AND mdate <= ?);
   bb1bffb: every record of an answer is stored (batches with one record per row id) *)
Definition covered (t : tomb) (n : nrow) : bool := N.eqb (n_id n) (t_id t) && (n_mdate n <=? t_mdate t).
Definition apply_tomb (r : replica) (t : tomb) : replica :=
  with_nodes_tombs r (filter (fun n => negb (covered t n)) (nodes r)) (tomb_put (tombs r) t).
(* EdgeDeletionEntry::delete_all: DELETE FROM _edge WHERE src, src_entity, label, dest, cdate all equal
   — only the exactly named version of the reference —, then INSERT OR REPLACE of the record; a received
   node deletion record does NOT remove the references of the row (only a local deletion does) *)
Definition apply_etomb (r : replica) (t : etomb) : replica :=
  {| nodes := nodes r; tombs := tombs r;
     edges := filter (fun e => negb (N.eqb (e_src e) (et_src t) && N.eqb (e_dest e) (et_dest t) && Z.eqb (e_cdate e) (et_cdate t))) (edges r);
     etombs := etomb_put (etombs r) t |}.
Definition etombs_on_day (d : Z) (l : list etomb) : list etomb := filter (fun t => Z.eqb (day (et_ddate t)) d) l.

(* synchronise_day for one (entity, day): returns the receiver and the number of rows requested
   (Query::Nodes) *)
(* the references that travel with the fetched rows: Query::Edges(room, [(id, old mdate)]) is asked for
   the rows that passed filter_existing only; Edge::filtered_by_room serves the references of such a row
   whose creation date is not before the version the receiver held (0 if it held none) *)
Definition old_mdate (stored : list nrow) (x : uid) : Z :=
  match find_node x stored with Some e => n_mdate e | None => 0 end.
Definition refs_sent (src : replica) (stored : list nrow) (fetch : list nrow) : list erow :=
  flat_map (fun o => filter (fun e => N.eqb (e_src e) (n_id o) && (old_mdate stored (n_id o) <=? e_cdate e)) (edges src)) fetch.
Definition sync_day (src : replica) (acc : replica * N) (d : Z) : replica * N :=
  let '(dst, cnt) := acc in
  let dst0 := fold_left apply_etomb (etombs_on_day d (etombs src)) dst in
  let dst1 := fold_left apply_tomb (tombs_on_day d (tombs src)) dst0 in
  let fetch := filter (fun o => wanted (nodes dst1) o && negb (below_tomb (tombs dst1) o)) (on_day d (nodes src)) in
  ({| nodes := fold_left put_node fetch (nodes dst1); tombs := tombs dst1;
      edges := fold_left put_edge (refs_sent src (nodes dst1) fetch) (edges dst1); etombs := etombs dst1 |},
   (cnt + N.of_nat (length fetch))%N).

(* a day's answer travels cut into batches of bounded size (the serving loops of
   NodeDeletionEntry::get_entries, Node::get_daily_nodes_for_room, Node::filtered_by_room); the receiver
   applies the deletion records batch by batch, collects the row identifiers of all batches before
   filter_existing, and writes the rows batch by batch.  A split is any list of chunks whose
   concatenation is the answer: the lemmas batches_lossless_tombs and batches_lossless_rows of proofs/SyncP.v show the result does not depend on
   the split as long as no element is lost — which the harness checks on the code with small answers *)
Definition apply_tomb_batches (chunks : list (list tomb)) (r : replica) : replica :=
  fold_left (fun acc c => fold_left apply_tomb c acc) chunks r.
Definition put_batches (chunks : list (list nrow)) (l : list nrow) : list nrow :=
  fold_left (fun acc c => fold_left put_node c acc) chunks l.

Definition pull_replica (dst src : replica) (days : list Z) : replica * N :=
  fold_left (sync_day src) days (dst, 0%N).

(* ---- the system: peers 0 .. n-1 ---- *)
Definition sys := list replica.
Definition get (p : N) (S : sys) : replica := nth (N.to_nat p) S empty_replica.
Fixpoint set_nth (k : nat) (r : replica) (S : sys) : sys :=
  match k, S with
  | O, _ :: t => r :: t
  | S k', h :: t => h :: set_nth k' r t
  | _, [] => []
  end.
Definition set (p : N) (r : replica) (S : sys) : sys := set_nth (N.to_nat p) r S.
Definition init_sys (n : N) : sys := repeat empty_replica (N.to_nat n).

Inductive sop :=
| Create (p : N) (x : uid) (t : Z) (sg : N)      (* mutate { ns.Doc{ room_id .. } } at clock t; sg = signature rank *)
| CreateMany (p : N) (x0 : uid) (t : Z) (sgs : list N)   (* ONE mutation creating rows x0, x0+1, .. (same date), one signature rank each *)
| Update (p : N) (x : uid) (t : Z) (sg : N)      (* mutate { ns.Doc{ id:x .. } } *)
| Delete (p : N) (x : uid) (t : Z)               (* delete { ns.Doc{ x } } *)
| AddRef (p : N) (x y : uid) (t : Z) (sg : N)    (* mutate { ns.Doc{ id:x refs:[{id:y}] } }: reference + re-dated source row *)
| DelRef (p : N) (x y : uid) (t : Z) (sg : N)    (* delete { ns.Doc{ x refs[y] } }: deletion record + re-dated source row *)
| Pull (dst src : N) (days : list Z).            (* dst synchronises the room from src; days = what the log comparison selected *)

Definition op_peer (o : sop) : N :=
  match o with Create p _ _ _ | CreateMany p _ _ _ | Update p _ _ _ | Delete p _ _ | AddRef p _ _ _ _ | DelRef p _ _ _ _ => p | Pull d _ _ => d end.

Definition mentions (x : uid) (r : replica) : bool :=
  existsb (fun n => N.eqb (n_id n) x) (nodes r) || existsb (fun t => N.eqb (t_id t) x) (tombs r).

(* one step: new system, the flag the harness observes (1 = done / number of rows requested), and
   whether the step leaves the envelope of the theorems: a Create that reuses an id the peer already
   knows (the code draws fresh uids), an Update whose clock is behind the stored version. *)
(* several creations in one mutation: the rows one after the other; the flag of the envelope is that
   of the single creations *)
Fixpoint create_rows (r : replica) (x : uid) (t : Z) (sgs : list N) : replica * bool :=
  match sgs with
  | [] => (r, false)
  | sg :: rest =>
      let '(r', g) := create_rows (with_nodes r (put_node (nodes r) {| n_id := x; n_mdate := t; n_sig := sg |})) (x + 1)%N t rest in
      (r', mentions x r || g)
  end.
Definition step (S : sys) (o : sop) : sys * Z * bool :=
  match o with
  | CreateMany p x0 t sgs =>
      let '(r, g) := create_rows (get p S) x0 t sgs in (set p r S, Z.of_nat (length sgs), g)
  | Create p x t sg =>
      let r := get p S in
      (set p (with_nodes r (put_node (nodes r) {| n_id := x; n_mdate := t; n_sig := sg |})) S, 1, mentions x r)
  | Update p x t sg =>
      let r := get p S in
      match find_node x (nodes r) with
      | Some e => (set p (with_nodes r (put_node (nodes r) {| n_id := x; n_mdate := t; n_sig := sg |})) S, 1, t <? n_mdate e)
      | None => (S, 0, false)          (* UnknownEntity: nothing written *)
      end
  | Delete p x t =>
      let r := get p S in
      match find_node x (nodes r) with
      | Some e => (set p {| nodes := remove_node x (nodes r);
                            tombs := tomb_put (tombs r) {| t_id := x; t_mdate := n_mdate e; t_ddate := t |};
                            (* Edge::delete_src / delete_dest: the references from and to the row go, without records *)
                            edges := filter (fun u => negb (N.eqb (e_src u) x) && negb (N.eqb (e_dest u) x)) (edges r);
                            etombs := etombs r |} S, 1, false)
      | None => (S, 0, false)          (* nothing selected: no tombstone *)
      end
  | AddRef p x y t sg =>
      let r := get p S in
      match find_node x (nodes r), find_node y (nodes r) with
      | Some ex, Some _ =>
          match find_edge x y (edges r) with
          | Some _ => (S, 1, false)    (* the reference exists: nothing is written *)
          | None => (set p {| nodes := put_node (nodes r) {| n_id := x; n_mdate := t; n_sig := sg |}; tombs := tombs r;
                               edges := put_edge (edges r) {| e_src := x; e_dest := y; e_cdate := t |}; etombs := etombs r |} S,
                     1, t <? n_mdate ex)
          end
      | _, _ => (S, 0, false)          (* UnknownEntity *)
      end
  | DelRef p x y t sg =>
      let r := get p S in
      match find_node x (nodes r) with
      | Some ex =>
          (* the source row is re-dated and re-signed whether or not the reference exists *)
          let ns := put_node (nodes r) {| n_id := x; n_mdate := t; n_sig := sg |} in
          match find_edge x y (edges r) with
          | Some e => (set p {| nodes := ns; tombs := tombs r;
                                edges := filter (fun u => negb (same_ends u e)) (edges r);
                                etombs := etomb_put (etombs r) {| et_src := x; et_dest := y; et_cdate := e_cdate e; et_ddate := t |} |} S,
                       1, t <? n_mdate ex)
          | None => (set p (with_nodes r ns) S, 0, t <? n_mdate ex)
          end
      | None => (S, 0, false)
      end
  | Pull d s days =>
      let '(r, cnt) := pull_replica (get d S) (get s S) days in
      (set d r S, Z.of_N cnt, false)
  end.

(* ---- what a complete log comparison has to select: the days of the source's row versions that
        filter_existing would let through, and of the source's tombstones the receiver lacks ---- *)
Definition needed_days (dst src : replica) : list Z :=
  map (fun n => day (n_mdate n)) (filter (wanted (nodes dst)) (nodes src)) ++
  map (fun t => day (t_ddate t)) (filter (fun t => negb (has_tomb (tombs dst) t)) (tombs src)) ++
  map (fun t => day (et_ddate t)) (filter (fun t => negb (has_etomb (etombs dst) t)) (etombs src)).
Definition days_cover (days need : list Z) : bool := forallb (fun d => existsb (Z.eqb d) days) need.

(* ---- dumps: rows sorted by id, tombstones by (id, deletion date) ---- *)
Fixpoint ins_node (n : nrow) (l : list nrow) : list nrow :=
  match l with
  | [] => [n]
  | h :: t => if (n_id n <=? n_id h)%N then n :: l else h :: ins_node n t
  end.
Definition sort_nodes (l : list nrow) : list nrow := fold_right ins_node [] l.
Definition tomb_le (a b : tomb) : bool := (t_id a <? t_id b)%N || (N.eqb (t_id a) (t_id b) && (t_ddate a <=? t_ddate b)).
Fixpoint ins_tomb (n : tomb) (l : list tomb) : list tomb :=
  match l with
  | [] => [n]
  | h :: t => if tomb_le n h then n :: l else h :: ins_tomb n t
  end.
Definition sort_tombs (l : list tomb) : list tomb := fold_right ins_tomb [] l.

Definition edge_le (a b : erow) : bool := (e_src a <? e_src b)%N || (N.eqb (e_src a) (e_src b) && (e_dest a <=? e_dest b)%N).
Fixpoint ins_edge (n : erow) (l : list erow) : list erow :=
  match l with [] => [n] | h :: t => if edge_le n h then n :: l else h :: ins_edge n t end.
Definition sort_edges (l : list erow) : list erow := fold_right ins_edge [] l.
Definition etomb_le (a b : etomb) : bool :=
  (et_src a <? et_src b)%N || (N.eqb (et_src a) (et_src b) &&
    ((et_dest a <? et_dest b)%N || (N.eqb (et_dest a) (et_dest b) && (et_ddate a <=? et_ddate b)))).
Fixpoint ins_etomb (n : etomb) (l : list etomb) : list etomb :=
  match l with [] => [n] | h :: t => if etomb_le n h then n :: l else h :: ins_etomb n t end.
Definition sort_etombs (l : list etomb) : list etomb := fold_right ins_etomb [] l.

Definition enc_dump (r : replica) : list Z :=
  Z.of_nat (length (nodes r)) :: flat_map (fun n => [zn (n_id n); n_mdate n; zn (n_sig n)]) (sort_nodes (nodes r)) ++
  Z.of_nat (length (tombs r)) :: flat_map (fun t => [zn (t_id t); t_mdate t; t_ddate t]) (sort_tombs (tombs r)) ++
  Z.of_nat (length (edges r)) :: flat_map (fun e => [zn (e_src e); zn (e_dest e); e_cdate e]) (sort_edges (edges r)) ++
  Z.of_nat (length (etombs r)) :: flat_map (fun t => [zn (et_src t); zn (et_dest t); et_cdate t; et_ddate t]) (sort_etombs (etombs r)).

(* the run: observation = for every step [flag] ++ dump of the peer the step touched *)
Fixpoint run_obs (S : sys) (ops : list sop) : list Z :=
  match ops with
  | [] => []
  | o :: rest => let '(S', flag, _) := step S o in
                 (flag :: enc_dump (get (op_peer o) S')) ++ run_obs S' rest
  end.
Fixpoint run_sys (S : sys) (ops : list sop) : sys :=
  match ops with [] => S | o :: rest => run_sys (fst (fst (step S o))) rest end.
(* some step of the run leaves the envelope (see [step]) *)
Fixpoint run_guard (S : sys) (ops : list sop) : bool :=
  match ops with
  | [] => false
  | o :: rest => snd (step S o) || run_guard (fst (fst (step S o))) rest
  end.
Fixpoint run_flags (S : sys) (ops : list sop) : list Z :=
  match ops with
  | [] => []
  | o :: rest => let '(S', flag, _) := step S o in flag :: run_flags S' rest
  end.
(* every pull of the run selected at least the days a complete comparison selects *)
Fixpoint run_complete (S : sys) (ops : list sop) : bool :=
  match ops with
  | [] => true
  | o :: rest =>
      (match o with Pull d s days => days_cover days (needed_days (get d S) (get s S)) | _ => true end)
      && run_complete (fst (fst (step S o))) rest
  end.
(* the systems after each step *)
Fixpoint run_trace (S : sys) (ops : list sop) : list sys :=
  match ops with [] => [] | o :: rest => let S' := fst (fst (step S o)) in S' :: run_trace S' rest end.

(* ---- decoding an observation (used by the property oracles, which judge what the
        IMPLEMENTATION showed) ---- *)
Fixpoint dec_rows (k : nat) (l : list Z) : option (list nrow * list Z) :=
  match k with
  | O => Some ([], l)
  | S k' => match l with
            | a :: b :: c :: rest =>
                match dec_rows k' rest with
                | Some (rs, rest') => Some ({| n_id := Z.to_N a; n_mdate := b; n_sig := Z.to_N c |} :: rs, rest')
                | None => None end
            | _ => None end
  end.
Fixpoint dec_tombs (k : nat) (l : list Z) : option (list tomb * list Z) :=
  match k with
  | O => Some ([], l)
  | S k' => match l with
            | a :: b :: c :: rest =>
                match dec_tombs k' rest with
                | Some (rs, rest') => Some ({| t_id := Z.to_N a; t_mdate := b; t_ddate := c |} :: rs, rest')
                | None => None end
            | _ => None end
  end.
Fixpoint dec_edges (k : nat) (l : list Z) : option (list erow * list Z) :=
  match k with
  | O => Some ([], l)
  | S k' => match l with
            | a :: b :: c :: rest =>
                match dec_edges k' rest with
                | Some (rs, rest') => Some ({| e_src := Z.to_N a; e_dest := Z.to_N b; e_cdate := c |} :: rs, rest')
                | None => None end
            | _ => None end
  end.
Fixpoint dec_etombs (k : nat) (l : list Z) : option (list etomb * list Z) :=
  match k with
  | O => Some ([], l)
  | S k' => match l with
            | a :: b :: c :: d :: rest =>
                match dec_etombs k' rest with
                | Some (rs, rest') => Some ({| et_src := Z.to_N a; et_dest := Z.to_N b; et_cdate := c; et_ddate := d |} :: rs, rest')
                | None => None end
            | _ => None end
  end.
Definition dec_dump (l : list Z) : option (replica * list Z) :=
  match l with
  | k :: rest =>
      match dec_rows (Z.to_nat k) rest with
      | Some (ns, m :: rest') =>
          match dec_tombs (Z.to_nat m) rest' with
          | Some (ts, ke :: rest2) =>
              match dec_edges (Z.to_nat ke) rest2 with
              | Some (es, kt :: rest3) =>
                  match dec_etombs (Z.to_nat kt) rest3 with
                  | Some (ets, rest4) => Some ({| nodes := ns; tombs := ts; edges := es; etombs := ets |}, rest4)
                  | None => None end
              | _ => None end
          | _ => None end
      | _ => None end
  | [] => None
  end.
(* one block per step: (flag, dump) *)
Fixpoint dec_steps (k : nat) (l : list Z) : option (list (Z * replica)) :=
  match k with
  | O => match l with [] => Some [] | _ => None end
  | S k' => match l with
            | flag :: rest =>
                match dec_dump rest with
                | Some (r, rest') => match dec_steps k' rest' with Some bs => Some ((flag, r) :: bs) | None => None end
                | None => None end
            | [] => None end
  end.

(* replicas hold the same rows / the same deletion records *)
Definition rows_subset (a b : list nrow) : bool := forallb (has_row b) a.
Definition tombs_subset (a b : list tomb) : bool := forallb (has_tomb b) a.
Definition same_rows (a b : replica) : bool := rows_subset (nodes a) (nodes b) && rows_subset (nodes b) (nodes a).
Definition same_tombs (a b : replica) : bool := tombs_subset (tombs a) (tombs b) && tombs_subset (tombs b) (tombs a).
(* the references a replica SHOWS: both ends are rows it holds (a query joins the reference with both) *)
Definition visible (r : replica) (e : erow) : bool :=
  match find_node (e_src e) (nodes r), find_node (e_dest e) (nodes r) with Some _, Some _ => true | _, _ => false end.
Definition shown_refs (r : replica) : list erow := filter (visible r) (edges r).
(* the receiver holds a reference with the same ends (what a query shows) *)
Definition ref_held (dst : replica) (e : erow) : bool :=
  match find_edge (e_src e) (e_dest e) (edges dst) with Some _ => true | None => false end.
Definition same_refs (a b : replica) : bool :=
  forallb (ref_held b) (shown_refs a) && forallb (ref_held a) (shown_refs b).
Definition same_etombs (a b : replica) : bool :=
  forallb (has_etomb (etombs b)) (etombs a) && forallb (has_etomb (etombs a)) (etombs b).
Definition agree (a b : replica) : bool := same_rows a b && same_tombs a b && same_refs a b && same_etombs a b.
Fixpoint all_agree (S : sys) : bool :=
  match S with a :: ((b :: _) as t) => agree a b && all_agree t | _ => true end.

(* a pull that moves nothing: every selected day, exchanged with the receiver as it is, requests no
   row and leaves the receiver as it is *)
Definition replica_eqb (a b : replica) : bool :=
  list_eqb row_eqb (nodes a) (nodes b) && list_eqb tomb_eqb (tombs a) (tombs b) &&
  list_eqb edge_eqb (edges a) (edges b) && list_eqb etomb_eqb (etombs a) (etombs b).
Definition day_still (dst src : replica) (d : Z) : bool :=
  let '(r, c) := sync_day src (dst, 0%N) d in N.eqb c 0 && replica_eqb r dst.
Definition pull_still (dst src : replica) (days : list Z) : bool := forallb (day_still dst src) days.
Fixpoint still (S : sys) (ops : list sop) : bool :=
  match ops with
  | [] => true
  | Pull d s days :: rest => pull_still (get d S) (get s S) days && still S rest
  | _ :: _ => false
  end.
