(* Fts.v — model of the full-text index of one peer (C17).  No proofs here.

   _node_fts is an FTS5 table  fts5(text, content='', tokenize='trigram', detail=full), content-less,
   keyed by the storage slot (rowid) of the row in _node and maintained by hand:
     Node::write (node.rs) with index = true
        new row (INSERT, rowid = max(rowid)+1):   INSERT INTO _node_fts(rowid, text)            current text
        existing row (UPDATE ... WHERE rowid=?):  INSERT INTO _node_fts(_node_fts, rowid, text)
                                                  VALUES('delete', rowid, previous text), then the insert
     rows written by synchronisation (NodeToInsert, index = false): _node only, the index is not touched
     Node::delete / NodeDeletionEntry::delete_all: DELETE FROM _node, the index is not touched
   text of a row <- extract_json: every string value of the row's JSON, in key order, each followed by
   a space (the entities of the harness have one or two text fields a ("32") and b ("33"), nullable:
   a row may end up with no text at all).
   FTS5 content-less semantics as far as the code relies on it (trusted, validated by the
   correspondence runs):
     - an entry is a position list per (rowid, trigram); the most recent write for a (rowid, trigram)
       wins: an insert sets the positions the trigram has in the inserted text, the 'delete' command
       clears the trigrams OF THE TEXT IT IS GIVEN (FTS5 trusts the caller) and nothing else;
     - the table keeps totals (documents, tokens); 'delete' subtracts the given text's token count and
       one document and fails with SQLITE_CORRUPT ("database disk image is malformed") when a total
       would become negative — the whole write transaction is then rolled back;
     - MATCH w (w = 3 or more letters/digits) = the trigrams of w occur at consecutive positions. *)
From DV Require Export Base.

Definition text := list N.              (* character codes *)
Definition sp : N := 32%N.
Definition tri := (N * N * N)%type.
Definition tri_eqb (x y : tri) : bool :=
  let '(a, b, c) := x in let '(d, e, f) := y in N.eqb a d && N.eqb b e && N.eqb c f.

(* the trigram that starts at position p *)
Fixpoint tri_at (t : text) (p : nat) : option tri :=
  match p, t with
  | O, a :: b :: c :: _ => Some (a, b, c)
  | O, _ => None
  | S p', _ :: t' => tri_at t' p'
  | S _, [] => None
  end.
Definition is_tri_at (t : text) (u : tri) (p : nat) : bool :=
  match tri_at t p with Some v => tri_eqb v u | None => false end.
Definition positions (t : text) (u : tri) : list nat := filter (is_tri_at t u) (seq 0 (length t)).
Definition ntrig (t : text) : Z := Z.of_nat (length t - 2).
(* every trigram occurrence of a text, in order *)
Fixpoint tris (t : text) : list tri :=
  match t with
  | a :: ((b :: c :: _) as t') => (a, b, c) :: tris t'
  | _ => []
  end.

(* ---- the index ---- *)
Definition ientry := (N * tri * option (list nat))%type.     (* rowid, trigram, positions | cleared *)
Definition index := list ientry.                              (* newest first *)
Definition idx_insert (r : N) (t : text) (ix : index) : index :=
  map (fun u => (r, u, Some (positions t u))) (tris t) ++ ix.
Definition idx_delete (r : N) (t : text) (ix : index) : index :=
  map (fun u => (r, u, @None (list nat))) (tris t) ++ ix.
Fixpoint lookup (ix : index) (r : N) (u : tri) : list nat :=
  match ix with
  | [] => []
  | (r', u', ps) :: rest =>
      if N.eqb r' r && tri_eqb u' u then match ps with Some l => l | None => [] end else lookup rest r u
  end.
Definition mem_nat (p : nat) (l : list nat) : bool := existsb (Nat.eqb p) l.

(* the trigrams of a search word, in order *)
Definition word_tris (w : text) : list tri := tris w.
(* phrase match: the k-th trigram of the word sits at position p + k *)
Fixpoint follows (ix : index) (r : N) (us : list tri) (p : nat) : bool :=
  match us with
  | [] => true
  | u :: rest => mem_nat p (lookup ix r u) && follows ix r rest (S p)
  end.
Definition fts_match (ix : index) (r : N) (w : text) : bool :=
  match word_tris w with
  | [] => false
  | u :: rest => existsb (fun p => follows ix r rest (S p)) (lookup ix r u)
  end.

(* ---- the row store of one peer (rows of the indexed entity, one room) ---- *)
Record frow := { f_id : uid; f_rowid : N; f_a : option text; f_b : option text }.   (* None = null / absent *)
Definition opt_text (o : option text) : text := match o with Some t => t ++ [sp] | None => [] end.
Definition fts_text (a b : option text) : text := opt_text a ++ opt_text b.
Definition row_text (r : frow) : text := fts_text (f_a r) (f_b r).

Record fstate := { rows : list frow; idx : index; nrow : Z; ntok : Z }.
(* rowids are counted from the greatest rowid the peer's _node table holds when the history starts *)
Definition next_rowid (l : list frow) : N := (fold_right N.max 0 (map f_rowid l) + 1)%N.
Definition find_row (x : uid) (l : list frow) : option frow := find (fun r => N.eqb (f_id r) x) l.
Definition remove_row (x : uid) (l : list frow) : list frow := filter (fun r => negb (N.eqb (f_id r) x)) l.
Definition replace_row (n : frow) (l : list frow) : list frow :=
  map (fun r => if N.eqb (f_id r) (f_id n) then n else r) l.

Inductive fop :=
| FCreate (x : uid) (a : option text) (b : option text)              (* mutate { ns.E{ room_id [a] [b] } } *)
| FUpdate (x : uid) (a : option (option text)) (b : option (option text))   (* mutate { ns.E{ id [a | a:null] [b | b:null] } } *)
| FDelete (x : uid)                                                  (* delete { ns.Doc{ id } } *)
| FSyncPut (x : uid) (a : option text) (b : option text)             (* a pull wrote this row: new row or newer version *)
| FSyncDel (x : uid)                                                 (* a pull applied a deletion record *)
| FToggle (indexed : bool)                                           (* update_data_model: the entity declared with / without no_full_text_index *)
| FCheck (ws : list text).                                           (* dump the rows, search every word *)

(* events: a row was written by synchronisation; a new row took a storage slot that still has index
   entries of a deleted row; a creation reused an id the peer already holds (outside the envelope) *)
Inductive fevents := FEv (synced reused guard : bool).
Definition fev_none := FEv false false false.
Definition fev_or (a b : fevents) : fevents :=
  let '(FEv a1 a2 a3) := a in let '(FEv b1 b2 b3) := b in FEv (a1 || b1) (a2 || b2) (a3 || b3).
Definition fev_synced (e : fevents) := let '(FEv s _ _) := e in s.
Definition fev_reused (e : fevents) := let '(FEv _ d _) := e in d.
Definition fev_guard (e : fevents) := let '(FEv _ _ g) := e in g.

Definition slot_used (ix : index) (r : N) : bool := existsb (fun e => N.eqb (fst (fst e)) r) ix.

Definition search (st : fstate) (w : text) : list uid :=
  map f_id (filter (fun r => fts_match (idx st) (f_rowid r) w) (rows st)).

(* sorted by id for the dump / the result lists *)
Fixpoint ins_n (n : N) (l : list N) : list N :=
  match l with [] => [n] | h :: t => if (n <=? h)%N then n :: l else h :: ins_n n t end.
Definition sort_n (l : list N) : list N := fold_right ins_n [] l.
Fixpoint ins_row (n : frow) (l : list frow) : list frow :=
  match l with [] => [n] | h :: t => if (f_id n <=? f_id h)%N then n :: l else h :: ins_row n t end.
Definition sort_rows (l : list frow) : list frow := fold_right ins_row [] l.

Definition enc_text (t : text) : list Z := Z.of_nat (length t) :: map zn t.
Definition enc_row (r : frow) : list Z :=
  zn (f_id r) :: zn (f_rowid r) ::
  match f_a r with Some t => 1 :: enc_text t | None => [0] end ++
  match f_b r with Some t => 1 :: enc_text t | None => [0] end.
Definition enc_ids (l : list uid) : list Z := Z.of_nat (length l) :: map zn (sort_n l).
Definition enc_check (st : fstate) (ws : list text) : list Z :=
  Z.of_nat (length (rows st)) :: flat_map enc_row (sort_rows (rows st)) ++ flat_map (fun w => enc_ids (search st w)) ws.

(* one step: new state, what the harness observes, events *)
Definition fstep (st : fstate) (o : fop) : fstate * list Z * fevents :=
  match o with
  | FCreate x a b =>
      let r := next_rowid (rows st) in
      let t := fts_text a b in
      ({| rows := rows st ++ [{| f_id := x; f_rowid := r; f_a := a; f_b := b |}];
          idx := idx_insert r t (idx st); nrow := nrow st + 1; ntok := ntok st + ntrig t |},
       [1], FEv false (slot_used (idx st) r) (existsb (fun q => N.eqb (f_id q) x) (rows st)))
  | FUpdate x a b =>
      match find_row x (rows st) with
      | None => (st, [0], fev_none)                      (* UnknownEntity *)
      | Some old =>
          let prev := row_text old in
          let n := {| f_id := x; f_rowid := f_rowid old;
                      f_a := match a with Some v => v | None => f_a old end;
                      f_b := match b with Some v => v | None => f_b old end |} in
          let cur := row_text n in
          (* mutation_query.rs hands the previous text on only when it is not empty (no string value
             at all): then no 'delete' is issued and the insert counts one more document *)
          let del := negb (Nat.eqb (length prev) 0) in
          if del && ((ntok st <? ntrig prev) || (nrow st <? 1))
          then (st, [2], fev_none)                       (* FTS5 'delete': SQLITE_CORRUPT, transaction rolled back *)
          else ({| rows := replace_row n (rows st);
                   idx := idx_insert (f_rowid old) cur (idx_delete (f_rowid old) prev (idx st));
                   nrow := nrow st + (if del then 0 else 1); ntok := ntok st - ntrig prev + ntrig cur |}, [1], fev_none)
      end
  | FDelete x =>
      match find_row x (rows st) with
      | None => (st, [0], fev_none)
      | Some _ => ({| rows := remove_row x (rows st); idx := idx st; nrow := nrow st; ntok := ntok st |}, [1], fev_none)
      end
  | FSyncPut x a b =>
      match find_row x (rows st) with
      | Some old => ({| rows := replace_row {| f_id := x; f_rowid := f_rowid old; f_a := a; f_b := b |} (rows st);
                        idx := idx st; nrow := nrow st; ntok := ntok st |}, [], FEv true false false)
      | None => ({| rows := rows st ++ [{| f_id := x; f_rowid := next_rowid (rows st); f_a := a; f_b := b |}];
                    idx := idx st; nrow := nrow st; ntok := ntok st |}, [], FEv true (slot_used (idx st) (next_rowid (rows st))) false)
      end
  | FSyncDel x =>
      ({| rows := remove_row x (rows st); idx := idx st; nrow := nrow st; ntok := ntok st |}, [], fev_none)
  (* Entity::update does not take enable_full_text from the new model version: the value of the first
     version sticks, the index keeps being maintained and search keeps being answered *)
  | FToggle _ => (st, [], fev_none)
  | FCheck ws => (st, enc_check st ws, fev_none)
  end.

Fixpoint frun_obs (st : fstate) (ops : list fop) : list Z :=
  match ops with
  | [] => []
  | o :: rest => let '(st', obs, _) := fstep st o in obs ++ frun_obs st' rest
  end.
Fixpoint frun_events (st : fstate) (ops : list fop) : fevents :=
  match ops with
  | [] => fev_none
  | o :: rest => let '(st', _, ev) := fstep st o in fev_or ev (frun_events st' rest)
  end.
Fixpoint frun_state (st : fstate) (ops : list fop) : fstate :=
  match ops with [] => st | o :: rest => frun_state (fst (fst (fstep st o))) rest end.
Definition finit (n0 t0 : Z) : fstate := {| rows := []; idx := []; nrow := n0; ntok := t0 |}.

(* ---- the specification side: substring test on the text fields ---- *)
Fixpoint prefix (w t : text) : bool :=
  match w, t with
  | [], _ => true
  | a :: w', b :: t' => N.eqb a b && prefix w' t'
  | _ :: _, [] => false
  end.
Fixpoint contains (t w : text) : bool :=
  prefix w t || match t with [] => false | _ :: t' => contains t' w end.
Definition row_contains (r : frow) (w : text) : bool :=
  match f_a r with Some t => contains t w | None => false end ||
  match f_b r with Some t => contains t w | None => false end.
(* search words of the property: three or more characters, no space *)
Definition wf_term (w : text) : bool := (3 <=? length w)%nat && forallb (fun c => negb (N.eqb c sp)) w.
Definition expected (l : list frow) (w : text) : list uid := map f_id (filter (fun r => row_contains r w) l).
