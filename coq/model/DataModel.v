(* DataModel.v — executable model of src/database/query_language/data_model_parser.rs
   (DataModel::parse_internal / insert, Entity::add_field / insert_field, update_system, update,
   update_with, Entity::update), AS THE CODE IS (GraphDatabase::update_data_model: run_inst_obs in
   run/Run_C15.v).
   No proofs here.

   Names are indices: namespaces 0 = "" (default namespace), 1 = "sys", k>=2 user namespaces;
   entity names are local to their namespace; field names < 1000 are user names, 1000..1010 are
   the system fields (id, room_id, cdate, mdate, sys_peer, sys_room, _entity, _json, _binary,
   verifying_key, _signature).  Letter case: entity name 1000+k is entity name k spelt in the other
   case ("e7" / "E7"), field name 500+k (k < 500) is field name k spelt in the other case
   ("F3" / "f3") — distinct names for the data model, the same for SQLite's index names.

   Rust HashMaps are association lists here (insertion order) plus an explicit iteration-order
   ORACLE: every `for x in &mut map` of the code visits the elements sorted by a rank the oracle
   gives to the keys.  A loop that mutates elements in place and returns early on the first error
   (apply_update, Entity::update) is `loop`: elements visited before the error — and the failing
   element itself, as far as it got — carry their new value, the others are untouched.
   Since commit c4c0a2e update_with runs these loops on a clone of self and swaps it in on success
   only (`upd` over `apply_upd`); since a0ddb65 Entity::update inserts the new fields sorted by
   their parsed position, not in the order of the parsed text's hash map. *)
From DV Require Export Base.
Local Open Scope N_scope.

(* ------------------------------------------------------------------ data *)
Inductive ftype := TBool | TFloat | TInt | TStr | TB64 | TJson | TEnt (ns e : N) | TArr (ns e : N).

Definition ftype_eqb (a b : ftype) : bool :=
  match a, b with
  | TBool, TBool | TFloat, TFloat | TInt, TInt | TStr, TStr | TB64, TB64 | TJson, TJson => true
  | TEnt n e, TEnt n' e' => N.eqb n n' && N.eqb e e'
  | TArr n e, TArr n' e' => N.eqb n n' && N.eqb e e'
  | _, _ => false
  end.
Definition is_ref (t : ftype) : bool := match t with TEnt _ _ | TArr _ _ => true | _ => false end.

(* RESERVED_SHORT_NAMES *)
Definition reserved : N := 32.

Record field := mkF { f_name : N; f_short : N; f_type : ftype; f_default : option N;
                      f_nullable : bool; f_depr : bool }.
(* short name of an entity: "pos" in the default namespace, "nsid.pos" elsewhere *)
Definition eshort := (option N * N)%type.
Record entity := mkE { e_name : N; e_short : eshort; e_fields : list field;
                       e_idx : list N; e_rm : list N;      (* indexes / indexes_to_remove, by code *)
                       e_depr : bool; e_ft : bool }.
Record nspace := mkNs { n_name : N; n_id : N; n_ents : list entity }.
Record dmodel := mkM { m_tag : N; m_nss : list nspace }.   (* m_tag: which text `model` holds *)
Definition empty_model : dmodel := mkM 0 [].

Inductive err :=
| EParser | EDupEntity | EDupField | ESysConflict | EInvalidQuery | EIndexExists
| ENamespaceUpdate | ENsOrdering | EEntOrdering | EMissingEntity | EMissingNamespace
| EFieldOrdering | ECannotUpdateType | EMissingDefault | EMissingField.
Definition err_code (e : err) : Z :=
  match e with
  | EParser => 1 | EDupEntity => 2 | EDupField => 3 | ESysConflict => 4 | EInvalidQuery => 5
  | EIndexExists => 6 | ENamespaceUpdate => 7 | ENsOrdering => 8 | EEntOrdering => 9
  | EMissingEntity => 10 | EMissingNamespace => 11 | EFieldOrdering => 12
  | ECannotUpdateType => 13 | EMissingDefault => 14 | EMissingField => 15
  end%Z.
Definition verdict_code (o : option err) : Z := match o with None => 0%Z | Some e => err_code e end.
Inductive res (A : Type) := Ok (a : A) | Err (e : err).
Arguments Ok {A} a. Arguments Err {A} e.

(* ------------------------------------------------------------------ a version (the text) *)
Record fdecl := mkFD { fd_name : N; fd_type : ftype; fd_default : option N; fd_nullable : bool; fd_depr : bool }.
Record edecl := mkED { ed_name : N; ed_depr : bool; ed_ft : bool; ed_fields : list fdecl; ed_idx : list (list N) }.
(* blocks in text order: `ns { entities }`; the same namespace may appear in several blocks *)
Record version := mkV { v_tag : N; v_blocks : list (N * list edecl) }.

(* ------------------------------------------------------------------ lookups *)
Definition memN (x : N) (l : list N) : bool := existsb (N.eqb x) l.
Definition find_field (k : N) (l : list field) := find (fun f => N.eqb (f_name f) k) l.
Definition has_field (k : N) (l : list field) := existsb (fun f => N.eqb (f_name f) k) l.
Definition find_ent (k : N) (l : list entity) := find (fun e => N.eqb (e_name e) k) l.
Definition has_ent (k : N) (l : list entity) := existsb (fun e => N.eqb (e_name e) k) l.
Definition find_ns (k : N) (l : list nspace) := find (fun n => N.eqb (n_name n) k) l.
Definition has_ns (k : N) (l : list nspace) := existsb (fun n => N.eqb (n_name n) k) l.
Definition len {A} (l : list A) : N := N.of_nat (length l).
Definition is_none {A} (o : option A) : bool := match o with None => true | Some _ => false end.
Definition short_eqb (a b : eshort) : bool := opt_eqb N.eqb (fst a) (fst b) && N.eqb (snd a) (snd b).

(* ------------------------------------------------------------------ parse_internal *)
Definition is_sys_field (k : N) : bool := (1000 <=? k) && (k <=? 1010).
(* type of a system field (SYSTEM_FIELDS), for Index::add_field *)
Definition sys_field_type (k : N) : option ftype :=
  if k =? 1000 then Some TB64 else if k =? 1001 then Some TB64 else if k =? 1002 then Some TInt
  else if k =? 1003 then Some TInt else if k =? 1004 then Some (TEnt 1 4) else if k =? 1005 then Some (TEnt 1 0)
  else if k =? 1006 then Some TStr else if k =? 1007 then Some TStr else if k =? 1008 then Some TB64
  else if k =? 1009 then Some TB64 else if k =? 1010 then Some TB64 else None.

(* parse_entity: Entity::add_field for each field in text order;
   insert_field: short name = RESERVED_SHORT_NAMES + fields.len() *)
Fixpoint add_fields (ds : list fdecl) (acc : list field) : res (list field) :=
  match ds with
  | [] => Ok acc
  | d :: r =>
      if has_field (fd_name d) acc then Err EDupField
      else if is_sys_field (fd_name d) then Err ESysConflict
      else add_fields r (acc ++ [mkF (fd_name d) (reserved + len acc) (fd_type d) (fd_default d) (fd_nullable d) (fd_depr d)])
  end.

(* Index::name is determined by the entity and the field names: an index is its code *)
Definition idx_code (l : list N) : N := fold_left (fun acc f => acc * 2048 + f + 1) l 0.

Definition index_type_ok (t : ftype) : bool :=
  match t with TEnt _ _ | TArr _ _ | TJson => false | _ => true end.
(* one index(...) entry: Entity::get_field + Index::add_field for each name *)
Fixpoint check_index (fs : list field) (names : list N) (seen : list N) : bool :=
  match names with
  | [] => true
  | k :: r =>
      let ty := match find_field k fs with Some f => Some (f_type f) | None => sys_field_type k end in
      match ty with
      | None => false
      | Some t => index_type_ok t && negb (memN k seen) && check_index fs r (seen ++ [k])
      end
  end.
Fixpoint add_indexes (fs : list field) (ixs : list (list N)) (acc : list N) : res (list N) :=
  match ixs with
  | [] => Ok acc
  | ix :: r =>
      if negb (check_index fs ix []) then Err EInvalidQuery
      else if memN (idx_code ix) acc then Err EIndexExists
      else add_indexes fs r (acc ++ [idx_code ix])
  end.

Definition set_ents (n : nspace) (es : list entity) : nspace := mkNs (n_name n) (n_id n) es.
Fixpoint replace_ns (n' : nspace) (l : list nspace) : list nspace :=
  match l with
  | [] => []
  | n :: r => if N.eqb (n_name n) (n_name n') then n' :: r else n :: replace_ns n' r
  end.

(* DataModel::insert + the index loop of parse_internal, for one entity of namespace `nsn` *)
Definition insert_entity (decal : N) (nsn : N) (d : edecl) (M : list nspace) : res (list nspace) :=
  match add_fields (ed_fields d) [] with
  | Err e => Err e
  | Ok fs =>
      let M1 := if has_ns nsn M then M else M ++ [mkNs nsn (len M + decal) []] in
      match find_ns nsn M1 with
      | None => Err EParser     (* unreachable *)
      | Some n =>
          if has_ent (ed_name d) (n_ents n) then Err EDupEntity
          else
            match add_indexes fs (ed_idx d) [] with
            | Err e => Err e
            | Ok ixs =>
                let sh := (if N.eqb nsn 0 then None else Some (n_id n), len (n_ents n)) in
                let e := mkE (ed_name d) sh fs ixs [] (ed_depr d) (ed_ft d) in
                Ok (replace_ns (set_ents n (n_ents n ++ [e])) M1)
            end
      end
  end.

Fixpoint insert_entities (decal nsn : N) (ds : list edecl) (M : list nspace) : res (list nspace) :=
  match ds with
  | [] => Ok M
  | d :: r => match insert_entity decal nsn d M with
              | Err e => Err e
              | Ok M' => insert_entities decal nsn r M'
              end
  end.
Fixpoint insert_blocks (decal : N) (bs : list (N * list edecl)) (M : list nspace) : res (list nspace) :=
  match bs with
  | [] => Ok M
  | (nsn, ds) :: r => match insert_entities decal nsn ds M with
                      | Err e => Err e
                      | Ok M' => insert_blocks decal r M'
                      end
  end.

(* check_consistency: every referenced entity exists in the parsed text *)
Definition ref_ok (M : list nspace) (t : ftype) : bool :=
  match t with
  | TEnt ns e | TArr ns e => match find_ns ns M with Some n => has_ent e (n_ents n) | None => false end
  | _ => true
  end.
Definition consistent (M : list nspace) : bool :=
  forallb (fun n => forallb (fun e => forallb (fun f => ref_ok M (f_type f)) (e_fields e)) (n_ents n)) M.

Definition parse (decal : N) (v : version) : res (list nspace) :=
  match insert_blocks decal (v_blocks v) [] with
  | Err e => Err e
  | Ok M => if consistent M then Ok M else Err EParser
  end.

(* ------------------------------------------------------------------ iteration order *)
Fixpoint ins {A} (rk : A -> N) (a : A) (l : list A) : list A :=
  match l with
  | [] => [a]
  | b :: r => if rk a <=? rk b then a :: l else b :: ins rk a r
  end.
Definition sort_by {A} (rk : A -> N) (l : list A) : list A := fold_right (ins rk) [] l.

Record oracle := mkO { o_ns : N -> N;                  (* self.namespaces *)
                       o_ent : N -> N -> N;            (* self.namespaces[ns] *)
                       o_fld : N -> N -> N -> N }.     (* entity.fields of namespace ns, entity e *)

(* visit in order until the first error: keys visited (the failing one included), the error *)
Fixpoint scan {A} (key : A -> N) (f : A -> A * option err) (l : list A) : list N * option err :=
  match l with
  | [] => ([], None)
  | a :: r => match snd (f a) with
              | Some e => ([key a], Some e)
              | None => let '(v, e) := scan key f r in (key a :: v, e)
              end
  end.
Definition loop {A} (key : A -> N) (rank : N -> N) (f : A -> A * option err) (l : list A) : list A * option err :=
  let '(vis, e) := scan key f (sort_by (fun a => rank (key a)) l) in
  (map (fun a => if memN (key a) vis then fst (f a) else a) l, e).

(* ------------------------------------------------------------------ Entity::update *)
Definition needs_default (nullable : bool) (default : option N) (t : ftype) : bool :=
  negb nullable && is_none default && negb (is_ref t).

(* the body of `for field in &mut self.fields` *)
Definition upd_field (qfs : list field) (f : field) : field * option err :=
  match find_field (f_name f) qfs with
  | None => (f, Some EMissingField)
  | Some g =>
      if negb (N.eqb (f_short f) (f_short g)) then (f, Some EFieldOrdering)
      else if negb (ftype_eqb (f_type f) (f_type g)) then (f, Some ECannotUpdateType)
      else if f_nullable f && needs_default (f_nullable g) (f_default g) (f_type f) then (f, Some EMissingDefault)
      else (mkF (f_name f) (f_short f) (f_type f) (f_default g) (f_nullable g) (f_depr g), None)
  end.

(* `for field in new_fields` : the remaining (new) fields, sorted by their parsed short name (the
   position in the text); insert_field renumbers them RESERVED_SHORT_NAMES + self.fields.len() *)
Fixpoint insert_new (news : list field) (fs : list field) : list field * option err :=
  match news with
  | [] => (fs, None)
  | f :: r =>
      if needs_default (f_nullable f) (f_default f) (f_type f) then (fs, Some EMissingDefault)
      else insert_new r (fs ++ [mkF (f_name f) (reserved + len fs) (f_type f) (f_default f) (f_nullable f) (f_depr f)])
  end.

Definition new_fields (e q : entity) : list field :=
  filter (fun f => negb (has_field (f_name f) (e_fields e))) (e_fields q).

Definition entity_update (o : oracle) (nsn : N) (e q : entity) : entity * option err :=
  let '(fs1, er1) := loop f_name (o_fld o nsn (e_name e)) (upd_field (e_fields q)) (e_fields e) in
  match er1 with
  | Some x => (mkE (e_name e) (e_short e) fs1 (e_idx e) (e_rm e) (e_depr q) (e_ft e), Some x)
  | None =>
      let news := sort_by f_short (new_fields e q) in
      let '(fs2, er2) := insert_new news fs1 in
      match er2 with
      | Some x => (mkE (e_name e) (e_short e) fs2 (e_idx e) (e_rm e) (e_depr q) (e_ft e), Some x)
      | None =>
          let rm := e_rm e ++ filter (fun i => negb (memN i (e_idx q)) && negb (memN i (e_rm e))) (e_idx e) in
          (mkE (e_name e) (e_short e) fs2 (e_idx q) rm (e_depr q) (e_ft e), None)
      end
  end.

(* ------------------------------------------------------------------ update_with *)
Definition upd_ent (o : oracle) (nsn : N) (qes : list entity) (e : entity) : entity * option err :=
  match find_ent (e_name e) qes with
  | None => (e, Some EMissingEntity)
  | Some q => if negb (short_eqb (e_short e) (e_short q)) then (e, Some EEntOrdering)
              else entity_update o nsn e q
  end.

Definition new_ents (n p : nspace) : list entity :=
  filter (fun q => negb (has_ent (e_name q) (n_ents n))) (n_ents p).

Definition upd_ns (o : oracle) (sys : bool) (P : list nspace) (n : nspace) : nspace * option err :=
  match find_ns (n_name n) P with
  | None => (n, if negb sys && negb (N.eqb (n_name n) 1) then Some EMissingNamespace else None)
  | Some p =>
      if negb (N.eqb (n_id p) (n_id n)) then (n, Some ENsOrdering)
      else
        let '(es, er) := loop e_name (o_ent o (n_name n)) (upd_ent o (n_name n) (n_ents p)) (n_ents n) in
        match er with
        | Some x => (set_ents n es, Some x)
        | None => (set_ents n (es ++ new_ents n p), None)
        end
  end.

Definition new_nss (M P : list nspace) : list nspace :=
  filter (fun p => negb (has_ns (n_name p) M)) P.

(* first loop of update_with: a system update may only contain "sys", a user update never *)
Definition ns_check_fails (sys : bool) (P : list nspace) : bool :=
  existsb (fun p => if sys then negb (N.eqb (n_name p) 1) else N.eqb (n_name p) 1) P.

(* apply_update: the body of the update, run on a clone of self; mutates it while it validates *)
Definition apply_upd (o : oracle) (sys : bool) (M : dmodel) (v : version) : dmodel * option err :=
  match parse (if sys then 0 else 1) v with
  | Err e => (M, Some e)
  | Ok P =>
      if ns_check_fails sys P then (M, Some ENamespaceUpdate)
      else
        let '(nss, er) := loop n_name (o_ns o) (upd_ns o sys P) (m_nss M) in
        match er with
        | Some x => (mkM (m_tag M) nss, Some x)
        | None => (mkM (v_tag v) (nss ++ new_nss (m_nss M) P), None)
        end
  end.

(* update_system (sys = true, decal 0) / update (sys = false, decal 1) through update_with:
   `updated = self.clone(); updated.apply_update(..)?; *self = updated`.
   Returns the model the instance holds afterwards and the verdict. *)
Definition upd (o : oracle) (sys : bool) (M : dmodel) (v : version) : dmodel * option err :=
  let '(M', e) := apply_upd o sys M v in
  match e with
  | None => (M', None)
  | Some x => (M, Some x)
  end.

(* ------------------------------------------------------------------ storing the model *)
(* The writer of GraphDatabase::update_data_model stores the serialised model and creates every
   index of every entity (`CREATE INDEX <Index::name> ..`) in one transaction.  Index::name is
   "idx$" + the entity's qualified name ('.' -> '$') + '$' + the field names; SQLite compares index
   names without regard to letter case while the code's `index exists` test is exact: two indexes
   whose names differ only by case make CREATE INDEX fail, the transaction is rolled back and the
   call returns the database error. *)
Definition fold_ent (e : N) : N := if 1000 <=? e then e - 1000 else e.
Definition fold_fld (f : N) : N := if (500 <=? f) && (f <? 1000) then f - 500 else f.
Definition idx_names (v : version) : list (N * N * list N) :=
  flat_map (fun b => flat_map (fun d => map (fun ix => (fst b, ed_name d, ix)) (ed_idx d)) (snd b)) (v_blocks v).
Definition idx_same (a b : N * N * list N) : bool :=
  let '(n1, e1, l1) := a in let '(n2, e2, l2) := b in N.eqb n1 n2 && N.eqb e1 e2 && list_eqb N.eqb l1 l2.
Definition idx_same_nocase (a b : N * N * list N) : bool :=
  let '(n1, e1, l1) := a in let '(n2, e2, l2) := b in
  N.eqb n1 n2 && N.eqb (fold_ent e1) (fold_ent e2) && list_eqb N.eqb (map fold_fld l1) (map fold_fld l2).
Fixpoint has_clash (l : list (N * N * list N)) : bool :=
  match l with
  | [] => false
  | a :: r => existsb (fun b => idx_same_nocase a b && negb (idx_same a b)) r || has_clash r
  end.
(* an accepted version (every entity of the stored model is declared in it, with its indexes) *)
Definition storage_refuses (v : version) : bool := has_clash (idx_names v).

(* ------------------------------------------------------------------ histories *)
Record step := mkS { s_sys : bool; s_ver : version }.
Definition zero_oracle : oracle := mkO (fun _ => 0) (fun _ _ => 0) (fun _ _ _ => 0).

(* a bare DataModel value to which update_system / update are applied in sequence *)
Fixpoint run_steps (M : dmodel) (steps : list step) (os : list oracle) : list (option err * dmodel) :=
  match steps with
  | [] => []
  | s :: r =>
      let o := hd zero_oracle os in
      let '(M', e) := upd o (s_sys s) M (s_ver s) in
      (e, M') :: run_steps M' r (tl os)
  end.
