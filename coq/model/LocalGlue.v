(* LocalGlue.v — model of the part of MutationQuery::get_mutate_query (mutation_query.rs) that decides,
   for an UPDATE request (`id` given) of one row, whether the row itself is rewritten (`field_updated`;
   otherwise node = None: "nothing changed, the node will not be updated"), which references are
   inserted and which stored references are scheduled for deletion — for one reference field of the
   request, with or without another (scalar) field set.  No proofs here. *)
From DV Require Export Base.

Inductive refop :=
| RNone                                          (* the request touches no reference field *)
| RSetOne (stored : list key) (same : bool)      (* `field: {id:$t}` on a single-reference field: authors of the stored
                                                    references of that field; same = one of them already points to $t *)
| RArrAdd (present : bool)                       (* `field: [{id:$t}]` on an array field; present = already referenced *)
| RNull (stored : list key).                     (* `field: null`: authors of the stored references of that field *)

(* (a reference field changed something, references inserted, authors of the references removed) *)
Definition ref_effect (op : refop) : bool * N * list key :=
  match op with
  | RNone => (false, 0%N, [])
  | RSetOne stored same => if same then (false, 0%N, []) else (true, 1%N, stored)   (* Edge::exists: nothing to do *)
  | RArrAdd present => if present then (false, 0%N, []) else (true, 1%N, [])
  | RNull stored => (match stored with [] => false | _ => true end, 0%N, stored)
  end.
(* the row is rewritten (new mdate, signed again by the caller) iff some field changed *)
Definition row_rewritten (other_field : bool) (op : refop) : bool := other_field || fst (fst (ref_effect op)).
