(* SystemDefs.v — System.v with the room definitions made PART OF THE STATE: besides the remote
   ingestion calls, accepted local writes and accepted local deletions of System.sys_step there is a
   fourth kind of step, `SysGrow R new`, that appends the definition entries `new` to the entry list
   of room R (or creates room R from them when the receiver does not know it yet).  The entries are
   consumed exactly as Rights.build / Rights.accepted consume them: one add_* call of room.rs each,
   oldest first, a refused call skipped (room.rs' histories are append-only per key: add_user /
   add_right refuse an entry older than the LAST entry of the same key, and nothing else).
   The step is NOT guarded by validate_room_update (Run_C01) nor by the remote room-node checks of
   C07 / C10: who may append is their subject; here the question is what ANY appended entry can do to
   the rows already stored.  No proofs here (proofs/SystemDefsP.v). *)
From DV Require Export System.

(* ------------------------------------------------------------------ dates of definition entries *)
(* the entry is dated strictly after d (a group creation carries no date: it is after every date) *)
Definition ev_after (d : Z) (ev : event) : bool :=
  match ev with
  | EvGroup _ => true
  | EvAdmin _ x _ => Z.ltb d x
  | EvUser _ _ x _ => Z.ltb d x
  | EvUAdmin _ _ x _ => Z.ltb d x
  | EvRight _ _ x _ _ => Z.ltb d x
  end.
Definition evs_after (d : Z) (evs : list event) : bool := forallb (ev_after d) evs.

(* the entries of `evs` that the add_* calls accept when replayed on top of the room r
   (Rights.accepted id evs is accepted_from (empty_room id) evs) *)
Definition accepted_from (r : room) (evs : list event) : list event :=
  map fst (filter snd (combine evs (snd (build_from r evs)))).
(* what `new` really adds to the accepted history of the room built from `evs` *)
Definition accepted_tail (id : uid) (evs new : list event) : list event :=
  accepted_from (build id evs) new.

(* ------------------------------------------------------------------ growth of the definitions *)
Definition grow_entry (R : uid) (new : list event) (p : uid * list event) : uid * list event :=
  if N.eqb (fst p) R then (fst p, snd p ++ new) else p.
(* a known room: its entry list grows at the end; an unknown room: it is created from the entries *)
Definition grow_defs (defs : list (uid * list event)) (R : uid) (new : list event) : list (uid * list event) :=
  if known_room defs R then map (grow_entry R new) defs else defs ++ [(R, new)].

(* the entries the step really adds to the accepted history of R (none of interest when R is created:
   no stored row can be entitled by a room that is not known) *)
Definition grow_tail (defs : list (uid * list event)) (R : uid) (new : list event) : list event :=
  match find (fun p => N.eqb (fst p) R) defs with
  | Some p => accepted_tail (fst p) (snd p) new
  | None => []
  end.
(* answer of the step: 0 (room known) or 2 (room created), then one flag per entry: accepted? *)
Definition grow_answer (defs : list (uid * list event)) (R : uid) (new : list event) : list Z :=
  match find (fun p => N.eqb (fst p) R) defs with
  | Some p => 0 :: map zb (snd (build_from (build (fst p) (snd p)) new))
  | None => 2 :: map zb (snd (build_from (empty_room R) new))
  end.

(* ------------------------------------------------------------------ the state machine *)
Record gstate := { g_defs : list (uid * list event); g_store : store }.

Inductive gstep :=
| SysStep (s : sys_step)                      (* remote call, local write, local deletion: as System.sys_do *)
| SysGrow (R : uid) (new : list event).       (* the definition of room R grows by `new` *)

Definition gsys_do (dm : dmodel) (g : gstate) (s : gstep) : gstate * list Z :=
  match s with
  | SysStep s0 =>
      let r := sys_do (build_rooms (g_defs g)) dm (g_store g) s0 in
      ({| g_defs := g_defs g; g_store := fst r |}, snd r)
  | SysGrow R new =>
      ({| g_defs := grow_defs (g_defs g) R new; g_store := g_store g |}, grow_answer (g_defs g) R new)
  end.

Fixpoint gsys_run (dm : dmodel) (g : gstate) (hist : list gstep) : list (gstate * list Z) :=
  match hist with
  | [] => []
  | s :: tl => let r := gsys_do dm g s in r :: gsys_run dm (fst r) tl
  end.
Fixpoint gsys_final (dm : dmodel) (g : gstate) (hist : list gstep) : gstate :=
  match hist with
  | [] => g
  | s :: tl => gsys_final dm (fst (gsys_do dm g s)) tl
  end.

Definition g_nodes_entitled (g : gstate) : bool := nodes_entitled (g_defs g) (g_store g).
Definition g_all_entitled (g : gstate) : bool := all_entitled (g_defs g) (g_store g).

(* ------------------------------------------------------------------ the side conditions on a growth step *)
(* evaluated on the state BEFORE the step (like System.hist_stable) *)
Definition in_room (R : uid) (n : rnode) : bool := opt_eqb N.eqb (n_room n) (Some R).

(* ROWS: every entry the step really adds (refused entries add nothing) is dated strictly after every
   row then stored in room R *)
Definition grow_after_rows (defs : list (uid * list event)) (st : store) (R : uid) (new : list event) : bool :=
  forallb (fun x => negb (in_room R x) || evs_after (n_mdate x) (grow_tail defs R new)) (s_nodes st).
(* REFERENCES: ... and strictly after the creation date of every reference then hanging on a row of
   room R (a reference has no room of its own and its date is not the date of its row) *)
Definition grow_after_refs (defs : list (uid * list event)) (st : store) (R : uid) (new : list event) : bool :=
  forallb (fun y => forallb (fun n => negb (anchors n y && in_room R n) || evs_after (e_cdate y) (grow_tail defs R new))
                            (s_nodes st))
          (s_edges st).

Definition gstep_rows_ok (g : gstate) (s : gstep) : bool :=
  match s with
  | SysStep _ => true                                   (* rows need no side condition on the other steps *)
  | SysGrow R new => grow_after_rows (g_defs g) (g_store g) R new
  end.
Fixpoint ghist_rows_ok (dm : dmodel) (g : gstate) (hist : list gstep) : bool :=
  match hist with
  | [] => true
  | s :: tl => gstep_rows_ok g s && ghist_rows_ok dm (fst (gsys_do dm g s)) tl
  end.

(* rows and references: System.step_stable on the other steps *)
Definition gstep_stable (dm : dmodel) (g : gstate) (s : gstep) : bool :=
  match s with
  | SysStep s0 => step_stable (g_store g) s0 (fst (sys_do (build_rooms (g_defs g)) dm (g_store g) s0))
  | SysGrow R new => grow_after_rows (g_defs g) (g_store g) R new && grow_after_refs (g_defs g) (g_store g) R new
  end.
Fixpoint ghist_stable (dm : dmodel) (g : gstate) (hist : list gstep) : bool :=
  match hist with
  | [] => true
  | s :: tl => gstep_stable dm g s && ghist_stable dm (fst (gsys_do dm g s)) tl
  end.

(* ------------------------------------------------------------------ closed cases (for the examples) *)
Record gcase := { gc_defs : list (uid * list event); gc_dm : dmodel; gc_pre : store; gc_hist : list gstep }.
Definition gc_init (c : gcase) : gstate := {| g_defs := gc_defs c; g_store := gc_pre c |}.
Definition gc_final (c : gcase) : gstate := gsys_final (gc_dm c) (gc_init c) (gc_hist c).
Definition gc_answers (c : gcase) : list (list Z) := map snd (gsys_run (gc_dm c) (gc_init c) (gc_hist c)).
(* (initial state entitled; rows side condition; rows+references side condition;
    rows of the final state entitled; final state entitled) *)
Definition gverdicts (c : gcase) : bool * bool * bool * bool * bool :=
  (g_all_entitled (gc_init c),
   ghist_rows_ok (gc_dm c) (gc_init c) (gc_hist c),
   ghist_stable (gc_dm c) (gc_init c) (gc_hist c),
   g_nodes_entitled (gc_final c),
   g_all_entitled (gc_final c)).
