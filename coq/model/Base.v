(* Base.v — shared vocabulary of the models. No proofs here. *)
From Coq Require Export List ZArith NArith Bool Lia.
Export ListNotations.
Open Scope Z_scope.

Definition key := N.       (* verifying key, by index in the scenario *)
Definition uid := N.       (* room / group / row identifier, by index *)
Definition entity := N.    (* entity name by index; 0 is the wildcard "*" *)
Definition wildcard : entity := 0%N.

Inductive right_t := MutateSelf | MutateAll.

Definition ms_per_day : Z := 86400000.
Definition day (d : Z) : Z := (d / ms_per_day) * ms_per_day.

(* observables are flattened to lists of Z so that one comparison serves every model *)
Definition zb (b : bool) : Z := if b then 1 else 0.
Definition zn (n : N) : Z := Z.of_N n.
Definition zo (o : option N) : Z := match o with Some n => Z.of_N n | None => -1 end.

Fixpoint list_eqb {A} (eqb : A -> A -> bool) (l1 l2 : list A) : bool :=
  match l1, l2 with
  | [], [] => true
  | x :: t1, y :: t2 => eqb x y && list_eqb eqb t1 t2
  | _, _ => false
  end.
Definition zlist_eqb := list_eqb Z.eqb.

Definition opt_eqb {A} (eqb : A -> A -> bool) (a b : option A) : bool :=
  match a, b with
  | None, None => true
  | Some x, Some y => eqb x y
  | _, _ => false
  end.
