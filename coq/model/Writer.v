(* Writer.v — model of the batch writer: BufferedDatabaseWriter::process_batch_write and the
   acknowledgement loop of the writer thread (src/database/sqlite_database.rs), as a process over
   a DISK state (the committed database) and a volatile transaction, under a FAULT SCHEDULE that
   says for every instrumentation point hit: Continue | FailStmt | Kill.

   Assumed semantics of SQLite (trusted, exercised by every correspondence run):
   - statements executed after BEGIN and before COMMIT change a private copy (the transaction);
     COMMIT replaces the disk by that copy atomically; ROLLBACK, or the death of the process,
     discards the copy and leaves the disk unchanged;
   - BEGIN on a connection that is still inside a transaction fails.

   The statement skeleton (order of BEGIN / loop / marks / COMMIT, per message kind: statement
   group, ROLLBACK on its error exit, marks, acknowledgement route) is NOT written here: it is
   generated from the Rust source into gen/WriterSkeleton.v (code_skeleton) on every run, and the
   functions below are parameterised by it.  No proofs in this file. *)
From DV Require Export Base.

(* ------------------------------------------------------------------ skeleton *)
Inductive kind := KDeletion | KMutation | KMutationStream | KNodes | KEdges | KRoomMutation
  | KRoomMutationStream | KRoomNode | KWrite | KCompute | KDeleteEdges | KDeleteNodes | KOptimize.

Definition kind_code (k : kind) : N :=
  match k with
  | KDeletion => 1 | KMutation => 2 | KMutationStream => 3 | KNodes => 4 | KEdges => 5
  | KRoomMutation => 6 | KRoomMutationStream => 7 | KRoomNode => 8 | KWrite => 9 | KCompute => 10
  | KDeleteEdges => 11 | KDeleteNodes => 12 | KOptimize => 13
  end%N.
Definition kind_eqb (a b : kind) : bool := N.eqb (kind_code a) (kind_code b).
Definition all_kinds : list kind :=
  [KDeletion; KMutation; KMutationStream; KNodes; KEdges; KRoomMutation; KRoomMutationStream;
   KRoomNode; KWrite; KCompute; KDeleteEdges; KDeleteNodes; KOptimize].

(* who answers the caller: the writer thread itself, the authorisation actor (after a second
   validation), the database actor (DailyLogComputed: no caller waits), nobody *)
Inductive route := RDirect | RAuth | RDb | RNone.
Inductive step := SBegin | SLoop | SMarks | SCommit | SOptimize.
Definition step_code (s : step) : N :=
  match s with SBegin => 1 | SLoop => 2 | SMarks => 3 | SCommit => 4 | SOptimize => 5 end%N.

Record arm := {
  a_kind : kind;
  a_fallible : bool;   (* the arm runs a statement group: `if let Err(e) = <call> { .. }` *)
  a_rollback : bool;   (* the error exit of the group issues ROLLBACK before `return Err(e)` *)
  a_marks : bool;      (* the arm feeds the daily-log marks (update_daily_logs / &mut daily_log) *)
  a_loop : bool;       (* one statement group per item of the message (Nodes, Edges) *)
  a_points : bool;     (* H4 points in front of and behind the group *)
  a_ok : route;  a_ok_pol : bool;    (* acknowledgement in the Ok branch, and it carries Ok *)
  a_err : route; a_err_pol : bool    (* acknowledgement in the Err branch, and it carries Err *)
}.
Record skeleton := {
  sk_seq : list step;          (* top-level statements of process_batch_write, in source order *)
  sk_marks_rollback : bool;    (* error exit of daily_log.write issues ROLLBACK *)
  sk_commit_rollback : bool;   (* error exit of COMMIT issues ROLLBACK *)
  sk_ack_after_return : bool;  (* the acknowledgement loop runs on the result of process_batch_write *)
  sk_points : bool;
  sk_arms : list arm;
  (* H4b: the statement sequence of the multi-statement groups, as extracted from the source:
     (site, steps) with step 1 = one fallible statement, 2 = a loop of fallible statements, 0 = an H4 point *)
  sk_stmts : list (N * list N);
  sk_start_points : bool       (* H4b points around the start-up recompute (start(), writer thread) *)
}.
Definition arm_of (sk : skeleton) (k : kind) : option arm :=
  find (fun a => kind_eqb (a_kind a) k) (sk_arms sk).

(* structural obligations on the generated skeleton (proved over code_skeleton in proofs/C13P.v) *)
Definition shape_ok (sk : skeleton) : bool :=
  list_eqb N.eqb (map step_code (sk_seq sk)) [1; 2; 3; 4; 5]%N && sk_ack_after_return sk.
Definition arms_complete (sk : skeleton) : bool :=
  list_eqb N.eqb (map (fun a => kind_code (a_kind a)) (sk_arms sk)) (map kind_code all_kinds).
Definition arms_rollback (sk : skeleton) : bool :=
  forallb (fun a => implb (a_fallible a) (a_rollback a)) (sk_arms sk).
Definition route_code (r : route) : N := match r with RDirect => 0 | RAuth => 1 | RDb => 2 | RNone => 3 end%N.
Definition arms_ack (sk : skeleton) : bool :=
  forallb (fun a => a_ok_pol a && a_err_pol a && N.eqb (route_code (a_ok a)) (route_code (a_err a))) (sk_arms sk).
(* the statements that exist inside the multi-statement groups and where the interior points sit:
   1 InsertEntity::write (node, POINT, edge deletions, their log, edge insertions, sub entities),
   2 DeletionQuery::delete (edge deletions, POINT, their log, node deletions, POINT, re-signed source nodes, node log),
   4/5 RoomMutation[Stream]WriteQuery::write (the mutation, POINT, room changelog), 6 RoomNodeWriteQuery::write *)
Definition stmts_expected : list (N * list N) :=
  [(1, [1; 0; 2; 2; 2; 2]); (2, [2; 0; 2; 2; 0; 2; 2]); (4, [1; 0; 2]); (5, [1; 0; 2]); (6, [1; 0; 1])]%N.
Definition stmts_known (sk : skeleton) : bool :=
  list_eqb (fun a b : N * list N => N.eqb (fst a) (fst b) && list_eqb N.eqb (snd a) (snd b)) (sk_stmts sk) stmts_expected.
Definition points_complete (sk : skeleton) : bool :=
  sk_points sk && forallb a_points (sk_arms sk) && stmts_known sk && sk_start_points sk.
(* every message kind except Optimize runs a statement group *)
Definition arms_fallible (sk : skeleton) : bool :=
  forallb (fun a => a_fallible a || kind_eqb (a_kind a) KOptimize) (sk_arms sk).
(* no caller waits for a recompute or an optimize request *)
Definition arms_routes (sk : skeleton) : bool :=
  forallb (fun a => match a_kind a with
                    | KCompute | KOptimize => match a_ok a with RDb | RNone => true | _ => false end
                    | _ => true
                    end) (sk_arms sk).
(* the error exits of daily_log.write and of COMMIT issue ROLLBACK as well (C13-fix-1) *)
Definition exits_rollback (sk : skeleton) : bool := sk_marks_rollback sk && sk_commit_rollback sk.
Definition sk_ok (sk : skeleton) : bool :=
  shape_ok sk && arms_complete sk && arms_rollback sk && arms_ack sk && arms_fallible sk && arms_routes sk &&
  exits_rollback sk.

(* ------------------------------------------------------------------ data *)
(* a row is named by (cell, id): the cell is the daily-log cell (room, entity, day) it belongs to,
   cell 0 = not covered by the daily log (rows without room, configuration, room definitions, edges) *)
Definition rkey := (N * N)%type.
Definition rkey_eqb (a b : rkey) : bool := N.eqb (fst a) (fst b) && N.eqb (snd a) (snd b).

Inductive op :=
| Put (c i v : N)      (* insert / replace row (c,i) with content v *)
| Del (c i : N).       (* delete row (c,i) and write its deletion-log entry *)
Definition op_key (o : op) : rkey := match o with Put c i _ => (c, i) | Del c i => (c, i) end.
Definition op_cell (o : op) : N := fst (op_key o).

Fixpoint lookup {V} (k : rkey) (l : list (rkey * V)) : option V :=
  match l with
  | [] => None
  | (k', v) :: t => if rkey_eqb k' k then Some v else lookup k t
  end.
Fixpoint remove {V} (k : rkey) (l : list (rkey * V)) : list (rkey * V) :=
  match l with
  | [] => []
  | (k', v) :: t => if rkey_eqb k' k then remove k t else (k', v) :: remove k t
  end.
Definition upd {V} (k : rkey) (v : V) (l : list (rkey * V)) := (k, v) :: remove k l.

Fixpoint nlookup {V} (k : N) (l : list (N * V)) : option V :=
  match l with
  | [] => None
  | (k', v) :: t => if N.eqb k' k then Some v else nlookup k t
  end.
Fixpoint nremove {V} (k : N) (l : list (N * V)) : list (N * V) :=
  match l with
  | [] => []
  | (k', v) :: t => if N.eqb k' k then nremove k t else (k', v) :: nremove k t
  end.

(* the committed database, as far as the property talks about it *)
Record disk := {
  d_rows : list (rkey * N);            (* _node / _edge / _configuration rows *)
  d_tombs : list rkey;                 (* _node_deletion_log *)
  d_log : list (N * (bool * N))        (* _daily_log: cell -> (need_recompute, entry_number) *)
}.

Definition apply_op (d : disk) (o : op) : disk :=
  match o with
  | Put c i v => {| d_rows := upd (c, i) v (d_rows d); d_tombs := d_tombs d; d_log := d_log d |}
  | Del c i => {| d_rows := remove (c, i) (d_rows d); d_tombs := (c, i) :: d_tombs d; d_log := d_log d |}
  end.
Definition apply_ops (d : disk) (ops : list op) : disk := fold_left apply_op ops d.

(* entries of cell c that the recompute query counts: rows + deletion-log entries *)
Definition count_cell (d : disk) (c : N) : N :=
  N.of_nat (length (filter (fun kv => N.eqb (fst (fst kv)) c) (d_rows d)) +
            length (filter (fun k => N.eqb (fst k) c) (d_tombs d))).

(* DailyMutations::write: INSERT .. ON CONFLICT DO UPDATE SET need_recompute = 1 (entry_number kept) *)
Definition mark_cell (log : list (N * (bool * N))) (c : N) : list (N * (bool * N)) :=
  let n := match nlookup c log with Some (_, n) => n | None => 0%N end in
  (c, (true, n)) :: nremove c log.
Definition write_marks (d : disk) (marks : list N) : disk :=
  {| d_rows := d_rows d; d_tombs := d_tombs d; d_log := fold_left mark_cell marks (d_log d) |}.
(* DailyLogsUpdate::compute: every entry marked for recompute gets the current count and is cleaned *)
Definition recompute (d : disk) : disk :=
  {| d_rows := d_rows d; d_tombs := d_tombs d;
     d_log := map (fun e : N * (bool * N) =>
                     if fst (snd e) then (fst e, (false, count_cell d (fst e))) else e) (d_log d) |}.

(* ------------------------------------------------------------------ requests *)
(* what the authorisation actor needs to answer a room mutation (second validation, after commit) *)
Inductive auth_eff :=
| ANone
| ACreate                                   (* a new room: needs nothing *)
| ANeeds (needs_right revokes_right : bool). (* change of the main room: the request also writes a row that needs
                                               an entity right / the request takes that right away *)
Record req := mkReq {
  r_kind : kind;
  r_groups : list (list (list op));   (* per statement group its statements (what runs between two H4 points),
                                         per statement the row operations *)
  r_marks : list N;            (* cells update_daily_logs reports *)
  r_auth : auth_eff
}.
Definition req_ops (r : req) : list op := concat (map (@concat op) (r_groups r)).
Definition eff_marks (sk : skeleton) (r : req) : list N :=
  match arm_of sk (r_kind r) with
  | Some a => if a_marks a then r_marks r else []
  | None => []
  end.

(* ------------------------------------------------------------------ the writer *)
Inductive fault := Continue | FailStmt | Kill.
Definition schedule := N -> fault.       (* fault at the n-th instrumentation point hit (1-based) *)

(* instrumentation points (hook H4), numbering of verif_faults *)
Definition P_BEGIN := 1%N. Definition P_GROUP := 2%N. Definition P_GROUP_END := 3%N.
Definition P_MARKS := 4%N. Definition P_COMMIT := 5%N. Definition P_COMMITTED := 6%N. Definition P_ACK := 7%N.
(* H4b *) Definition P_STMT := 10%N. Definition P_START := 11%N. Definition P_START_DONE := 12%N.

Record wstate := {
  w_disk : disk;
  w_stuck : bool     (* the connection is still inside an abandoned transaction *)
}.
(* what became of one call of process_batch_write *)
Inductive outcome :=
| Returned (ok : bool)        (* it returned Ok / Err and the acknowledgement loop ran *)
| Died (committed : bool).    (* the process was killed at a point; had COMMIT been executed *)

(* progress of the transaction body: hits so far, then either the transaction state, an error
   return (with: is the connection left inside the transaction), or death (with the point) *)
Inductive txn_res :=
| TGo (n : N) (t : disk)
| TErr (n : N) (stuck : bool)
| TDead (n : N) (last : N).

(* effect of one statement group inside the transaction: a recompute group runs DailyLogsUpdate::compute,
   every other group executes its statements in order *)
Definition group_pre (a : arm) (t : disk) : disk := match a_kind a with KCompute => recompute t | _ => t end.
Definition stmt_eff (a : arm) (t : disk) (s : list op) : disk := match a_kind a with KCompute => t | _ => apply_ops t s end.
Definition group_eff (a : arm) (t : disk) (g : list (list op)) : disk := fold_left (stmt_eff a) g (group_pre a t).

(* the statements of a group; in front of every statement but the first there is a point (P_STMT):
   Kill = the process dies between two statements, FailStmt = that statement fails (error exit of the arm) *)
Fixpoint stmts_run (sched : schedule) (a : arm) (n : N) (t : disk) (ss : list (list op)) (first : bool) : txn_res :=
  match ss with
  | [] => TGo n t
  | s :: rest =>
      if first then stmts_run sched a n (stmt_eff a t s) rest false
      else match sched (n + 1)%N with
           | Kill => TDead (n + 1) P_STMT
           | FailStmt => TErr (n + 1) (negb (a_rollback a))
           | Continue => stmts_run sched a (n + 1) (stmt_eff a t s) rest false
           end
  end.

Definition group_step (sched : schedule) (a : arm) (acc : txn_res) (g : list (list op)) : txn_res :=
  match acc with
  | TGo n t =>
      match sched (n + 1)%N with
      | Kill => TDead (n + 1) P_GROUP
      | FailStmt => TErr (n + 1) (negb (a_rollback a))       (* the group's first statement fails: error exit of the arm *)
      | Continue =>
          match stmts_run sched a (n + 1) (group_pre a t) g true with
          | TGo n' t' =>
              match sched (n' + 1)%N with
              | Kill => TDead (n' + 1) P_GROUP_END
              | _ => TGo (n' + 1) t'
              end
          | other => other
          end
      end
  | other => other
  end.

Definition req_step (sk : skeleton) (sched : schedule) (acc : txn_res) (r : req) : txn_res :=
  match arm_of sk (r_kind r) with
  | Some a => if a_fallible a then fold_left (group_step sched a) (r_groups r) acc else acc
  | None => acc
  end.

Definition batch_marks (sk : skeleton) (b : list req) : list N := flat_map (eff_marks sk) b.

(* the transaction body without faults: what COMMIT makes durable *)
Definition req_eff (sk : skeleton) (t : disk) (r : req) : disk :=
  match arm_of sk (r_kind r) with
  | Some a => if a_fallible a then fold_left (group_eff a) (r_groups r) t else t
  | None => t
  end.
Definition txn_body (sk : skeleton) (b : list req) (d : disk) : disk :=
  write_marks (fold_left (req_eff sk) b d) (batch_marks sk b).

(* the point in front of the acknowledgement loop *)
Definition ack_point (sched : schedule) (st : wstate) (ok : bool) (n : N) : wstate * outcome * N * N :=
  match sched (n + 1)%N with
  | Kill => (st, Died ok, (n + 1)%N, P_ACK)
  | _ => (st, Returned ok, (n + 1)%N, P_ACK)
  end.

(* one call of process_batch_write + the point in front of the acknowledgement loop.
   returns: new writer state, outcome, hits so far, last point hit *)
Definition run_batch (sk : skeleton) (sched : schedule) (n : N) (st : wstate) (b : list req)
  : wstate * outcome * N * N :=
  match sched (n + 1)%N with
  | Kill => (st, Died false, (n + 1)%N, P_BEGIN)
  | FailStmt => ack_point sched st false (n + 1)%N           (* BEGIN fails: nothing was opened *)
  | Continue =>
      if w_stuck st then ack_point sched st false (n + 1)%N  (* BEGIN inside a transaction fails *)
      else
        match fold_left (req_step sk sched) b (TGo (n + 1) (w_disk st)) with
        | TDead n' p => (st, Died false, n', p)
        | TErr n' stuck => ack_point sched {| w_disk := w_disk st; w_stuck := stuck |} false n'
        | TGo n1 t =>
            match sched (n1 + 1)%N with                      (* in front of daily_log.write *)
            | Kill => (st, Died false, (n1 + 1)%N, P_MARKS)
            | FailStmt => ack_point sched {| w_disk := w_disk st; w_stuck := negb (sk_marks_rollback sk) |} false (n1 + 1)%N
            | Continue =>
                let t' := write_marks t (batch_marks sk b) in
                match sched (n1 + 2)%N with                  (* in front of COMMIT *)
                | Kill => (st, Died false, (n1 + 2)%N, P_COMMIT)
                | FailStmt => ack_point sched {| w_disk := w_disk st; w_stuck := negb (sk_commit_rollback sk) |} false (n1 + 2)%N
                | Continue =>
                    let st' := {| w_disk := t'; w_stuck := false |} in
                    match sched (n1 + 3)%N with              (* behind COMMIT *)
                    | Kill => (st', Died true, (n1 + 3)%N, P_COMMITTED)
                    | _ => ack_point sched st' true (n1 + 3)%N
                    end
                end
            end
        end
  end.

(* ------------------------------------------------------------------ acknowledgements *)
(* the authorisation actor's view of the main room: is the entity right still granted *)
Definition auth_state := bool.
(* Some true = acknowledged Ok, Some false = reported failed, None = nothing the caller can observe *)
Definition ack_req (sk : skeleton) (ok : bool) (au : auth_state) (r : req) : option bool * auth_state :=
  match arm_of sk (r_kind r) with
  | None => (None, au)
  | Some a =>
      let carried := if ok then a_ok_pol a else negb (a_err_pol a) in   (* does the message carry Ok *)
      match (if ok then a_ok a else a_err a) with
      | RDirect => (Some carried, au)
      | RAuth =>
          if carried then
            (* AuthorisationMessage::RoomMutationWrite(Ok): validate_mutation AGAIN, then add_room *)
            match r_auth r with
            | ANeeds needs revokes =>
                if needs && negb au then (Some false, au)
                else (Some true, if revokes then false else au)
            | _ => (Some true, au)
            end
          else (Some false, au)
      | RDb | RNone => (None, au)
      end
  end.
(* ------------------------------------------------------------------ a whole run *)
(* per request, in submission order: the request, what the caller was told, was its batch committed *)
Definition item := (req * option bool * bool)%type.
Definition it_req (x : item) : req := fst (fst x).
Definition it_ack (x : item) : option bool := snd (fst x).
Definition it_committed (x : item) : bool := snd x.
(* the acknowledgement loop: `for msg in buffer`, in batch order *)
Fixpoint ack_batch (sk : skeleton) (ok : bool) (au : auth_state) (b : list req) : list item * auth_state :=
  match b with
  | [] => ([], au)
  | r :: t => let '(a, au1) := ack_req sk ok au r in
              let '(l, au2) := ack_batch sk ok au1 t in ((r, a, ok) :: l, au2)
  end.
Record run_res := {
  rr_state : wstate;
  rr_items : list item;
  rr_alive : bool;
  rr_hits : N;
  rr_last : N                            (* the point the process died at *)
}.

Fixpoint run_batches (sk : skeleton) (sched : schedule) (n : N) (st : wstate) (au : auth_state)
         (bs : list (list req)) : run_res :=
  match bs with
  | [] => {| rr_state := st; rr_items := []; rr_alive := true; rr_hits := n; rr_last := 0%N |}
  | b :: rest =>
      let '(st', o, n', last) := run_batch sk sched n st b in
      match o with
      | Died c =>
          (* nothing of this batch or of a later one is acknowledged; later batches are never executed *)
          {| rr_state := st';
             rr_items := map (fun q => (q, None, c)) b ++ map (fun q => (q, None, false)) (concat rest);
             rr_alive := false; rr_hits := n'; rr_last := last |}
      | Returned ok =>
          let '(items, au') := ack_batch sk ok au b in
          let r := run_batches sk sched n' st' au' rest in
          {| rr_state := rr_state r;
             rr_items := items ++ rr_items r;
             rr_alive := rr_alive r; rr_hits := rr_hits r; rr_last := rr_last r |}
      end
  end.

(* ------------------------------------------------------------------ GraphDatabaseService::start on an existing folder
   what the writer sees of a start, in order: writes that start() awaits (system room changelog, data model:
   an Err makes start fail), messages nobody waits for (the hourly optimize tick, the start-up recompute, what the
   application sends afterwards), the H4b point in front of the start-up recompute request, and the H4b point the
   writer thread passes when the first recompute has been answered Ok *)
Inductive sstep :=
| SAwait (b : list req)
| SFree (b : list req)
| SStartPoint
| SDonePoint.
Record script_res := {
  sr_state : wstate;
  sr_items : list item;        (* the requests of the SFree batches that ran, with acknowledgement / committed *)
  sr_alive : bool;
  sr_started : bool;           (* start() returned Ok (so far) *)
  sr_hits : N;
  sr_last : N
}.
Fixpoint run_script (sk : skeleton) (sched : schedule) (n : N) (st : wstate) (last_ok started : bool) (sc : list sstep) : script_res :=
  match sc with
  | [] => {| sr_state := st; sr_items := []; sr_alive := true; sr_started := started; sr_hits := n; sr_last := 0%N |}
  | SAwait b :: rest =>
      let '(st', o, n', last) := run_batch sk sched n st b in
      match o with
      | Died _ => {| sr_state := st'; sr_items := []; sr_alive := false; sr_started := started; sr_hits := n'; sr_last := last |}
      | Returned true => run_script sk sched n' st' true started rest
      | Returned false =>   (* start() returns the error; the process goes on without a database service *)
          {| sr_state := st'; sr_items := []; sr_alive := true; sr_started := false; sr_hits := n'; sr_last := last |}
      end
  | SFree b :: rest =>
      let '(st', o, n', last) := run_batch sk sched n st b in
      match o with
      | Died c => {| sr_state := st'; sr_items := map (fun q => (q, None, c)) b; sr_alive := false; sr_started := started;
                     sr_hits := n'; sr_last := last |}
      | Returned ok =>
          let '(items, _) := ack_batch sk ok true b in
          let r := run_script sk sched n' st' ok started rest in
          {| sr_state := sr_state r; sr_items := items ++ sr_items r; sr_alive := sr_alive r; sr_started := sr_started r;
             sr_hits := sr_hits r; sr_last := sr_last r |}
      end
  | SStartPoint :: rest =>   (* start() is about to request the recompute and to return Ok *)
      match sched (n + 1)%N with
      | Kill => {| sr_state := st; sr_items := []; sr_alive := false; sr_started := false; sr_hits := (n + 1)%N; sr_last := P_START |}
      | _ => run_script sk sched (n + 1)%N st last_ok true rest
      end
  | SDonePoint :: rest =>
      if last_ok then
        match sched (n + 1)%N with
        | Kill => {| sr_state := st; sr_items := []; sr_alive := false; sr_started := started; sr_hits := (n + 1)%N; sr_last := P_START_DONE |}
        | _ => run_script sk sched (n + 1)%N st last_ok started rest
        end
      else run_script sk sched n st last_ok started rest
  end.

(* a restart: the connection is new (no abandoned transaction), the disk is what was committed,
   and GraphDatabaseService::start sends a ComputeDailyLog *)
Definition restart (st : wstate) : disk := recompute (w_disk st).
