(* SyncObs.v — the property oracles of C03 / C11 replay what the IMPLEMENTATION showed: the
   observation of a history is, per step, [flag] ++ dump of the peer that step touched.  No proofs,
   and nothing here looks at the model's run: only at the operations of the case and at the
   decoded dumps. *)
From DV Require Export Sync.

(* observed state of every peer while replaying; [seen] = every tombstone a peer has ever shown *)
Record ostate := { o_sys : sys; o_seen : list (list tomb); o_eseen : list (list etomb) }.
Definition oinit (n : N) : ostate :=
  {| o_sys := init_sys n; o_seen := repeat [] (N.to_nat n); o_eseen := repeat [] (N.to_nat n) |}.
Fixpoint set_eseen (k : nat) (ts : list etomb) (l : list (list etomb)) : list (list etomb) :=
  match k, l with
  | O, h :: t => (ts ++ h) :: t
  | S k', h :: t => h :: set_eseen k' ts t
  | _, [] => []
  end.
Definition get_eseen (p : N) (st : ostate) : list etomb := nth (N.to_nat p) (o_eseen st) [].
Fixpoint set_seen (k : nat) (ts : list tomb) (l : list (list tomb)) : list (list tomb) :=
  match k, l with
  | O, h :: t => (ts ++ h) :: t
  | S k', h :: t => h :: set_seen k' ts t
  | _, [] => []
  end.
Definition get_seen (p : N) (st : ostate) : list tomb := nth (N.to_nat p) (o_seen st) [].
Definition observe (p : N) (r : replica) (st : ostate) : ostate :=
  {| o_sys := set p r (o_sys st); o_seen := set_seen (N.to_nat p) (tombs r) (o_seen st);
     o_eseen := set_eseen (N.to_nat p) (etombs r) (o_eseen st) |}.

(* C03, per pull: afterwards the receiver holds, for every row the source held, that version or a
   later one (or a deletion record covering it), and every deletion record the source held *)
Definition holds_at_least (dst : replica) (n : nrow) : bool :=
  match find_node (n_id n) (nodes dst) with
  | Some e => negb (newer n e)
  | None => below_tomb (tombs dst) n
  end.
Definition delivered (src_before dst_after : replica) : bool :=
  forallb (holds_at_least dst_after) (nodes src_before) && tombs_subset (tombs src_before) (tombs dst_after).

(* references, per pull: every reference the source SHOWED is afterwards held by the receiver, or is at
   or below a reference deletion record the receiver holds, or one of its ends is a row the receiver does
   not hold; and the receiver holds every reference deletion record the source held *)
Definition ecovered (ts : list etomb) (e : erow) : bool :=
  existsb (fun t => N.eqb (et_src t) (e_src e) && N.eqb (et_dest t) (e_dest e) && (e_cdate e <=? et_cdate t)) ts.
Definition refs_delivered (src_before dst_after : replica) : bool :=
  forallb (fun e => ref_held dst_after e || ecovered (etombs dst_after) e || negb (visible dst_after e)) (shown_refs src_before)
  && forallb (has_etomb (etombs dst_after)) (etombs src_before).
(* C11 for references, per step: the peer holds no reference at or below a reference deletion record it has ever shown *)
Definition refs_stay_deleted (seen : list etomb) (r : replica) : bool :=
  forallb (fun e => negb (ecovered seen e)) (edges r).

(* C11, per step: no row of the peer is at or below a deletion record that peer has ever shown *)
Definition stays_deleted (seen : list tomb) (r : replica) : bool :=
  forallb (fun n => negb (below_tomb seen n)) (nodes r).

(* a full round: every ordered pair of distinct peers pulled at least once *)
Definition is_pull (o : sop) (d s : N) : bool := match o with Pull d' s' _ => N.eqb d d' && N.eqb s s' | _ => false end.
Definition peers (n : N) : list N := map N.of_nat (seq 0 (N.to_nat n)).
Definition full_round (n : N) (ops : list sop) : bool :=
  forallb (fun d => forallb (fun s => N.eqb d s || existsb (fun o => is_pull o d s) ops) (peers n)) (peers n).
Definition only_pulls (ops : list sop) : bool := forallb (fun o => match o with Pull _ _ _ => true | _ => false end) ops.

(* C03, converged content: a replica does not show a row together with a deletion record that covers it *)
Definition coherent (r : replica) : bool := stays_deleted (tombs r) r.

(* a replica holds no reference at or below a reference deletion record it holds *)
Definition refs_coherent (r : replica) : bool := refs_stay_deleted (etombs r) r.
Fixpoint run_refs_coherent (S : sys) (ops : list sop) : bool :=
  match ops with
  | [] => true
  | o :: rest => let S' := fst (fst (step S o)) in forallb refs_coherent S' && run_refs_coherent S' rest
  end.
