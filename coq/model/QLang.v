(* QLang.v — the T1 fragment of discret's query language after parsing and name resolution
   (query_parser.rs: EntityQuery / EntityParams / FilterParam / OrderBy), the values it talks
   about, and the rows it is evaluated over.  Shared by Eval.v (reference evaluator) and Sql.v
   (model of the SQL compiler).  No proofs here. *)
From DV Require Export Base.
From Coq Require Export Ascii String.
Open Scope list_scope.

(* text = sequence of Unicode scalar values (Rust `char`s) *)
Definition str := list N.

Fixpoint str_eqb (a b : str) : bool :=
  match a, b with
  | [], [] => true
  | x :: a', y :: b' => N.eqb x y && str_eqb a' b'
  | _, _ => false
  end.

Fixpoint str_cmp (a b : str) : comparison :=     (* lexicographic on code points = memcmp on UTF-8 *)
  match a, b with
  | [], [] => Eq
  | [], _ :: _ => Lt
  | _ :: _, [] => Gt
  | x :: a', y :: b' => match N.compare x y with Eq => str_cmp a' b' | c => c end
  end.

Definition lit (s : string) : str := map (fun a => N_of_ascii a) (list_ascii_of_string s).

(* ---- values ----
   VFlt q denotes the binary64 value q/4 (the harness only generates floats that are exact
   multiples of 0.25, so that their order and their decimal text can be computed in Z). *)
Inductive val := VNull | VBool (b : bool) | VInt (z : Z) | VFlt (q : Z) | VStr (s : str).

Definition is_null (v : val) : bool := match v with VNull => true | _ => false end.

(* order of the language's scalar values: null lowest, then numbers (false=0 < true=1, integers
   and floats by numeric value), then text by code points.  Total preorder. *)
Definition num4 (v : val) : option Z :=      (* four times the numeric value *)
  match v with
  | VBool b => Some (if b then 4 else 0)
  | VInt z => Some (4 * z)
  | VFlt q => Some q
  | _ => None
  end.
Definition vcmp (a b : val) : comparison :=
  match a, b with
  | VNull, VNull => Eq
  | VNull, _ => Lt
  | _, VNull => Gt
  | VStr s, VStr t => str_cmp s t
  | VStr _, _ => Gt
  | _, VStr _ => Lt
  | _, _ => match num4 a, num4 b with Some x, Some y => Z.compare x y | _, _ => Eq end
  end.

Definition val_eqb (a b : val) : bool :=       (* structural equality *)
  match a, b with
  | VNull, VNull => true
  | VBool x, VBool y => Bool.eqb x y
  | VInt x, VInt y => Z.eqb x y
  | VFlt x, VFlt y => Z.eqb x y
  | VStr x, VStr y => str_eqb x y
  | _, _ => false
  end.

(* ---- data model of one entity (data_model_parser.rs: Entity / Field) ---- *)
Inductive ftype := TBool | TInt | TFlt | TStr.
Record fdef := { fd_name : str; fd_short : str; fd_type : ftype; fd_nullable : bool; fd_default : option val }.
Record emodel := { em_name : str; em_short : str; em_fields : list fdef }.

(* a stored row: one entry per field of the entity, VNull = absent from _json or JSON null *)
Definition row := list val.
Definition db := list row.        (* in storage order (mdate, rowid) *)

(* ---- queries ---- *)
Inductive cmpop := OEq | ONe | OLt | OLe | OGt | OGe.
Definition test (op : cmpop) (c : comparison) : bool :=
  match op, c with
  | OEq, Eq => true | OEq, _ => false
  | ONe, Eq => false | ONe, _ => true
  | OLt, Lt => true | OLt, _ => false
  | OLe, Gt => false | OLe, _ => true
  | OGt, Gt => true | OGt, _ => false
  | OGe, Lt => false | OGe, _ => true
  end.
Inductive operand := OLit (v : val) | OVar (name : str).
(* a filter / order key names either a field of the entity (whether selected or not) or, when no
   field has that name, the alias of a selected field (FilterParam.is_selected / OrderBy.is_selected) *)
Inductive fref := FByName (i : nat) | FByAlias (k : nat).
Record selfield := { sf_field : nat; sf_alias : option str }.
Record qfilter := { fl_ref : fref; fl_op : cmpop; fl_val : operand }.
Inductive dir := Asc | Desc.
Record okey := { ok_ref : fref; ok_dir : dir }.
Inductive paging := PNone | PAfter (vs : list operand) | PBefore (vs : list operand).
Record query := {
  q_alias : option str;
  q_sel : list selfield;
  q_filters : list qfilter;
  q_order : list okey;
  q_first : operand;               (* OLit (VInt 0) = no limit (EntityParams::new) *)
  q_skip : option operand;
  q_paging : paging }.

Definition params := list (str * val).
Fixpoint lookup (n : str) (ps : params) : option val :=
  match ps with
  | [] => None
  | (k, v) :: t => if str_eqb k n then Some v else lookup n t
  end.

Definition field_def (m : emodel) (i : nat) : option fdef := nth_error (em_fields m) i.
Definition sel_name (m : emodel) (sf : selfield) : str :=
  match sf_alias sf with
  | Some a => a
  | None => match field_def m (sf_field sf) with Some fd => fd_name fd | None => [] end
  end.
Definition ref_field (q : query) (r : fref) : option nat :=
  match r with
  | FByName i => Some i
  | FByAlias k => option_map sf_field (nth_error (q_sel q) k)
  end.
Definition paging_values (p : paging) : list operand :=
  match p with PNone => [] | PAfter vs => vs | PBefore vs => vs end.
Definition is_before (p : paging) : bool := match p with PBefore _ => true | _ => false end.

(* generic helpers *)
Fixpoint skipn' {A} (n : nat) (l : list A) : list A :=
  match n, l with O, _ => l | S k, _ :: t => skipn' k t | _, [] => [] end.
Fixpoint all_some {A} (l : list (option A)) : option (list A) :=
  match l with
  | [] => Some []
  | None :: _ => None
  | Some x :: t => match all_some t with Some r => Some (x :: r) | None => None end
  end.
