(* ConnSystem.v — ONE connection from its creation: the handshake of Handshake.v followed by the
   serving state machine of Outbound.v.  Definitions only; proofs: proofs/ConnSystemP.v.

   The link (peer_connection_service.rs creates, per connection, an EMPTY key holder
   `remote_verifying_key` and `conn_ready = AtomicBool::new(true)`, hands both to
   LocalPeerService::start (-> initialise_connection, the only writer of the key holder) and to
   InboundQueryService::start (-> process_inbound, which only reads them)):
     o_bound  of the serving machine  = the handshake executed an EBind effect
     key      of the serving machine  = the key of that EBind (the empty key otherwise)
     o_ready  of the serving machine  = the handshake executed no ENotReady
     o_allowed                        = empty (RemotePeerHandle is created with an empty set)
   and after the handshake the serving machine never sees OBind again: the events of the connection
   are requests, ready toggles (ValidateHardware), definition entries and definition events. *)
From DV Require Export Run_C19 Run_C08.
Open Scope N_scope.

(* what can happen on the connection once the handshake has run: every oev except OBind *)
Inductive cev :=
| CReady (b : bool)
| CDefine (r : uid) (ev : event)
| CDefChanged (now : Z) (r : uid)
| CQuery (now : Z) (q : query).
Definition oev_of (e : cev) : oev :=
  match e with
  | CReady b => OReady b
  | CDefine r ev => ODefine r ev
  | CDefChanged now r => ODefChanged now r
  | CQuery now q => OQuery now q
  end.

Record conn := { c_ch : N;               (* this connection's challenge (random32()) *)
                 c_local : key;          (* the serving instance's own verifying key *)
                 c_tt : ttype;           (* the token type found for the connection's token *)
                 c_remote : remote;      (* what the remote side answers to ProveIdentity: ANY behaviour *)
                 c_ev : bool;            (* the event channel still accepts messages *)
                 c_inst : inst;          (* the serving instance's content *)
                 c_events : list cev }.  (* what happens afterwards *)

Definition hs_outcome (c : conn) : result * list effect :=
  init_connection (c_ch c) (c_local c) (c_tt c) (c_remote c) (c_ev c).

(* the content of the key holder after the effects (assignments: the last one wins) *)
Fixpoint bound_key (es : list effect) (acc : option key) : option key :=
  match es with
  | [] => acc
  | EBind k :: tl => bound_key tl (Some k)
  | _ :: tl => bound_key tl acc
  end.
Definition hs_key (out : result * list effect) : option key := bound_key (snd out) None.
Definition is_some {A} (o : option A) : bool := match o with Some _ => true | None => false end.

(* THE LINK: the initial serving state and the served key are functions of the handshake outcome.
   `empty` = the scenario index of the empty byte string (content of the holder when nothing is bound) *)
Definition serving_init (i : inst) (out : result * list effect) : ost :=
  {| o_bound := is_some (hs_key out); o_ready := ready_of (snd out); o_allowed := []; o_defs := i_defs i |}.
Definition serving_key (empty : key) (out : result * list effect) : key :=
  match hs_key out with Some k => k | None => empty end.

(* every answer of the connection, one per event *)
Definition conn_answers (empty : key) (c : conn) : list Outbound.answer :=
  orun (c_local c) (serving_key empty (hs_outcome c)) (c_inst c)
       (serving_init (c_inst c) (hs_outcome c)) (map oev_of (c_events c)).

(* the same connection as a case of the C08 harness: the handshake's effects on the two shared cells
   replayed as OBind / OReady in front of the events (oinit starts unbound and not ready) *)
Definition hs_oevs (out : result * list effect) : list oev :=
  (if is_some (hs_key out) then [OBind] else []) ++ [OReady (ready_of (snd out))].
Definition c08_of (empty : key) (c : conn) : c08case :=
  COut (c_local c) (serving_key empty (hs_outcome c)) (c_inst c)
       (hs_oevs (hs_outcome c) ++ map oev_of (c_events c)).

(* the room definitions of the instance just before the n-th event of the connection *)
Definition cdefs_step (defs : list (uid * list event)) (e : cev) : list (uid * list event) :=
  match e with CDefine r ev => define defs r ev | _ => defs end.
Definition defs_before (defs : list (uid * list event)) (evs : list cev) (n : nat) : list (uid * list event) :=
  fold_left cdefs_step (firstn n evs) defs.

(* the n-th event is a request, `a` is its answer, and `ro` is the room of one item of its payload
   (Run_C08.item_rooms: rooms listed, the room of a room-keyed payload, the room of each row / reference) *)
Definition served_item (empty : key) (c : conn) (n : nat) (now : Z) (q : query) (a : Outbound.answer) (ro : option uid) : Prop :=
  nth_error (c_events c) n = Some (CQuery now q) /\
  nth_error (conn_answers empty c) n = Some a /\
  In ro (item_rooms (c_inst c) q (snd a)).

(* (a) the remote proved K on THIS connection's challenge and K is the key the token expects;
   (b) the item belongs to a room R of which K is a member, by the accepted history, at that moment *)
Definition proven_member (c : conn) (n : nat) (now : Z) (ro : option uid) : Prop :=
  exists K ans R,
    c_remote c = Ans ans /\ a_key ans = K /\ proof_ok (c_ch c) ans = true /\ peer_row_ok ans = true /\
    entitled (c_ch c) (c_tt c) (c_remote c) = Some K /\
    ro = Some R /\ member_now (defs_before (i_defs (c_inst c)) (c_events c) n) R K now = true.

(* ---------------------------------------------------------------- witnesses (used by the Examples) *)
Definition cs_inst : inst :=
  {| i_defs := [(1, [EvAdmin 1 100 true; EvGroup 11; EvUser 11 2 100 true]);
                (2, [EvAdmin 1 100 true; EvGroup 21; EvUser 21 3 100 true])];
     i_nodes := [{| n_id := 1; n_room := Some 1 |}; {| n_id := 2; n_room := Some 2 |}];
     i_edges := [{| e_id := 1; e_src := 1; e_cdate := 120 |}] |}.
Definition cs_events : list cev :=
  [CQuery 200 QryRoomList; CQuery 210 (QryNodes 1 [1; 2]); CQuery 215 (QryRoom RLog 1 true);
   CQuery 220 (QryNodes 2 [1; 2]); CQuery 225 (QryRoom RDefinition 2 true)].
(* key 2 signs whatever challenge it is given *)
Definition cs_honest : Handshake.answer :=
  {| a_key := 2; a_sig_by := Some 2; a_sig_over := 0; a_room := false; a_entity_ok := true; a_rowsig_ok := true; a_pubkey_ok := true |}.
(* two connections of a session with nonces 7 and 9: the first is answered live by key 2, on the
   second the remote replays verbatim the answer recorded on the first *)
Definition cs_nonces : list N := [7; 9].
Definition cs_session : list sconn :=
  [{| sc_local := 1; sc_tt := TAllowed 2; sc_remote := SAns cs_honest; sc_ev := true |};
   {| sc_local := 1; sc_tt := TAllowed 2; sc_remote := SReplay 0; sc_ev := true |}].
Definition cs_conn (idx : nat) (ch : N) (ev : bool) (evs : list cev) : conn :=
  {| c_ch := ch; c_local := 1; c_tt := TAllowed 2;
     c_remote := match nth_error cs_session idx with
                 | Some sc => sremote_of cs_nonces cs_session idx sc
                 | None => NoAnswer end;
     c_ev := ev; c_inst := cs_inst; c_events := evs |}.
Definition cs_ok : conn := cs_conn 0 7 true cs_events.          (* honest *)
Definition cs_replayed : conn := cs_conn 1 9 true cs_events.    (* replayed answer *)
(* the proof succeeds but the event channel is closed: key bound, result Ok(false) *)
Definition cs_bound_not_accepted : conn := cs_conn 0 7 false cs_events.
