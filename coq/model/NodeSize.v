(* NodeSize.v — the number both validation paths compare with max_node_size:
   `bincode::serialized_size(node)` of a `Node` (node.rs), bincode 1.x default configuration
   (fixed-width integers, u64 length prefixes, one tag byte per Option, a [u8;16] written as 16
   bytes, `_local_id` skipped).  Which row is measured, on each path:
     local: RoomAuthorisations::validate_mutation signs every row of the request (sign_all) and only
            then validate_entity_mutation measures it: the row INCLUDING the caller's verifying
            key and the signature;
     peer:  validate_node measures the row as received: including key and signature.
   No proofs here. *)
From DV Require Export Base.

(* the variable-length parts of a row *)
Record srow := { sr_room : bool;                (* room_id is Some *)
                 sr_ent_len : N;                (* _entity *)
                 sr_json_len : option N;        (* _json *)
                 sr_bin_len : option N;         (* _binary *)
                 sr_key_len : N;                (* verifying_key *)
                 sr_sig_len : N }.              (* _signature *)

Definition opt_bytes (o : option N) : N := match o with Some l => (1 + 8 + l)%N | None => 1%N end.
Definition node_size (r : srow) : N :=
  (16                                           (* id *)
   + (if sr_room r then 17 else 1)              (* room_id : Option<[u8;16]> *)
   + 8 + 8                                      (* cdate, mdate *)
   + (8 + sr_ent_len r)
   + opt_bytes (sr_json_len r)
   + opt_bytes (sr_bin_len r)
   + (8 + sr_key_len r)
   + (8 + sr_sig_len r))%N.

(* what each path measures for the row `signed` (the row as the caller signed it) *)
Definition local_measured (signed : srow) : N := node_size signed.
Definition peer_measured (signed : srow) : N := node_size signed.
Definition exceeds (max size : N) : bool := N.ltb max size.
