(* RightsSpec.v — the specification side of the authorisation model: what a room history
   GRANTS, defined on the list of definition events by "the entry in force at date d is the one
   with the greatest date not after d, the later listed one on ties".  It does not look at how
   room.rs stores or searches its vectors.  No proofs here. *)
From DV Require Export Rights.

(* entries are listed oldest first (event order) *)
Fixpoint in_force {A} (l : list (Z * A)) (d : Z) : option (Z * A) :=
  match l with
  | [] => None
  | (x, v) :: tl =>
      match in_force tl d with
      | Some (y, w) => if Z.leb x d && Z.ltb y x then Some (x, v) else Some (y, w)
      | None => if Z.leb x d then Some (x, v) else None
      end
  end.
Definition flag_in_force (l : list (Z * bool)) (d : Z) : bool :=
  match in_force l d with Some (_, b) => b | None => false end.

Definition admin_entries (evs : list event) (k : key) : list (Z * bool) :=
  flat_map (fun ev => match ev with EvAdmin k' d b => if N.eqb k' k then [(d, b)] else [] | _ => [] end) evs.
Definition user_entries (evs : list event) (g : uid) (k : key) : list (Z * bool) :=
  flat_map (fun ev => match ev with EvUser g' k' d b => if N.eqb g' g && N.eqb k' k then [(d, b)] else [] | _ => [] end) evs.
Definition uadmin_entries (evs : list event) (g : uid) (k : key) : list (Z * bool) :=
  flat_map (fun ev => match ev with EvUAdmin g' k' d b => if N.eqb g' g && N.eqb k' k then [(d, b)] else [] | _ => [] end) evs.
Definition right_entries (evs : list event) (g : uid) (e : entity) : list (Z * (bool * bool)) :=
  flat_map (fun ev => match ev with EvRight g' e' d s a => if N.eqb g' g && N.eqb e' e then [(d, (s, a))] else [] | _ => [] end) evs.
Definition groups (evs : list event) : list uid :=
  flat_map (fun ev => match ev with EvGroup g => [g] | _ => [] end) evs.

Definition flags_allow (sa : bool * bool) (t : right_t) : bool :=
  match t with MutateSelf => fst sa || snd sa | MutateAll => snd sa end.
Definition right_granted (evs : list event) (g : uid) (e : entity) (d : Z) (t : right_t) : bool :=
  match in_force (right_entries evs g e) d with
  | Some (_, sa) => flags_allow sa t
  | None => match in_force (right_entries evs g wildcard) d with
            | Some (_, sa) => flags_allow sa t
            | None => false
            end
  end.
Definition admin_at (evs : list event) (k : key) (d : Z) : bool := flag_in_force (admin_entries evs k) d.
Definition member_at (evs : list event) (g : uid) (k : key) (d : Z) : bool :=
  flag_in_force (user_entries evs g k) d || flag_in_force (uadmin_entries evs g k) d.
Definition uadmin_at (evs : list event) (g : uid) (k : key) (d : Z) : bool :=
  flag_in_force (uadmin_entries evs g k) d.

(* THE specification of an access decision *)
Definition granted (evs : list event) (k : key) (e : entity) (d : Z) (t : right_t) : bool :=
  existsb (fun g => (admin_at evs k d || member_at evs g k d) && right_granted evs g e d t) (groups evs).
