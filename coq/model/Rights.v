(* Rights.v — model of src/database/room.rs (Room, Authorisation, User, EntityRight).
   Per-key histories of the Rust HashMap<key, Vec<_>> are one list, NEWEST FIRST
   (Rust pushes at the end; `entry.last()` is the first element of that key here, and
   `iter().rev().find(p)` is `find p`).  No proofs here. *)
From DV Require Export Base.

Record user := { u_key : key; u_date : Z; u_enabled : bool }.
Record eright := { r_from : Z; r_ent : entity; r_self : bool; r_all : bool }.
Record auth := { a_id : uid; a_users : list user; a_rights : list eright; a_uadmins : list user }.
Record room := { rm_id : uid; rm_admins : list user; rm_auths : list auth }.

(* EntityRight::new : mutate_all forces mutate_self *)
Definition mk_right (from : Z) (e : entity) (s a : bool) : eright :=
  {| r_from := from; r_ent := e; r_self := s || a; r_all := a |}.

(* val.iter().rev().find(|u| u.date <= date) restricted to the key's vector *)
Definition lookup_user (l : list user) (k : key) (d : Z) : option user :=
  find (fun u => N.eqb (u_key u) k && Z.leb (u_date u) d) l.
Definition last_user (l : list user) (k : key) : option user :=
  find (fun u => N.eqb (u_key u) k) l.
Definition lookup_right (l : list eright) (e : entity) (d : Z) : option eright :=
  find (fun r => N.eqb (r_ent r) e && Z.leb (r_from r) d) l.
Definition last_right (l : list eright) (e : entity) : option eright :=
  find (fun r => N.eqb (r_ent r) e) l.

(* add_user / add_admin_user / add_user_admin : Err(InvalidUserDate) if last.date > user.date *)
Definition add_user (l : list user) (u : user) : option (list user) :=
  match last_user l (u_key u) with
  | Some v => if Z.ltb (u_date u) (u_date v) then None else Some (u :: l)
  | None => Some (u :: l)
  end.
Definition add_right (l : list eright) (r : eright) : option (list eright) :=
  match last_right l (r_ent r) with
  | Some v => if Z.ltb (r_from r) (r_from v) then None else Some (r :: l)
  | None => Some (r :: l)
  end.

Definition enabled_at (l : list user) (k : key) (d : Z) : bool :=
  match lookup_user l k d with Some u => u_enabled u | None => false end.

Definition is_admin (r : room) (k : key) (d : Z) : bool := enabled_at (rm_admins r) k d.
Definition can_admin_users (a : auth) (k : key) (d : Z) : bool := enabled_at (a_uadmins a) k d.
Definition auth_user_valid (a : auth) (k : key) (d : Z) : bool :=
  enabled_at (a_users a) k d || enabled_at (a_uadmins a) k d.

Definition right_flag (r : eright) (t : right_t) : bool :=
  match t with MutateSelf => r_self r | MutateAll => r_all r end.
(* Authorisation::can : the entity's own history first, the wildcard's only if the entity has
   no entry at that date *)
Definition auth_can (a : auth) (e : entity) (d : Z) (t : right_t) : bool :=
  match lookup_right (a_rights a) e d with
  | Some r => right_flag r t
  | None => match lookup_right (a_rights a) wildcard d with
            | Some r => right_flag r t
            | None => false
            end
  end.

Definition can (r : room) (k : key) (e : entity) (d : Z) (t : right_t) : bool :=
  existsb (fun a => (is_admin r k d || auth_user_valid a k d) && auth_can a e d t) (rm_auths r).

Definition is_user_valid_at (r : room) (k : key) (d : Z) : bool :=
  is_admin r k d || existsb (fun a => auth_user_valid a k d) (rm_auths r).

Definition has_key (l : list user) (k : key) : bool := existsb (fun u => N.eqb (u_key u) k) l.
Definition has_user (r : room) (k : key) : bool :=
  has_key (rm_admins r) k || existsb (fun a => has_key (a_users a) k || has_key (a_uadmins a) k) (rm_auths r).

(* ---- histories of definition events, applied with the add_* functions ---- *)
Inductive event :=
| EvGroup  (g : uid)
| EvAdmin  (k : key) (d : Z) (b : bool)
| EvUser   (g : uid) (k : key) (d : Z) (b : bool)
| EvUAdmin (g : uid) (k : key) (d : Z) (b : bool)
| EvRight  (g : uid) (e : entity) (d : Z) (s a : bool).

Definition find_auth (r : room) (g : uid) : option auth :=
  find (fun a => N.eqb (a_id a) g) (rm_auths r).
Definition set_auth (r : room) (a' : auth) : room :=
  {| rm_id := rm_id r; rm_admins := rm_admins r;
     rm_auths := map (fun a => if N.eqb (a_id a) (a_id a') then a' else a) (rm_auths r) |}.

(* one event; None = the real add_* call returns an error (or the group is unknown/duplicate) *)
Definition apply_event (r : room) (ev : event) : option room :=
  match ev with
  | EvGroup g =>
      match find_auth r g with
      | Some _ => None
      | None => Some {| rm_id := rm_id r; rm_admins := rm_admins r;
                        rm_auths := rm_auths r ++ [{| a_id := g; a_users := []; a_rights := []; a_uadmins := [] |}] |}
      end
  | EvAdmin k d b =>
      match add_user (rm_admins r) {| u_key := k; u_date := d; u_enabled := b |} with
      | Some l => Some {| rm_id := rm_id r; rm_admins := l; rm_auths := rm_auths r |}
      | None => None
      end
  | EvUser g k d b =>
      match find_auth r g with
      | Some a => match add_user (a_users a) {| u_key := k; u_date := d; u_enabled := b |} with
                  | Some l => Some (set_auth r {| a_id := a_id a; a_users := l; a_rights := a_rights a; a_uadmins := a_uadmins a |})
                  | None => None end
      | None => None
      end
  | EvUAdmin g k d b =>
      match find_auth r g with
      | Some a => match add_user (a_uadmins a) {| u_key := k; u_date := d; u_enabled := b |} with
                  | Some l => Some (set_auth r {| a_id := a_id a; a_users := a_users a; a_rights := a_rights a; a_uadmins := l |})
                  | None => None end
      | None => None
      end
  | EvRight g e d s a0 =>
      match find_auth r g with
      | Some a => match add_right (a_rights a) (mk_right d e s a0) with
                  | Some l => Some (set_auth r {| a_id := a_id a; a_users := a_users a; a_rights := l; a_uadmins := a_uadmins a |})
                  | None => None end
      | None => None
      end
  end.

(* events that the real code refuses are skipped (the harness skips them as well and
   reports which were refused) *)
Fixpoint build_from (r : room) (evs : list event) : room * list bool :=
  match evs with
  | [] => (r, [])
  | ev :: tl =>
      match apply_event r ev with
      | Some r' => let (rf, oks) := build_from r' tl in (rf, true :: oks)
      | None => let (rf, oks) := build_from r tl in (rf, false :: oks)
      end
  end.
Definition empty_room (id : uid) : room := {| rm_id := id; rm_admins := []; rm_auths := [] |}.
Definition build (id : uid) (evs : list event) : room := fst (build_from (empty_room id) evs).
Definition accepted (id : uid) (evs : list event) : list event :=
  map fst (filter snd (combine evs (snd (build_from (empty_room id) evs)))).
