(* Outbound.v — model of the serving side of one connection:
     InboundQueryService::process_inbound      (src/synchronisation/peer_outbound_service.rs)
     RemotePeerHandle::add_allowed_room, reached from LocalPeerService::process_local_event under
     `room.has_user(&key)`                      (src/synchronisation/peer_inbound_service.rs)
   as a state machine over (remote key bound?, ready flag, allowed rooms).

   The per-request behaviour is NOT written by hand: it is an interpreter of the table that
   tools/extract_outbound.py regenerates from the source on every run (gen/OutboundTable.v): which
   guard stands in front of which data source, whether a success answer can be sent outside the
   guard, whether the data source filters rows by the room.  As the code is.  No proofs here. *)
From DV Require Export Rights OutboundTable.
Open Scope N_scope.

(* ---- the serving instance, as far as the requests can see it ---- *)
Record nrow := { n_id : N; n_room : option uid }.                 (* a row of _node *)
Record erow := { e_id : N; e_src : N; e_cdate : Z }.              (* a row of _edge; its room is its source row's *)
Record inst := { i_defs : list (uid * list event);                (* room definitions: entries in the order they were added *)
                 i_nodes : list nrow; i_edges : list erow }.

Definition memU (x : uid) (l : list uid) : bool := existsb (N.eqb x) l.
Definition addU (x : uid) (l : list uid) : list uid := if memU x l then l else l ++ [x].

Definition def_of (defs : list (uid * list event)) (r : uid) : option (list event) :=
  match find (fun d => N.eqb (fst d) r) defs with Some d => Some (snd d) | None => None end.
(* AuthorisationService keeps one Room per definition, built with the add_* functions *)
Definition room_of (d : uid * list event) : room := build (fst d) (snd d).
(* RoomAuthorisations::rooms_for_peer(key, date) *)
Definition rooms_for_peer (defs : list (uid * list event)) (k : key) (now : Z) : list uid :=
  map fst (filter (fun d => is_user_valid_at (room_of d) k now) defs).
Definition room_has_user (defs : list (uid * list event)) (r : uid) (k : key) : bool :=
  match def_of defs r with Some evs => has_user (build r evs) k | None => false end.
Definition room_valid_now (defs : list (uid * list event)) (r : uid) (k : key) (now : Z) : bool :=
  match def_of defs r with Some evs => is_user_valid_at (build r evs) k now | None => false end.
(* a definition entry is added on the serving instance (a refused entry leaves the Room unchanged:
   `build` skips it) *)
Fixpoint define (defs : list (uid * list event)) (r : uid) (ev : event) : list (uid * list event) :=
  match defs with
  | [] => []
  | d :: tl => if N.eqb (fst d) r then (fst d, snd d ++ [ev]) :: tl else d :: define tl r ev
  end.

Definition node_room (nodes : list nrow) (id : N) : option uid :=
  match find (fun n => N.eqb (n_id n) id) nodes with Some n => n_room n | None => None end.
Definition opt_is (o : option uid) (r : uid) : bool := match o with Some x => N.eqb x r | None => false end.

(* ---- requests ---- *)
(* the request kinds whose first argument is a room and whose data source is keyed by that room *)
Inductive rk := RDefinition | RNode | RLog | RLogAt | REdgeDeletionLog | RNodeDeletionLog | RDailyNodes | RPeers.
Definition rk_kind (k : rk) : qkind :=
  match k with
  | RDefinition => QRoomDefinition | RNode => QRoomNode | RLog => QRoomLog | RLogAt => QRoomLogAt
  | REdgeDeletionLog => QEdgeDeletionLog | RNodeDeletionLog => QNodeDeletionLog
  | RDailyNodes => QRoomDailyNodes | RPeers => QPeersForRoom
  end.

Inductive query :=
| QryProveIdentity
| QryHardwareFingerprint
| QryRoomList
| QryRoom (k : rk) (r : uid) (nonempty : bool)   (* nonempty: the data source has something for (r, the other arguments) *)
| QryNodes (r : uid) (ids : list N)
| QryEdges (r : uid) (l : list (N * Z)).
Definition kind_of (q : query) : qkind :=
  match q with
  | QryProveIdentity => QProveIdentity | QryHardwareFingerprint => QHardwareFingerprint | QryRoomList => QRoomList
  | QryRoom k _ _ => rk_kind k | QryNodes _ _ => QNodes | QryEdges _ _ => QEdges
  end.
Definition room_arg (q : query) : option uid :=
  match q with QryRoom _ r _ | QryNodes r _ | QryEdges r _ => Some r | _ => None end.

(* ---- the connection ---- *)
Record ost := { o_bound : bool;          (* remote_verifying_key is non-empty (set once, by the handshake) *)
                o_ready : bool;          (* conn_ready *)
                o_allowed : list uid;    (* RemotePeerHandle::allowed_room *)
                o_defs : list (uid * list event) }.   (* the instance's room definitions at this moment *)

Inductive oev :=
| OBind                                  (* the handshake stores the remote key *)
| OReady (b : bool)
| ODefine (r : uid) (ev : event)         (* the instance's definition of room r gains an entry *)
| ODefChanged (now : Z) (r : uid)        (* the connection handles LocalEvent::RoomDefinitionChanged(room r) *)
| OQuery (now : Z) (q : query).

(* answer summary: code 0 = nothing sent, 1 = refused (Error::Authorisation), 2 = served (success),
   4 = process_inbound returned Err;  items = what the payload contains (rooms listed by RoomList,
   the room whose data a room-keyed payload carries, row indices for Nodes / Edges) *)
Definition answer := (Z * list N)%type.

(* what the data source returns once the guard is passed *)
Definition serve (self key : key) (i : inst) (s : ost) (now : Z) (q : query) : answer * list uid :=
  let a := arm_of (kind_of q) in
  match q with
  | QryProveIdentity | QryHardwareFingerprint => ((2%Z, []), o_allowed s)
  | QryRoomList =>
      let l := rooms_for_peer (o_defs s) key now in
      ((2%Z, l),
       match a_inserts a with
       | InsRoomListWhenEmpty => match o_allowed s with [] => fold_left (fun acc r => addU r acc) l [] | al => al end
       | InsNone => o_allowed s
       end)
  | QryRoom k r nonempty => ((2%Z, if nonempty then [r] else []), o_allowed s)
  | QryNodes r ids =>
      ((2%Z, map n_id (filter (fun n => memU (n_id n) ids &&
                                       (if source_room_filtered (a_source a) then opt_is (n_room n) r else true)) (i_nodes i))),
       o_allowed s)
  | QryEdges r l =>
      ((2%Z, map e_id (filter (fun e => existsb (fun p => N.eqb (fst p) (e_src e) && Z.leb (snd p) (e_cdate e)) l &&
                                       (if source_room_filtered (a_source a) then opt_is (node_room (i_nodes i) (e_src e)) r else true))
                              (i_edges i))),
       o_allowed s)
  end.

Definition set_allowed (s : ost) (al : list uid) : ost :=
  {| o_bound := o_bound s; o_ready := o_ready s; o_allowed := al; o_defs := o_defs s |}.

(* process_inbound, arm by arm through the generated table *)
Definition do_query (self key : key) (i : inst) (s : ost) (now : Z) (q : query) : ost * answer :=
  let a := arm_of (kind_of q) in
  let served := let '(ans, al) := serve self key i s now q in (set_allowed s al, ans) in
  match a_guard a with
  | GNone => served
  | GKeySelf =>
      if o_bound s then (if N.eqb key self then served else (s, (4%Z, []))) else (s, (0%Z, []))
  | GKeyReady =>
      if o_bound s && o_ready s then served else (s, (0%Z, []))
  | GAllowedRoom =>
      let ok := match room_arg q with Some r => memU r (o_allowed s) | None => false end in
      if ok || a_unguarded_success a then served
      else if a_refuses_otherwise a then (s, (1%Z, [])) else (s, (0%Z, []))
  end.

Definition ostep (self key : key) (i : inst) (s : ost) (e : oev) : ost * answer :=
  match e with
  | OBind => ({| o_bound := true; o_ready := o_ready s; o_allowed := o_allowed s; o_defs := o_defs s |}, (0%Z, []))
  | OReady b => ({| o_bound := o_bound s; o_ready := b; o_allowed := o_allowed s; o_defs := o_defs s |}, (0%Z, []))
  | ODefine r ev =>
      (* answer code: was the entry accepted by the add_* function? *)
      let ok := match def_of (o_defs s) r with
                | Some evs => match apply_event (build r evs) ev with Some _ => 1%Z | None => 0%Z end
                | None => 0%Z end in
      ({| o_bound := o_bound s; o_ready := o_ready s; o_allowed := o_allowed s; o_defs := define (o_defs s) r ev |}, (ok, []))
  | ODefChanged _ r =>
      (* if room.has_user(&key) { add_allowed_room(room.id) }   — an empty key has no entry *)
      if o_bound s && room_has_user (o_defs s) r key
      then (set_allowed s (addU r (o_allowed s)), (0%Z, []))
      else (s, (0%Z, []))
  | OQuery now q => do_query self key i s now q
  end.

Definition oinit (i : inst) : ost := {| o_bound := false; o_ready := false; o_allowed := []; o_defs := i_defs i |}.

Fixpoint orun (self key : key) (i : inst) (s : ost) (es : list oev) : list answer :=
  match es with
  | [] => []
  | e :: tl => let '(s', a) := ostep self key i s e in a :: orun self key i s' tl
  end.
Fixpoint ostate (self key : key) (i : inst) (s : ost) (es : list oev) : ost :=
  match es with
  | [] => s
  | e :: tl => ostate self key i (fst (ostep self key i s e)) tl
  end.
