(* Inputs.v — executable model of the input-handling logic that decides C14
   ("no input crashes, wedges or confuses an instance").  No proofs here.

   A Gallina function is total and cannot panic: every Rust `unwrap()` / index / `unreachable!`
   that the mirrored code contains is an explicit third outcome [OPanic] here, so that
   "this unwrap is never reached" is a statement about the model that can be proved or refuted.

   Mirrors (as the code is at the current commit, i.e. after the fixes 8ac9d00, b4e6381, 601cdc3;
   remaining defects included):
     A. database/query_language/parameter.rs  Variables::validate_params
        database/query_language/data_model_parser.rs  Field::get_variable_type
        database/query_language/mutation_parser.rs  parse_entity_internals (value typing),
                                                    fill_not_nullable
        database/mutation_query.rs  MutationQuery::execute / create_node_to_mutate /
                                    get_mutate_query (scalar and Json fields, l.269-300)
        database/sqlite_database.rs DatabaseReader (pool of reader threads; a panic removes one)
     B. security.rs  import_verifying_key, Ed2519VerifyingKey::verify
        database/node.rs Node::verify, NodeDeletionEntry::verify; database/edge.rs Edge::verify,
        EdgeDeletionEntry::verify; signature_verification_service.rs (pool of verifier threads)
     C. database/query_language/query_parser.rs  parse / parse_entity / parse_entity_internals
        (named fields, json selectors, sub-entity selections, search)
        database/query.rs  SingleQuery::build, get_entity_query, get_fields, get_exists_query,
        get_sub_group_array, get_sub_entity_query  (statement skeleton: SELECT keywords,
        parentheses, positions where an identifier is spliced unquoted as a table alias)  *)
From DV Require Export Base.
From Coq Require Import String Ascii.

Inductive outcome := OOk | OErr | OPanic.
Definition outcome_code (o : outcome) : Z := match o with OOk => 0 | OErr => 1 | OPanic => 2 end.
Definition outcome_eqb (a b : outcome) : bool :=
  match a, b with OOk, OOk | OErr, OErr | OPanic, OPanic => true | _, _ => false end.

(* ------------------------------------------------------------------------------------------ *)
(** * A. parameters and mutation fields *)

Inductive ftype := FBool | FFloat | FBase64 | FInt | FString | FJson.
Inductive nullab := NotNull | Nullable | HasDefault.   (* grammar: (nullable | default)? *)
(* the fields a mutation can name: a declared scalar field, or the system fields id / room_id *)
Inductive fkind := FUser (t : ftype) (n : nullab) | FSysId | FSysRoomId.

Definition ftype_eqb (a b : ftype) : bool :=
  match a, b with
  | FBool, FBool | FFloat, FFloat | FBase64, FBase64 | FInt, FInt | FString, FString | FJson, FJson => true
  | _, _ => false
  end.

(* Field.nullable *)
Definition field_nullable (k : fkind) : bool :=
  match k with FUser _ Nullable => true | FUser _ _ => false | FSysId => false | FSysRoomId => true end.
(* Field.field_type *)
Definition field_type (k : fkind) : ftype :=
  match k with FUser t _ => t | FSysId => FBase64 | FSysRoomId => FBase64 end.
Definition field_is_system (k : fkind) : bool :=
  match k with FUser _ _ => false | _ => true end.

Inductive vtype :=
| VtBool (n : bool) | VtFloat (n : bool) | VtBase64 (n : bool) | VtJson (n : bool)
| VtInt (n : bool) | VtString (n : bool) | VtBinary (n : bool) | VtInvalid.

Definition vtype_eqb (a b : vtype) : bool :=
  match a, b with
  | VtBool x, VtBool y | VtFloat x, VtFloat y | VtBase64 x, VtBase64 y | VtJson x, VtJson y
  | VtInt x, VtInt y | VtString x, VtString y | VtBinary x, VtBinary y => Bool.eqb x y
  | VtInvalid, VtInvalid => true
  | _, _ => false
  end.

(* Field::get_variable_type — note: a Json field is given the *String* variable type *)
Definition variable_type (k : fkind) : vtype :=
  let n := field_nullable k in
  match field_type k with
  | FBase64 => if field_is_system k then VtBinary n else VtBase64 n
  | FBool => VtBool n
  | FInt => VtInt n
  | FFloat => VtFloat n
  | FString | FJson => VtString n
  end.

(* what the code looks at in a string: is it base64, is it JSON, and - for id / room_id -
   what the decoded bytes are (not 16 bytes / 16 bytes naming nothing / naming an existing
   row of the entity resp. a room the caller may write) *)
Inductive uidc := UNot16 | UUnknown | UKnown.
Record strc := { s_b64 : bool; s_json : bool; s_uid : uidc }.

Inductive pval :=
| PBool | PInt | PFloat (finite : bool) | PStr (s : strc) | PBin (s : strc) | PNull.

(* one arm of Variables::validate_params; None = Err(..); Some p' = the value put back *)
Definition validate_one (vt : vtype) (p : pval) : option pval :=
  match vt with
  | VtBool n => match p with PBool => Some p | PNull => if n then Some p else None | _ => None end
  | VtString n => match p with PStr _ => Some p | PNull => if n then Some p else None | _ => None end
  | VtInt n => match p with PInt => Some p | PNull => if n then Some p else None | _ => None end
  | VtFloat n => match p with PFloat _ | PInt => Some p | PNull => if n then Some p else None | _ => None end
  | VtBase64 n => match p with
                  | PStr s => if s_b64 s then Some p else None
                  | PNull => if n then Some p else None
                  | _ => None end
  | VtBinary n => match p with
                  | PBin s => if s_b64 s then Some p else None
                  | PStr s => if s_b64 s then Some (PBin s) else None
                  | PNull => if n then Some p else None
                  | _ => None end
  | VtJson n => match p with
                | PStr s => if s_json s then Some p else None
                | PNull => if n then Some p else None
                | _ => None end
  | VtInvalid => Some p
  end.

Definition params := list (N * pval).
Definition vars := list (N * vtype).

Fixpoint lookup {A} (x : N) (l : list (N * A)) : option A :=
  match l with
  | [] => None
  | (y, a) :: r => if N.eqb x y then Some a else lookup x r
  end.
Definition remove {A} (x : N) (l : list (N * A)) : list (N * A) :=
  filter (fun p => negb (N.eqb x (fst p))) l.

(* Variables::validate_params: for every declared variable (hash-map order = some order of a
   duplicate-free list) remove the parameter, check it, put (possibly converted) value back *)
Fixpoint validate_params (vs : vars) (ps : params) : option params :=
  match vs with
  | [] => Some ps
  | (x, vt) :: r =>
      match lookup x ps with
      | None => None                                  (* MissingParameter *)
      | Some p => match validate_one vt p with
                  | None => None
                  | Some p' => validate_params r ((x, p') :: remove x ps)
                  end
      end
  end.

(* Variables::add: same name twice is fine if the type is the same *)
Definition vars_add (vs : vars) (x : N) (vt : vtype) : option vars :=
  match lookup x vs with
  | Some vt' => if vtype_eqb vt' vt then Some vs else None   (* ConflictingVariableType *)
  | None => Some (vs ++ [(x, vt)])
  end.

(* value of a mutation field as the grammar delivers it *)
Inductive mvalue :=
| MVar (x : N) | MNull | MBoolLit | MIntLit (fits_i64 : bool) | MFloatLit (finite : bool) | MStrLit (s : strc).
(* MutationFieldValue of a scalar field *)
Inductive mfv := FVar (x : N) | FVal (p : pval).

(* mutation_parser.rs parse_*_type: typing of one `name : value`; None = Err *)
Definition parse_value (k : fkind) (v : mvalue) (vs : vars) : option (mfv * vars) :=
  match v with
  | MVar x => match vars_add vs x (variable_type k) with
              | Some vs' => Some (FVar x, vs')
              | None => None end
  | MNull => if field_nullable k then Some (FVal PNull, vs) else None          (* NotNullable *)
  | MBoolLit => match field_type k with FBool => Some (FVal PBool, vs) | _ => None end
  | MFloatLit fin => match field_type k with FFloat => Some (FVal (PFloat fin), vs) | _ => None end
  | MIntLit fits => match field_type k with
                    | FFloat => Some (FVal (PFloat true), vs)
                    | FInt => if fits then Some (FVal PInt, vs) else None     (* ParseIntError *)
                    | _ => None end
  | MStrLit s => match field_type k with
                 | FString => Some (FVal (PStr s), vs)
                 | FBase64 => if s_b64 s then Some (FVal (PStr s), vs) else None
                 | FJson => if s_json s then Some (FVal (PStr s), vs) else None
                 | _ => None end
  end.

(* a mutation `mutate { E { f_i : v_i ... } }` on an entity whose declared scalar fields are
   [m_decl]; a field is named by its index in m_decl, or is id / room_id *)
Inductive fref := RField (i : nat) | RId | RRoomId.
Definition fref_eqb (a b : fref) : bool :=
  match a, b with
  | RField i, RField j => Nat.eqb i j
  | RId, RId | RRoomId, RRoomId => true
  | _, _ => false
  end.
Record mutation := { m_decl : list (ftype * nullab); m_vals : list (fref * mvalue); m_params : params }.

Definition fkind_of (decl : list (ftype * nullab)) (r : fref) : option fkind :=
  match r with
  | RField i => match nth_error decl i with Some (t, n) => Some (FUser t n) | None => None end
  | RId => Some FSysId
  | RRoomId => Some FSysRoomId
  end.

(* parse_entity_internals over the fields, in text order; EntityMutation::add_field refuses duplicates *)
Fixpoint parse_fields (decl : list (ftype * nullab)) (fs : list (fref * mvalue))
         (acc : list (fref * fkind * mfv)) (vs : vars) : option (list (fref * fkind * mfv) * vars) :=
  match fs with
  | [] => Some (acc, vs)
  | (r, v) :: rest =>
      match fkind_of decl r with
      | None => None                                            (* unknown field *)
      | Some k =>
          match parse_value k v vs with
          | None => None
          | Some (fv, vs') =>
              if existsb (fun e => fref_eqb (fst (fst e)) r) acc then None     (* DuplicatedField *)
              else parse_fields decl rest (acc ++ [(r, k, fv)]) vs'
          end
      end
  end.

(* a default value accepted by the data-model parser for the type *)
Definition default_value (t : ftype) : pval :=
  match t with
  | FBool => PBool | FFloat => PFloat true | FInt => PInt
  | FString => PStr {| s_b64 := false; s_json := false; s_uid := UNot16 |}
  | FBase64 => PStr {| s_b64 := true; s_json := false; s_uid := UNot16 |}
  | FJson => PStr {| s_b64 := false; s_json := true; s_uid := UNot16 |}
  end.

Definition has_ref (r : fref) (l : list (fref * fkind * mfv)) : bool :=
  existsb (fun e => fref_eqb (fst (fst e)) r) l.

(* fill_not_nullable: only when the mutation creates the row (no id) *)
Fixpoint fill_defaults (decl : list (ftype * nullab)) (i : nat) (l : list (fref * fkind * mfv))
  : option (list (fref * fkind * mfv)) :=
  match decl with
  | [] => Some l
  | (t, n) :: rest =>
      if has_ref (RField i) l then fill_defaults rest (S i) l
      else match n with
           | Nullable => fill_defaults rest (S i) l
           | HasDefault => fill_defaults rest (S i) (l ++ [(RField i, FUser t n, FVal (default_value t))])
           | NotNull => None                                     (* MissingUpdateField *)
           end
  end.

Definition parse_mutation (m : mutation) : option (list (fref * fkind * mfv) * vars) :=
  match parse_fields (m_decl m) (m_vals m) [] [] with
  | None => None
  | Some (l, vs) =>
      if has_ref RId l then Some (l, vs)
      else match fill_defaults (m_decl m) 0 l with
           | Some l' => Some (l', vs)
           | None => None
           end
  end.

Definition value_of (fv : mfv) (ps : params) : option pval :=
  match fv with FVar x => lookup x ps | FVal p => Some p end.

(* ParamValue::as_string *)
Definition as_string (p : pval) : option strc :=
  match p with PStr s | PBin s => Some s | _ => None end.

(* MutationQuery::base64_field + uid_from + row / room lookup, for id and room_id *)
Definition uid_field (fv : mfv) (ps : params) : outcome :=
  match value_of fv ps with
  | None => OPanic                                   (* parameters.params.get(var).unwrap() *)
  | Some p => match as_string p with
              | None => OErr                         (* InvalidId *)
              | Some s => if negb (s_b64 s) then OErr
                          else match s_uid s with UKnown => OOk | _ => OErr end
              end
  end.

(* get_mutate_query l.269-300, one scalar / Json field *)
Definition assemble_field (k : fkind) (fv : mfv) (ps : params) : outcome :=
  match value_of fv ps with
  | None => OPanic                                   (* parameters.params.get(v).unwrap() *)
  | Some p =>
      match field_type k with
      | FJson => match as_string p with
                 | None => OOk                       (* a nullable Json field can be set to null: Value::Null *)
                 | Some s => if s_json s then OOk else OErr    (* serde_json::from_str(..)? *)
                 end
      | _ => match p with PFloat false => OErr | _ => OOk end   (* as_serde_json_value: InvalidFloat *)
      end
  end.

(* first non-Ok outcome, in list order (the code iterates a hash map: when an Err field and a
   Panic field are both present the real order is not determined; the generator never mixes them) *)
Fixpoint first_bad (l : list outcome) : outcome :=
  match l with
  | [] => OOk
  | OOk :: r => first_bad r
  | o :: _ => o
  end.

Definition is_sys_ref (r : fref) : bool := match r with RField _ => false | _ => true end.

(* MutationQuery::execute on a reader thread *)
Definition execute_mutation (l : list (fref * fkind * mfv)) (vs : vars) (ps : params) : outcome :=
  match validate_params vs ps with
  | None => OErr
  | Some ps' =>
      let sys := map (fun e => uid_field (snd e) ps')
                     (filter (fun e => match fst (fst e) with RRoomId => true | _ => false end) l
                      ++ filter (fun e => match fst (fst e) with RId => true | _ => false end) l) in
      match first_bad sys with
      | OOk => first_bad (map (fun e => assemble_field (snd (fst e)) (snd e) ps')
                              (filter (fun e => negb (is_sys_ref (fst (fst e)))) l))
      | o => o
      end
  end.

(* the whole request: parse on the database task (errors only), then execute on a reader thread *)
Definition mutate_outcome (m : mutation) : outcome :=
  match parse_mutation m with
  | None => OErr
  | Some (l, vs) => execute_mutation l vs (m_params m)
  end.

(* a pool of threads fed by one shared channel (DatabaseReader, SignatureVerificationService):
   a panic removes the thread that ran the request; with no thread left every request fails
   and the probe is not answered.  Per step: [outcome code; probe answered] *)
Definition pool_step (live : N) (o : outcome) : N * list Z :=
  if N.eqb live 0 then (0%N, [1; 0])
  else match o with
       | OPanic => (N.pred live, [2; zb (negb (N.eqb (N.pred live) 0))])
       | _ => (live, [outcome_code o; 1])
       end.
Fixpoint pool_run (live : N) (os : list outcome) : list Z :=
  match os with
  | [] => []
  | o :: r => let '(live', obs) := pool_step live o in obs ++ pool_run live' r
  end.
Fixpoint pool_live (live : N) (os : list outcome) : N :=
  match os with
  | [] => live
  | o :: r => pool_live (fst (pool_step live o)) r
  end.
Definition default_parallelism : N := 4.     (* Configuration::default().parallelism *)

(* ------------------------------------------------------------------------------------------ *)
(** * B. keys, signatures, rows *)

Definition key_type_ed25519 : N := 1.

(* security::import_verifying_key, checks in the order of the code: the length, then byte 0 *)
Definition import_key (k : list N) (point_ok : bool) : outcome :=
  if negb (Nat.eqb (List.length k) 33) then OErr             (* InvalidKeyLenght *)
  else match k with
       | [] => OPanic                                        (* veriying_key[0] : not reachable, the length is 33 *)
       | b0 :: _ =>
           if negb (N.eqb b0 key_type_ed25519) then OErr      (* InvalidKeyType *)
           else if point_ok then OOk else OErr                (* VerifyingKey::from_bytes *)
       end.

(* Ed2519VerifyingKey::verify *)
Definition verify_sig (sig_len : N) (sig_ok : bool) : outcome :=
  if negb (N.eqb sig_len 64) then OErr else if sig_ok then OOk else OErr.

Definition key_then_sig (k : list N) (point_ok : bool) (sig_len : N) (sig_ok : bool) : outcome :=
  match import_key k point_ok with
  | OOk => verify_sig sig_len sig_ok
  | o => o
  end.

Inductive jsonc := JNone | JInvalid | JNotObject | JObject.

Inductive row :=
| RowNode (entity_empty : bool) (json : jsonc) (k : list N) (point_ok : bool) (sig_len : N) (sig_ok : bool)
| RowEdge (src_entity_len label_len : N) (k : list N) (point_ok : bool) (sig_len : N) (sig_ok : bool)
| RowDeletion (k : list N) (point_ok : bool) (sig_len : N) (sig_ok : bool).   (* Node/EdgeDeletionEntry *)

Definition max_edge_length : N := 1024.
Definition nlen {A} (l : list A) : N := N.of_nat (List.length l).

(* Node::verify, Edge::verify, NodeDeletionEntry::verify, EdgeDeletionEntry::verify *)
Definition verify_row (r : row) : outcome :=
  match r with
  | RowNode ee js k pok sl sok =>
      if ee then OErr
      else match js with
           | JInvalid | JNotObject => OErr
           | JNone | JObject => key_then_sig k pok sl sok
           end
  | RowEdge el ll k pok sl sok =>
      if N.ltb max_edge_length (16 + el + ll + 16 + 8 + nlen k + sl)%N then OErr
      else if N.eqb el 0 then OErr
      else if N.eqb ll 0 then OErr
      else key_then_sig k pok sl sok
  | RowDeletion k pok sl sok => key_then_sig k pok sl sok
  end.

(* ------------------------------------------------------------------------------------------ *)
(** * C. queries: resolution against the data model and the emitted statement skeleton *)

Definition ident := list N.                   (* Unicode code points *)
Definition ident_eqb (a b : ident) : bool := list_eqb N.eqb a b.

Definition cp (s : string) : ident := map (fun a => N_of_ascii a) (list_ascii_of_string s).


(* data model, as far as queries need it *)
Inductive dkind :=
| KScalar (json : bool) (dflt : bool)                  (* user scalar field; json = type Json *)
| KRef (arr : bool) (target : nat) (nullable : bool).  (* [E] / E ; target = index in the model *)
Record dentity := { de_ns : ident; de_name : ident; de_fields : list (ident * dkind) }.
Definition dmodel := list dentity.

(* system fields every entity answers to (SYSTEM_FIELDS); true = Base64 (QueryFieldType::Binary) *)
Definition sys_scalar_fields : list (ident * bool) :=
  [(cp "id", true); (cp "room_id", true); (cp "cdate", false); (cp "mdate", false);
   (cp "_entity", false); (cp "_json", false); (cp "_binary", true);
   (cp "verifying_key", true); (cp "_signature", true)]%string.
Definition sys_entity_fields : list ident := [cp "sys_peer"; cp "sys_room"]%string.

Fixpoint assoc {A} (x : ident) (l : list (ident * A)) : option A :=
  match l with
  | [] => None
  | (y, a) :: r => if ident_eqb x y then Some a else assoc x r
  end.

Inductive fres := FUserF (k : dkind) | FSysScalar (binary : bool) | FSysEntity.
(* Entity::get_field *)
Definition get_field (e : dentity) (name : ident) : option fres :=
  match assoc name (de_fields e) with
  | Some k => Some (FUserF k)
  | None => match assoc name sys_scalar_fields with
            | Some b => Some (FSysScalar b)
            | None => if existsb (ident_eqb name) sys_entity_fields then Some FSysEntity else None
            end
  end.

Definition full_name (ns name : ident) : ident :=
  match ns with [] => name | _ => ns ++ [46%N] ++ name end.
(* EntityQuery::sql_aliased_name: '.' -> '$' *)
Definition dollar (a : ident) : ident := map (fun c => if N.eqb c 46 then 36%N else c) a.

Definition find_entity (dm : dmodel) (ns name : ident) : option dentity :=
  find (fun e => ident_eqb (de_ns e) ns && ident_eqb (de_name e) name) dm.

(* request, as the grammar delivers it *)
Inductive rfield :=
| RNamed (alias : option ident) (name : ident)
| RJson (alias : ident) (name : ident)                       (* alias : name->selector *)
| RSub (alias : option ident) (name : ident) (subs : list rfield).
Record rentity := { re_alias : option ident; re_ns : ident; re_name : ident;
                    re_search : option (list N); re_fields : list rfield }.

(* resolved selection (EntityQuery / QueryField), what query.rs compiles *)
Inductive cfield :=
| CScalar (sys : bool) (binary : bool) (dflt : bool)    (* for a user field the 2nd flag says: its type is Json *)
| CJsonSel (dflt : bool)
| CSub (key : ident) (arr : bool) (nullable : bool) (subs : list cfield).
Record centity := { ce_alias : ident; ce_search : option (list N); ce_fields : list cfield }.

Definition starts_underscore (a : ident) : bool := match a with 95%N :: _ => true | _ => false end.
Definition field_key (alias : option ident) (name : ident) : ident :=
  match alias with Some a => a | None => name end.
(* alias checks of named fields and sub-entity selections *)
Definition alias_admissible (e : dentity) (alias : option ident) : bool :=
  match alias with
  | None => true
  | Some a => negb (starts_underscore a) && match get_field e a with Some _ => false | None => true end
  end.

(* parse_entity_internals, one field: the key under which it is selected and its compiled form.
   (nested recursion through the list of sub-fields: inner fix = resolve_list below) *)
Fixpoint resolve_field (dm : dmodel) (e : dentity) (f : rfield) {struct f} : option (ident * cfield) :=
  match f with
  | RNamed alias name =>
      if negb (alias_admissible e alias) then None
      else match get_field e name with
           | Some (FUserF (KScalar js d)) => Some (field_key alias name, CScalar false js d)
           | Some (FSysScalar b) => Some (field_key alias name, CScalar true b false)
           | _ => None                                   (* unknown, or entity field without { } *)
           end
  | RJson alias name =>                                  (* no alias check in the code for this form *)
      match get_field e name with
      | Some (FUserF (KScalar true d)) => Some (alias, CJsonSel d)
      | _ => None
      end
  | RSub alias name subs =>
      if negb (alias_admissible e alias) then None
      else match get_field e name with
           | Some (FUserF (KRef arr t nl)) =>
               match nth_error dm t with
               | None => None
               | Some te =>
                   match (fix go (l : list rfield) (keys : list ident) {struct l} : option (list cfield) :=
                            match l with
                            | [] => Some []
                            | x :: r =>
                                match resolve_field dm te x with
                                | None => None
                                | Some (key, c) =>
                                    if existsb (ident_eqb key) keys then None      (* DuplicatedField *)
                                    else match go r (key :: keys) with
                                         | Some cs => Some (c :: cs)
                                         | None => None
                                         end
                                end
                            end) subs [] with
                   | Some cs => Some (field_key alias name, CSub (field_key alias name) arr nl cs)
                   | None => None
                   end
               end
           | _ => None                                   (* unknown, scalar with { }, sys_room / sys_peer: not modelled *)
           end
  end.

(* the fields of one selection, in text order; keys = names already selected (EntityQuery::add_field) *)
Fixpoint resolve_list (dm : dmodel) (e : dentity) (l : list rfield) (keys : list ident) : option (list cfield) :=
  match l with
  | [] => Some []
  | x :: r =>
      match resolve_field dm e x with
      | None => None
      | Some (key, c) =>
          if existsb (ident_eqb key) keys then None
          else match resolve_list dm e r (key :: keys) with
               | Some cs => Some (c :: cs)
               | None => None
               end
      end
  end.

(* QueryParser::parse_entity + the top-level checks of QueryParser::parse *)
Definition aliased_name (q : rentity) : ident :=
  match re_alias q with Some a => a | None => full_name (re_ns q) (re_name q) end.

Definition resolve_entity (dm : dmodel) (q : rentity) : option centity :=
  if match re_alias q with Some a => starts_underscore a | None => false end then None     (* InvalidName *)
  else match find_entity dm (re_ns q) (re_name q) with
       | None => None                                                       (* EntityNotFound *)
       | Some e =>
           match resolve_list dm e (re_fields q) [] with
           | None => None
           | Some cs =>
               (* alias conflicting with an entity of the data model (aliases carry no dot here:
                  the lookup is in the empty namespace) *)
               if match re_alias q with
                  | Some a => match find_entity dm [] a with Some _ => true | None => false end
                  | None => false end then None
               else Some {| ce_alias := dollar (aliased_name q); ce_search := re_search q; ce_fields := cs |}
           end
       end.

Fixpoint resolve_query (dm : dmodel) (qs : list rentity) (names : list ident) : option (list centity) :=
  match qs with
  | [] => Some []
  | q :: r =>
      match resolve_entity dm q with
      | None => None
      | Some c =>
          if existsb (ident_eqb (aliased_name q)) names then None      (* name or alias already defined *)
          else match resolve_query dm r (aliased_name q :: names) with
               | Some cs => Some (c :: cs)
               | None => None
               end
      end
  end.

(* statement skeleton emitted by query.rs: SELECT keywords, parentheses, table aliases (spliced
   double-quoted since 601cdc3: any identifier the grammar delivers is a legal quoted SQL identifier,
   it cannot contain a double quote); everything else (quoted keys, json paths, bound parameters, fixed
   keywords) is TX *)
Inductive tok := TSel | TL | TR | TAl (a : ident) | TX.

(* get_fields / get_exists_query / get_sub_group_array / get_sub_entity_query for one selected
   field read from table alias [parent]:
     fst = what the field contributes inside the parent's json_object( .. ),
     snd = what it contributes to the parent's WHERE clause (AND EXISTS ( .. ) for a reference
           that is not nullable: the sub-select is emitted a second time) *)
Fixpoint emit (parent : ident) (c : cfield) {struct c} : list tok * list tok :=
  match c with
  | CScalar true true _ => ([TX; TL; TAl parent; TX; TR], [])     (* 'k', base64_encode(P.col) *)
  | CScalar true false _ => ([TX; TAl parent; TX], [])            (* 'k', P.col *)
  | CScalar false false true => ([TX; TL; TX; TR], [])            (* 'k',Ifnull(_json->'$.n',d) *)
  | CScalar false true true => ([TX; TL; TX; TL; TX; TR; TR], []) (* 'k',Ifnull(_json->'$.n',json(?)) : Json default *)
  | CScalar false _ false => ([TX], [])                           (* 'k',_json->'$.n' *)
  | CJsonSel true => ([TX; TL; TX; TR], [])                       (* 'k', Ifnull(sel,d) *)
  | CJsonSel false => ([TX], [])
  | CSub key arr nl subs =>
      let parts := map (emit key) subs in
      let body :=                                                 (* get_sub_entity_query *)
        [TSel; TX; TL] ++ List.concat (map fst parts)
        ++ [TR; TX; TAl key; TX; TAl key; TX; TAl key; TX; TAl parent; TX]
        ++ List.concat (map snd parts) ++ [TX] in
      ((if arr then [TX; TL; TSel; TX; TL; TX; TR; TX; TL] ++ body ++ [TR; TR]   (* 'k', ( group_array( sub ) ) *)
        else [TX; TL] ++ body ++ [TR; TX]),                                     (* 'k', ( sub )->'$' *)
       (if nl then [] else [TX; TL] ++ body ++ [TR]))
  end.

(* SingleQuery::build + get_entity_query *)
Definition emit_entity (c : centity) : list tok :=
  let a := ce_alias c in
  let parts := map (emit a) (ce_fields c) in
  [TSel; TX; TL; TX; TR; TX; TL]
  ++ [TSel; TX; TL] ++ List.concat (map fst parts) ++ [TR; TX; TAl a]
  ++ (match ce_search c with Some _ => [TX; TAl a; TX] | None => [] end)
  ++ [TX; TAl a; TX] ++ List.concat (map snd parts)
  ++ (match ce_search c with Some _ => [TX] | None => [] end)
  ++ [TR].

(* what the engine needs of the skeleton: parentheses balance (never closing below zero) *)
Fixpoint balance (d : Z) (ts : list tok) : option Z :=
  match ts with
  | [] => Some d
  | TL :: r => balance (d + 1) r
  | TR :: r => if Z.leb d 0 then None else balance (d - 1) r
  | _ :: r => balance d r
  end.
Definition balanced (ts : list tok) : bool :=
  match balance 0 ts with Some 0 => true | _ => false end.
Definition wf_sql (ts : list tok) : bool := balanced ts.

Definition count_tok (p : tok -> bool) (ts : list tok) : N := nlen (filter p ts).
Definition is_sel (t : tok) := match t with TSel => true | _ => false end.
Definition is_l (t : tok) := match t with TL => true | _ => false end.
Definition is_r (t : tok) := match t with TR => true | _ => false end.

(* the same three counters computed without building the token list (exponential in the
   nesting of non-nullable references): (SELECT, "(", ")") in (selection part, EXISTS part) *)
Definition c3 := (N * N * N)%type.
Definition c3_add (a b : c3) : c3 :=
  let '(a1, a2, a3) := a in let '(b1, b2, b3) := b in ((a1 + b1)%N, (a2 + b2)%N, (a3 + b3)%N).
Definition c3_sum (l : list c3) : c3 := fold_right c3_add (0%N, 0%N, 0%N) l.
Fixpoint counts (c : cfield) {struct c} : c3 * c3 :=
  match c with
  | CScalar true true _ => ((0, 1, 1)%N, (0, 0, 0)%N)
  | CScalar true false _ => ((0, 0, 0)%N, (0, 0, 0)%N)
  | CScalar false false true => ((0, 1, 1)%N, (0, 0, 0)%N)
  | CScalar false true true => ((0, 2, 2)%N, (0, 0, 0)%N)
  | CScalar false _ false => ((0, 0, 0)%N, (0, 0, 0)%N)
  | CJsonSel true => ((0, 1, 1)%N, (0, 0, 0)%N)
  | CJsonSel false => ((0, 0, 0)%N, (0, 0, 0)%N)
  | CSub key arr nl subs =>
      let parts := map counts subs in
      let body := c3_add (1, 1, 1)%N (c3_add (c3_sum (map fst parts)) (c3_sum (map snd parts))) in
      ((if arr then c3_add (1, 3, 3)%N body else c3_add (0, 1, 1)%N body),
       (if nl then (0, 0, 0)%N else c3_add (0, 1, 1)%N body))
  end.
Definition counts_entity (c : centity) : c3 :=
  let parts := map counts (ce_fields c) in
  c3_add (2, 3, 3)%N (c3_add (c3_sum (map fst parts)) (c3_sum (map snd parts))).

(* the engine's parser has a fixed stack (YYSTACKDEPTH 100): nested sub-selects overflow it.
   Calibrated against the linked engine (and re-checked by every run): a selection path with
   [a] array levels and [s] single-reference levels is accepted iff 8a + 5s <= 39 *)
Fixpoint stack_cost (c : cfield) {struct c} : N :=
  match c with
  | CSub _ arr _ subs => ((if arr then 8 else 5) + fold_right N.max 0 (map stack_cost subs))%N
  | _ => 0%N
  end.
Definition stack_budget : N := 39.
Definition depth_ok (c : centity) : bool :=
  N.leb (fold_right N.max 0%N (map stack_cost (ce_fields c))) stack_budget.

(* search(): the text is handed to FTS5 MATCH as a query expression; blank text is a syntax error.
   (other FTS5 syntax in the text is not modelled: the generator only searches for plain words) *)
Definition is_blank (s : list N) : bool := forallb (fun c => N.eqb c 32) s.
Definition search_ok (c : centity) : bool :=
  match ce_search c with Some s => negb (is_blank s) | None => true end.

(* does the engine execute the statement compiled for this selection *)
Definition entity_executes (c : centity) : bool :=
  wf_sql (emit_entity c) && depth_ok c && search_ok c.

(* GraphDatabaseService::query: Ok iff the request resolves and every statement executes *)
Definition query_outcome (dm : dmodel) (qs : list rentity) : outcome :=
  match resolve_query dm qs [] with
  | None => OErr
  | Some cs => if forallb entity_executes cs then OOk else OErr
  end.

(* ------------------------------------------------------------------------------------------ *)
(** * D. one entity selected with the whole clause language: aggregate functions, order_by,
      first / skip, before / after, filters (also on aggregates), json selectors, search(),
      nullable(), values given as literals or as parameters.
      Mirrors query_parser.rs parse_functions / build_filter / build_order_by / finalize and, as a
      clause skeleton, query.rs get_entity_query / get_end_select_query / get_limit.
      Names are resolved by the harness against its fixed data model: a key says what its name
      denotes (an entity field of some type, a reference, the alias of a selected field). *)

Inductive aggfn := ACount | AAvg | AMax | AMin | ASum.
Inductive asel :=
| ASField (t : ftype) (nullable : bool)      (* a scalar field, by name or under an alias *)
| ASSys                                      (* mdate *)
| ASAgg (fn : aggfn) (arg : ftype)           (* alias: fn(field of that type); count() ignores arg *)
| ASJson                                     (* alias: jsonfield->$.a  (the field is nullable) *)
| ASSub (nullable : bool).                   (* a reference field { name } *)

Inductive akey :=
| KEnt (t : ftype) (nullable : bool)         (* the name of an entity scalar field, selected or not *)
| KEntSys                                    (* mdate *)
| KEntRef                                    (* the name of an entity reference field *)
| KSel (i : nat)                             (* the alias of the i-th selected field *)
| KNone.                                     (* no such name *)

Inductive aval := AVar (x : N) | ANull | ABool | AInt | AFloat | AStr (s : strc).
Inductive asearch := SrchLit (blank : bool) | SrchVar (x : N) (blank : bool).   (* blank: of the text searched *)
Inductive alim := LimLit | LimVar (x : N).

Record aquery := {
  aq_sel : list asel;
  aq_search : option asearch;
  aq_order : list akey;
  aq_first : option alim;
  aq_skip : option alim;
  aq_before : list aval;
  aq_after : list aval;
  aq_filters : list (akey * bool * aval);      (* key, operator is = or != , value *)
  aq_nullable : list nat;                      (* nullable(..): indices of selected fields *)
  aq_params : params }.

(* what a key denotes: Field.field_type, Field.nullable, is it a reference, is it an aggregate *)
Record kinfo := { ki_type : ftype; ki_nullable : bool; ki_ref : bool; ki_agg : bool; ki_sys : bool }.
Definition sel_info (s : asel) : kinfo :=
  match s with
  | ASField t n => {| ki_type := t; ki_nullable := n; ki_ref := false; ki_agg := false; ki_sys := false |}
  | ASSys => {| ki_type := FInt; ki_nullable := false; ki_ref := false; ki_agg := false; ki_sys := true |}
  | ASAgg _ _ => {| ki_type := FFloat; ki_nullable := false; ki_ref := false; ki_agg := true; ki_sys := false |}
  | ASJson => {| ki_type := FJson; ki_nullable := true; ki_ref := false; ki_agg := false; ki_sys := false |}
  | ASSub _ => {| ki_type := FBool; ki_nullable := false; ki_ref := true; ki_agg := false; ki_sys := false |}
  end.
Definition key_info (q : aquery) (k : akey) : option kinfo :=
  match k with
  | KEnt t n => Some {| ki_type := t; ki_nullable := n; ki_ref := false; ki_agg := false; ki_sys := false |}
  | KEntSys => Some {| ki_type := FInt; ki_nullable := false; ki_ref := false; ki_agg := false; ki_sys := true |}
  | KEntRef => Some {| ki_type := FBool; ki_nullable := false; ki_ref := true; ki_agg := false; ki_sys := false |}
  | KSel i => option_map sel_info (nth_error (aq_sel q) i)
  | KNone => None
  end.

(* Field::get_variable_type / get_variable_type_non_nullable of what a key denotes *)
Definition kinfo_vtype (i : kinfo) (nullable : bool) : vtype :=
  match ki_type i with
  | FBase64 => if ki_sys i then VtBinary nullable else VtBase64 nullable
  | FBool => VtBool nullable
  | FInt => VtInt nullable
  | FFloat => VtFloat nullable
  | FString | FJson => VtString nullable
  end.

(* parse_functions: avg / sum need a number *)
Definition sel_ok (s : asel) : bool :=
  match s with
  | ASAgg (AAvg | ASum) t => match t with FInt | FFloat => true | _ => false end
  | _ => true
  end.
Definition is_agg_sel (s : asel) : bool := match s with ASAgg _ _ => true | _ => false end.
Definition is_sub_sel (s : asel) : bool := match s with ASSub _ => true | _ => false end.
Definition is_aggregate (q : aquery) : bool := existsb is_agg_sel (aq_sel q).

(* build_filter; None = Err; the variable table grows *)
Definition filter_check (q : aquery) (f : akey * bool * aval) (vs : vars) : option vars :=
  let '(k, eqop, v) := f in
  match key_info q k with
  | None => None
  | Some i =>
      if ki_ref i && negb eqop then None                                  (* InvalidEntityFilter *)
      else match v with
           | AVar x => if ki_ref i then None else vars_add vs x (kinfo_vtype i (ki_nullable i))
           | ANull => if ki_nullable i || ki_ref i then Some vs else None
           | ABool => if ki_ref i then None else match ki_type i with FBool => Some vs | _ => None end
           | AInt => if ki_ref i then None else match ki_type i with FFloat | FInt => Some vs | _ => None end
           | AFloat => if ki_ref i then None else match ki_type i with FFloat => Some vs | _ => None end
           | AStr s => if ki_ref i then None
                       else match ki_type i with
                            | FString => Some vs
                            | FBase64 => if s_b64 s then Some vs else None
                            | _ => None end
           end
  end.
Fixpoint filters_check (q : aquery) (fs : list (akey * bool * aval)) (vs : vars) : option vars :=
  match fs with
  | [] => Some vs
  | f :: r => match filter_check q f vs with Some vs' => filters_check q r vs' | None => None end
  end.

(* build_order_by *)
Definition order_ok (q : aquery) (k : akey) : bool :=
  match key_info q k with Some i => negb (ki_ref i) | None => false end.

(* finalize: the i-th paging value against the i-th order key *)
Definition paging_check (q : aquery) (kv : akey * aval) (vs : vars) : option vars :=
  let '(k, v) := kv in
  match key_info q k with
  | None => None
  | Some i =>
      match v with
      | AVar x => vars_add vs x (kinfo_vtype i false)
      | ABool => match ki_type i with FBool => Some vs | _ => None end
      | AInt => match ki_type i with FInt | FFloat => Some vs | _ => None end
      | AFloat => match ki_type i with FFloat => Some vs | _ => None end
      | AStr s => match ki_type i with
                  | FString => Some vs
                  | FBase64 => if s_b64 s then Some vs else None
                  | _ => None end
      | ANull => None                                                     (* not in the grammar *)
      end
  end.
Fixpoint pagings_check (q : aquery) (kvs : list (akey * aval)) (vs : vars) : option vars :=
  match kvs with
  | [] => Some vs
  | kv :: r => match paging_check q kv vs with Some vs' => pagings_check q r vs' | None => None end
  end.

Definition lim_var (l : option alim) (vs : vars) : option vars :=
  match l with Some (LimVar x) => vars_add vs x (VtInt false) | _ => Some vs end.
Definition paging_of (q : aquery) : list aval := match aq_after q with [] => aq_before q | l => l end.

(* QueryParser::parse for this family: the variable table, or None = Err *)
Definition aquery_check (q : aquery) : option vars :=
  match lim_var (aq_first q) [] with None => None | Some v1 =>
  match lim_var (aq_skip q) v1 with None => None | Some v2 =>
  match (match aq_search q with Some (SrchVar x _) => vars_add v2 x (VtString false) | _ => Some v2 end) with None => None | Some v3 =>
  if negb (forallb sel_ok (aq_sel q)) then None else
  match filters_check q (aq_filters q) v3 with None => None | Some v4 =>
  if negb (forallb (order_ok q) (aq_order q)) then None else
  if negb (forallb (fun i => match nth_error (aq_sel q) i with Some (ASSub _) => true | _ => false end) (aq_nullable q)) then None else
  (* finalize *)
  if (match aq_search q with Some _ => true | None => false end) && negb (match aq_order q with [] => true | _ => false end) then None else
  if negb (match aq_after q with [] => true | _ => false end) && negb (match aq_before q with [] => true | _ => false end) then None else
  let pg := paging_of q in
  if negb (match pg with [] => true | _ => false end) && (match aq_search q with Some _ => true | None => false end) then None else
  if Nat.ltb (List.length (aq_order q)) (List.length pg) then None else
  match pagings_check q (combine (aq_order q) pg) v4 with None => None | Some v5 =>
  if existsb is_sub_sel (aq_sel q) && is_aggregate q then None else Some v5
  end end end end end.

Definition search_blank (q : aquery) : bool :=
  match aq_search q with Some (SrchLit b) | Some (SrchVar _ b) => b | None => false end.

(* get_where_filters: a filter that is not on an aggregate goes to WHERE; it is written as a test on
   the selected json value ("value->>'$.name' op v") when its name is a reference field
   (FieldType::Array / Entity) or is only known as the alias of a selected field
   (FilterParam.is_selected), otherwise on the stored json.  In an aggregate selection that value
   contains the aggregate functions and the engine refuses it in WHERE ("misuse of aggregate") *)
Definition key_is_ref (q : aquery) (k : akey) : bool :=
  match key_info q k with Some i => ki_ref i | None => false end.
Definition key_is_agg' (q : aquery) (k : akey) : bool :=
  match key_info q k with Some i => ki_agg i | None => false end.
Definition filter_reads_value (q : aquery) (k : akey) : bool :=
  negb (key_is_agg' q k)
  && (key_is_ref q k || match k with KSel _ => true | _ => false end).
Definition value_filter_on_aggregate (q : aquery) : bool :=
  is_aggregate q && existsb (fun f => filter_reads_value q (fst (fst f))) (aq_filters q).

(* GraphDatabaseService::query for this family *)
Definition aquery_outcome (q : aquery) : outcome :=
  match aquery_check q with
  | None => OErr
  | Some vs => match validate_params vs (aq_params q) with
               | None => OErr
               | Some _ => if search_blank q then OErr                (* FTS5: blank text *)
                           else if value_filter_on_aggregate q then OErr (* engine: misuse of aggregate *)
                           else OOk
               end
  end.

(* the clause skeleton of the statement after FROM (get_entity_query + get_end_select_query +
   get_limit): conditions, the words that join them and the clause keywords *)
Inductive ctok := CCond | CAnd | CGroup | CHaving | COrder | CLimit | COffset.

Definition key_is_agg (q : aquery) (k : akey) : bool :=
  match key_info q k with Some i => ki_agg i | None => false end.
Fixpoint joined (n : nat) : list ctok :=       (* c1 AND c2 AND .. *)
  match n with O => [] | S O => [CCond] | S k => CCond :: CAnd :: joined k end.
Fixpoint exists_conds (sel : list asel) (nullable : list nat) (i : nat) : list ctok :=
  match sel with
  | [] => []
  | ASSub false :: r => (if existsb (Nat.eqb i) nullable then [] else [CAnd; CCond]) ++ exists_conds r nullable (S i)
  | _ :: r => exists_conds r nullable (S i)
  end.
Definition emit_clauses (q : aquery) : list ctok :=
  let agg := is_aggregate q in
  let nagg := List.length (filter (fun f => key_is_agg q (fst (fst f))) (aq_filters q)) in
  let nplain := List.length (filter (fun f => negb (key_is_agg q (fst (fst f)))) (aq_filters q)) in
  let paging := negb (match paging_of q with [] => true | _ => false end) in
  [CCond]
  ++ exists_conds (aq_sel q) (aq_nullable q) 0
  ++ (match aq_search q with Some _ => [CAnd; CCond] | None => [] end)
  ++ (match nplain with O => [] | _ => CAnd :: joined nplain end)
  ++ (if agg then (if existsb (fun s => match s with ASField FBase64 _ => false | ASField _ _ | ASSys => true | _ => false end) (aq_sel q) then [CGroup] else [])
                  ++ (if negb (Nat.eqb nagg 0) || paging then [CHaving] else [])
      else [])
  ++ joined nagg
  ++ (if negb (Nat.eqb nagg 0) && paging then [CAnd] else [])
  ++ (if negb agg && paging then [CAnd] else [])
  ++ (if paging then [CCond] else [])
  ++ (if negb (match aq_order q with [] => true | _ => false end) || (match aq_search q with Some _ => true | None => false end) then [COrder] else [])
  ++ (match aq_first q, aq_skip q with
      | Some _, Some _ => [CLimit; COffset]
      | Some _, None => [CLimit]
      | None, Some _ => [CLimit; COffset]              (* LIMIT -1 OFFSET n *)
      | None, None => [] end).

(* the grammar of that part of a SELECT: WHERE c (AND c)* [GROUP BY] [HAVING c (AND c)*] [ORDER BY]
   [LIMIT [OFFSET]] — a condition after GROUP BY needs HAVING *)
Inductive cstate := SCond | SAfterCond | SAfterGroup | SAfterOrder | SAfterLimit | SEnd.
Definition cstep (st : cstate) (having : bool) (t : ctok) : option (cstate * bool) :=
  match st, t with
  | SCond, CCond => Some (SAfterCond, having)
  | SAfterCond, CAnd => Some (SCond, having)
  | SAfterCond, CGroup => if having then None else Some (SAfterGroup, false)
  | SAfterCond, CHaving => if having then None else Some (SCond, true)
  | SAfterGroup, CHaving => Some (SCond, true)
  | (SAfterCond | SAfterGroup), COrder => Some (SAfterOrder, having)
  | (SAfterCond | SAfterGroup | SAfterOrder), CLimit => Some (SAfterLimit, having)
  | SAfterLimit, COffset => Some (SEnd, having)
  | _, _ => None
  end.
Fixpoint crun (st : cstate) (having : bool) (ts : list ctok) : bool :=
  match ts with
  | [] => match st with SCond => false | _ => true end
  | t :: r => match cstep st having t with Some (st', h') => crun st' h' r | None => false end
  end.
Definition clauses_ok (ts : list ctok) : bool := crun SCond false ts.

(* deletion `delete { E { $id } }` (deletion_parser.rs: the id is a Base64 variable;
   DeletionQuery::build: as_string().unwrap(), uid_decode, nothing to delete is not an error) *)
Definition delete_outcome (p : option pval) : outcome :=
  match p with
  | None => OErr
  | Some p0 => match validate_one (VtBase64 false) p0 with
               | None => OErr
               | Some p' => match as_string p' with
                            | None => OPanic                       (* .as_string().unwrap() *)
                            | Some s => match s_uid s with UNot16 => OErr | _ => OOk end
                            end
               end
  end.

(* ------------------------------------------------------------------------------------------ *)
(** * E. length-prefixed frames received from a peer (network/endpoint.rs) and rows with a date
      the calendar cannot hold (date_utils::date on the writer thread).
      A stream is what the harness's reference parser makes of the bytes it sends: a frame with the
      announced length, the number of payload bytes that really follow before the stream ends,
      and whether bincode decodes the payload as the type the reader expects; or a stream that
      ends inside the 4 length bytes.  The allocation a reader requests is an explicit output. *)
Inductive fstep := FFrame (len avail : N) (decodes : bool) | FShortLen.

(* DiscretEndpoint::start_accepted: the ConnectionInfo frame on the event stream: since feffa39
   `if len > max_buffer_size { return Err(..) }` comes before `vec![0; len]`.  (delivered, bytes requested) *)
Definition read_conn_info (limit : N) (f : fstep) : bool * N :=
  match f with
  | FShortLen => (false, 0%N)
  | FFrame len avail dec => if N.ltb limit len then (false, 0%N) else (N.leb len avail && dec, len)
  end.

(* the reader loops of start_channels (answers, queries, events): `if len > max_buffer_size { break }`
   before the buffer is grown.  (frames delivered, largest buffer requested) *)
Fixpoint read_channel (limit : N) (fs : list fstep) : N * N :=
  match fs with
  | [] => (0%N, 0%N)
  | FShortLen :: _ => (0%N, 0%N)
  | FFrame len avail dec :: r =>
      if N.ltb limit len then (0%N, 0%N)
      else if negb (N.leb len avail) then (0%N, len)
      else if negb dec then (0%N, len)
      else let '(d, a) := read_channel limit r in ((1 + d)%N, N.max len a)
  end.

Definition max_buffer_size : N := 524288.     (* max_object_size_in_kb * 1024 * 2, Configuration::default *)
Definition alloc_bound : N := 16777216.       (* what the oracle allows one input to make a reader request *)

(* one connection: the ConnectionInfo frame, then the three streams.
   [info delivered; answers; queries; events delivered; a request beyond the bound was made] *)
Definition connection_obs (info : fstep) (ans qs evs : list fstep) : list Z :=
  let '(ok, a0) := read_conn_info max_buffer_size info in
  if ok then
    let '(da, aa) := read_channel max_buffer_size ans in
    let '(dq, aq) := read_channel max_buffer_size qs in
    let '(de, ae) := read_channel max_buffer_size evs in
    [1; zn da; zn dq; zn de; zb (N.leb alloc_bound (N.max (N.max a0 aa) (N.max aq ae)))]
  else [0; 0; 0; 0; zb (N.leb alloc_bound a0)].

(* a row ingested through add_nodes: refused without a write when its date is one the calendar
   cannot hold with its next day (date_utils::is_valid_date, since 8b3434e) or when its author has
   no right at its date (rights exist from [rights_from] on); otherwise written, and the daily log
   is marked and later computed on the writer thread with date / date_next_day, which are defined
   for every date that passed the check.
   [outcome of add_nodes; does the writer answer after the next computation of the log] *)
Definition last_day_start_ms : Z := 8210266790400000.    (* +262142-12-31T00:00:00Z: its next day does not exist *)
Definition first_day_ms : Z := -8334601228800000.        (* -262143-01-01T00:00:00Z *)
Definition is_valid_date (ms : Z) : bool := Z.leb first_day_ms ms && Z.ltb ms last_day_start_ms.
Inductive ingest_fate := IRefused | IWritten | IWriterDies.
Definition ingest_fate_of (rights_from mdate : Z) : ingest_fate :=
  if negb (is_valid_date mdate) then IRefused
  else if Z.ltb mdate rights_from then IRefused
  else IWritten.          (* date(mdate) and date_next_day(date(mdate)) exist: is_valid_date *)
Definition ingest_obs (rights_from mdate : Z) : list Z :=
  match ingest_fate_of rights_from mdate with
  | IRefused | IWritten => [0; 1]
  | IWriterDies => [2; 0]
  end.

(* ------------------------------------------------------------------------------------------ *)
(** * F. room definitions received from a peer (room_node.rs UserNode / EntityRightNode /
      AuthorisationNode ::parse, on add_room_node) and what the next start makes of the stored rows
      (authorisation_service.rs LOAD_QUERY through query.rs, room.rs load_*_from_json, which unwrap).
      One member of one sys.* row of an otherwise valid, correctly signed room definition is
      replaced; the value is known by its JSON class. *)
Inductive rmember := MUserKey | MUserEnabled | MRightEntity | MRightSelf | MRightAll | MAuthName.
Inductive jclass := JMissing | JNull | JBoolean | JString (b64 : bool) | JNumber | JOther.

(* is the room definition accepted and stored *)
Definition room_row_accepted (m : rmember) (v : jclass) : bool :=
  match m, v with
  | MUserKey, JString true => true            (* (the generator keeps the author's own key here) *)
  | MUserKey, _ => false
  | MUserEnabled, (JBoolean | JMissing) => true       (* None => true *)
  | MUserEnabled, _ => false
  | MRightEntity, JString _ => true
  | MRightEntity, _ => false
  | (MRightSelf | MRightAll), JBoolean => true
  | (MRightSelf | MRightAll), _ => false
  | MAuthName, _ => true                        (* the name of an authorisation is not read *)
  end.

(* does GraphDatabaseService::start on the same folder succeed afterwards.  A stored user row
   without `enabled` is rendered by LOAD_QUERY through its default (the SQL integer 1, not a JSON
   boolean); since 86aa554 load_user_from_json reads `enabled` like UserNode::parse does: a missing
   member means true, a rendered 1 / 0 its truth value.  The other members a stored row can carry
   passed the parse rules above, which are at least as strict as what the loader unwraps. *)
Definition loader_reads (m : rmember) (v : jclass) : bool :=
  match m, v with
  | MUserEnabled, _ => true                       (* as_bool, else as_i64, else true *)
  | MUserKey, JString true => true                (* as_str + base64_decode *)
  | MRightEntity, JString _ => true               (* as_str *)
  | (MRightSelf | MRightAll), JBoolean => true    (* as_bool *)
  | MAuthName, _ => true                          (* not selected by LOAD_QUERY *)
  | _, _ => false
  end.
Definition restart_succeeds (m : rmember) (v : jclass) : bool :=
  negb (room_row_accepted m v) || loader_reads m v.

(* [outcome of add_room_node; probe; the instance starts again and answers] *)
Definition room_def_obs (m : rmember) (v : jclass) : list Z :=
  [zb (negb (room_row_accepted m v)); 1; zb (restart_succeeds m v)].
