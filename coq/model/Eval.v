(* Eval.v — reference evaluator of the T1 query fragment, written from the meaning of the
   language constructs, without SQL: a query is evaluated directly over the stored rows.
     field value    = stored value, or the field's default when the row has none
     filter f op v  = comparison of the field value with v; a comparison with an absent value is
                      never satisfied; `= null` / `!= null` test absence (a literal and a variable
                      that denote the same value mean the same thing)
     order_by       = stable sort of the matching rows, absent values first when ascending
     after / before = rows strictly after / before the cursor in that order
     skip / first   = drop n, then keep at most n (0 = no limit)
     result         = the selected fields of each remaining row, defaults applied.
   No proofs here. *)
From DV Require Export QLang.
Open Scope list_scope.

Definition field_value (m : emodel) (r : row) (i : nat) : val :=
  match nth_error r i with
  | Some VNull | None =>
      match field_def m i with
      | Some fd => match fd_default fd with Some d => d | None => VNull end
      | None => VNull
      end
  | Some v => v
  end.

Definition ref_value (m : emodel) (q : query) (r : row) (fr : fref) : val :=
  match ref_field q fr with Some i => field_value m r i | None => VNull end.

Definition operand_value (ps : params) (o : operand) : option val :=
  match o with OLit v => Some v | OVar n => lookup n ps end.

(* meaning of `a op b` where a is the field value and b the filter value *)
Definition holds (op : cmpop) (a b : val) : bool :=
  match b with
  | VNull => match op with OEq => is_null a | ONe => negb (is_null a) | _ => false end
  | _ => match a with VNull => false | _ => test op (vcmp a b) end
  end.

(* order of two key values under a direction: absent values first when ascending, last when descending *)
Definition kcmp (d : dir) (a b : val) : comparison :=
  match d with Asc => vcmp a b | Desc => vcmp b a end.

(* lexicographic comparison of two key tuples; stops at the shorter of the three lists *)
Fixpoint lex_cmp (ds : list dir) (a b : list val) : comparison :=
  match ds, a, b with
  | d :: ds', x :: a', y :: b' => match kcmp d x y with Eq => lex_cmp ds' a' b' | c => c end
  | _, _, _ => Eq
  end.

Definition row_keys (m : emodel) (q : query) (r : row) : list val :=
  map (fun k => ref_value m q r (ok_ref k)) (q_order q).
Definition dirs (q : query) : list dir := map ok_dir (q_order q).

(* stable insertion sort: an element is placed before the first element that is strictly greater *)
Fixpoint insert {A} (cmp : A -> A -> comparison) (x : A) (l : list A) : list A :=
  match l with
  | [] => [x]
  | y :: t => match cmp x y with Gt => y :: insert cmp x t | _ => x :: y :: t end
  end.
Definition isort {A} (cmp : A -> A -> comparison) (l : list A) : list A :=
  fold_right (insert cmp) [] l.

Definition take_first (n : Z) (l : list row) : list row :=
  if Z.leb n 0 then l else firstn (Z.to_nat n) l.
Definition drop_skip (n : Z) (l : list row) : list row :=
  if Z.leb n 0 then l else skipn' (Z.to_nat n) l.

Definition as_int (v : val) : option Z := match v with VInt z => Some z | _ => None end.

Definition project (m : emodel) (q : query) (r : row) : list val :=
  map (fun sf => field_value m r (sf_field sf)) (q_sel q).

(* the rows that satisfy the filters and the paging clause, in storage order *)
Definition matching (m : emodel) (q : query) (fvals : list val) (cursor : list val) (rows : db) : list row :=
  filter (fun r =>
            forallb (fun fv => holds (fl_op (fst fv)) (ref_value m q r (fl_ref (fst fv))) (snd fv))
                    (combine (q_filters q) fvals)
            && match q_paging q with
               | PNone => true
               | PAfter _ => match lex_cmp (dirs q) (row_keys m q r) cursor with Gt => true | _ => false end
               | PBefore _ => match lex_cmp (dirs q) (row_keys m q r) cursor with Lt => true | _ => false end
               end) rows.

Definition ordered (m : emodel) (q : query) (rows : list row) : list row :=
  isort (fun a b => lex_cmp (dirs q) (row_keys m q a) (row_keys m q b)) rows.

(* None = the query cannot be evaluated (a variable has no value, first/skip are not integers) *)
Definition eval (m : emodel) (rows : db) (q : query) (ps : params) : option (list (list val)) :=
  match all_some (map (fun f => operand_value ps (fl_val f)) (q_filters q)),
        all_some (map (operand_value ps) (paging_values (q_paging q))),
        option_map as_int (operand_value ps (q_first q)),
        match q_skip q with None => Some (Some 0) | Some o => option_map as_int (operand_value ps o) end with
  | Some fvals, Some cursor, Some (Some n), Some (Some k) =>
      Some (map (project m q) (take_first n (drop_skip k (ordered m q (matching m q fvals cursor rows)))))
  | _, _, _, _ => None
  end.
