(* Pipeline.v — model of the three-phase mutation pipeline (C16).  No proofs here.

   Code modelled (as it is):
     read   <- MutationQuery::execute / get_mutate_query / create_node_to_mutate
               (src/database/mutation_query.rs): snapshot of the old row (Node::get_with_entity),
               merge of the SNAPSHOT's json with the assigned fields, room = given room else the
               snapshot's room, mdate = date of the mutation, Edge::exists / Edge::get_edges
               evaluated at read time, "is_update && !field_updated && !room_changed => node = None"
               (room_changed: an explicit room_id of the entity that differs from the snapshot's room)
     valid  <- RoomAuthorisations::validate_mutation (signs the snapshot-derived row; reads no
               table).  In the scenarios of this property the caller holds every right, so the
               phase only moves the mutation into the FIFO towards the writer.
     write  <- MutationQuery::write / InsertEntity::write / Node::write / Edge::delete / Edge::write:
               whole-row UPDATE by rowid, DELETE of the edges found at read time, INSERT OR REPLACE
               of the edges decided at read time
     sched  <- graph_database.rs mutate / mutate_stream (read enqueued on the reader pool),
               authorisation_service.rs process_message (validate, forward to the writer in
               validation order), sqlite_database.rs BufferedDatabaseWriter (writes in arrival order)

   Events: R i = the read closure of mutation i runs on a reader connection; V i = the actor
   validates and signs it and forwards it to the writer; W i = its write becomes visible, i.e. the
   batch transaction that contains it commits (the acknowledgement is sent after that).  A read
   that runs while a batch is still open sees none of that batch: it is a read BEFORE those W.
   Validation reads no table, so only its order (= the order of the writes) matters.

   Creation (a mutation without id: Node::write INSERTs, the new rowid is max(rowid)+1) and
   deletion of a whole row (DeletionQuery::build on the reader: is the row there?; validate_deletion;
   DeletionQuery::delete: DELETE .. WHERE id, Edge::delete_src) go through the same three executors.
   An update is written with UPDATE .. WHERE rowid = the SNAPSHOT's rowid: rows carry their rowid.
   Rights: validate_entity_mutation / validate_deletion for rows authored by the caller: the
   own-rows right in the room entered and in the room left, at the date of the mutation; [rights]
   lists the rooms the authorisation state knows with the date from which the caller's right is
   revoked.  A refused mutation is answered with an error and dropped.

   Identifiers are scenario indices; rows are never the TARGET of a reference in these scenarios
   (Edge::delete_dest of a deleted row is not modelled). *)
From DV Require Export Base.

Record row := { r_id : N; r_rowid : N; r_room : option N; r_mdate : Z; r_fields : list (N * Z) }.
Record edge := { e_src : N; e_label : N; e_dest : N; e_cdate : Z }.
(* db_floor: the largest rowid used by rows of other entities in the same table *)
Record db := { rows : list row; edges : list edge; db_floor : N }.

(* reference operations of one mutation on its row:
   RAdd  l ds : array field   l:[{id:d1},{id:d2}..]
   RSet  l d  : entity field  l:{id:d}
   RClear l   : l:null *)
Inductive refop := RAdd (l : N) (ds : list N) | RSet (l : N) (d : N) | RClear (l : N).

(* KUpdate: mutate { E { id:.. ..} }   KCreate: mutate { E { .. } } (m_row = the id the reader
   draws; m_assign includes the defaults the parser fills in)   KDelete: delete { E { $id } } *)
Inductive mkind := KUpdate | KCreate | KDelete.
Record mutation := { m_kind : mkind; m_row : N; m_date : Z; m_room : option N;
                     m_assign : list (N * Z); m_refs : list refop }.

(* ---- json object of a row: serde_json::Map insert ---- *)
Fixpoint set_field (f : N) (v : Z) (l : list (N * Z)) : list (N * Z) :=
  match l with
  | [] => [(f, v)]
  | (g, w) :: t => if N.eqb g f then (f, v) :: t else (g, w) :: set_field f v t
  end.
Fixpoint get_field (f : N) (l : list (N * Z)) : option Z :=
  match l with
  | [] => None
  | (g, w) :: t => if N.eqb g f then Some w else get_field f t
  end.
Definition merge_fields (old : list (N * Z)) (a : list (N * Z)) : list (N * Z) :=
  fold_left (fun acc fv => set_field (fst fv) (snd fv) acc) a old.

(* ---- _edge table, PRIMARY KEY (src, label, dest) ---- *)
Definition same_key (a b : edge) : bool :=
  N.eqb (e_src a) (e_src b) && N.eqb (e_label a) (e_label b) && N.eqb (e_dest a) (e_dest b).
Definition delete_edge (x : edge) (es : list edge) : list edge :=
  filter (fun e => negb (same_key e x)) es.                       (* Edge::delete *)
Definition insert_edge (x : edge) (es : list edge) : list edge :=
  filter (fun e => negb (same_key e x)) es ++ [x].                (* INSERT OR REPLACE *)

(* what the reader can see about row x: the row itself and the edges WHERE src = x *)
Definition find_row (x : N) (d : db) : option row := find (fun r => N.eqb (r_id r) x) (rows d).
Definition edges_of (x : N) (d : db) : list edge := filter (fun e => N.eqb (e_src e) x) (edges d).

Definition edge_exists (l dst : N) (es : list edge) : bool :=      (* Edge::exists *)
  existsb (fun e => N.eqb (e_label e) l && N.eqb (e_dest e) dst) es.
Definition get_edges (l : N) (es : list edge) : list edge :=       (* Edge::get_edges *)
  filter (fun e => N.eqb (e_label e) l) es.

Definition is_nil {A} (l : list A) : bool := match l with [] => true | _ => false end.

(* a mutation after its read phase.
   PUpd: the row to write back whole (None: "nothing changed"; it carries the snapshot's rowid),
         the room of the snapshot, the edges to delete and to insert
   PNew: the row to insert (its rowid is given by the writer) and its edges
   PDel: whether the row was there, and its room *)
Inductive pkind := PUpd | PNew | PDel (found : bool).
Record pending := { p_kind : pkind; p_row : N; p_date : Z; p_oldroom : option N;
                    p_node : option row; p_del : list edge; p_ins : list edge }.

Definition mk_edge (x l dst : N) (date : Z) : edge :=
  {| e_src := x; e_label := l; e_dest := dst; e_cdate := date |}.

(* one reference field, against the edges of x seen at read time: (deletions, insertions, field_updated) *)
Definition ref_read (x : N) (date : Z) (es : list edge) (op : refop) : list edge * list edge * bool :=
  match op with
  | RAdd l ds =>
      let fresh := filter (fun dst => negb (edge_exists l dst es)) ds in
      ([], map (fun dst => mk_edge x l dst date) fresh, negb (is_nil fresh))
  | RSet l dst =>
      if edge_exists l dst es then ([], [], false)
      else (get_edges l es, [mk_edge x l dst date], true)
  | RClear l =>
      let old := get_edges l es in (old, [], negb (is_nil old))
  end.

(* an explicit room_id that differs from the room of the snapshot (room_id copies that
   propagate_room gives to sub entities do not count: such sub entities are not modelled) *)
Definition room_changes (old : row) (m : mutation) : bool :=
  match m_room m with
  | Some r => negb (opt_eqb N.eqb (r_room old) (Some r))
  | None => false
  end.

Definition read_update (m : mutation) (old : row) (es : list edge) : pending :=
  let rs := map (ref_read (m_row m) (m_date m) es) (m_refs m) in
  let upd := negb (is_nil (m_assign m)) || existsb (fun t => snd t) rs || room_changes old m in
  {| p_kind := PUpd; p_row := m_row m; p_date := m_date m; p_oldroom := r_room old;
     p_node := if upd then
                 Some {| r_id := r_id old; r_rowid := r_rowid old;
                         r_room := match m_room m with Some r => Some r | None => r_room old end;
                         r_mdate := m_date m;
                         r_fields := merge_fields (r_fields old) (m_assign m) |}
               else None;
     p_del := flat_map (fun t => fst (fst t)) rs;
     p_ins := flat_map (fun t => snd (fst t)) rs |}.

Definition read_create (m : mutation) (es : list edge) : pending :=
  let rs := map (ref_read (m_row m) (m_date m) es) (m_refs m) in
  {| p_kind := PNew; p_row := m_row m; p_date := m_date m; p_oldroom := None;
     p_node := Some {| r_id := m_row m; r_rowid := 0%N; r_room := m_room m; r_mdate := m_date m;
                       r_fields := merge_fields [] (m_assign m) |};
     p_del := flat_map (fun t => fst (fst t)) rs;
     p_ins := flat_map (fun t => snd (fst t)) rs |}.

(* Read phase: None = Error::UnknownEntity (the mutation is answered with an error) *)
Definition read (d : db) (m : mutation) : option pending :=
  match m_kind m with
  | KUpdate =>
      match find_row (m_row m) d with
      | None => None
      | Some old => Some (read_update m old (edges_of (m_row m) d))
      end
  | KCreate => Some (read_create m (edges_of (m_row m) d))
  | KDelete =>
      Some {| p_kind := PDel (match find_row (m_row m) d with Some _ => true | None => false end);
              p_row := m_row m; p_date := m_date m;
              p_oldroom := match find_row (m_row m) d with Some old => r_room old | None => None end;
              p_node := None; p_del := []; p_ins := [] |}
  end.

(* Validation phase: rooms the authorisation state knows, each with the date from which the
   caller's right is revoked *)
Definition allowed (rights : list (N * Z)) (r : N) (date : Z) : bool :=
  existsb (fun p => N.eqb (fst p) r && (date <? snd p)) rights.
Definition validate (rights : list (N * Z)) (p : pending) : bool :=
  match p_kind p with
  | PDel _ => match p_oldroom p with Some r => allowed rights r (p_date p) | None => true end
  | _ =>
      match p_node p with
      | None => true                                    (* a pure reference: nothing is checked *)
      | Some n =>
          match r_room n with
          | None => true
          | Some r =>
              allowed rights r (p_date p) &&
              match p_oldroom p with
              | Some ro => if N.eqb ro r then true else allowed rights ro (p_date p)
              | None => true
              end
          end
      end
  end.

Definition next_rowid (d : db) : N := N.succ (fold_right N.max (db_floor d) (map r_rowid (rows d))).

(* Write phase *)
Definition write_edges (p : pending) (es : list edge) : list edge :=
  fold_left (fun es e => insert_edge e es) (p_ins p)
    (fold_left (fun es e => delete_edge e es) (p_del p) es).
Definition write (p : pending) (d : db) : db :=
  match p_kind p with
  | PUpd =>
      {| rows := match p_node p with
                 | Some n => map (fun r => if N.eqb (r_rowid r) (r_rowid n) then n else r) (rows d)
                 | None => rows d
                 end;
         edges := write_edges p (edges d); db_floor := db_floor d |}
  | PNew =>
      {| rows := match p_node p with
                 | Some n => rows d ++ [{| r_id := r_id n; r_rowid := next_rowid d; r_room := r_room n;
                                           r_mdate := r_mdate n; r_fields := r_fields n |}]
                 | None => rows d
                 end;
         edges := write_edges p (edges d); db_floor := db_floor d |}
  | PDel true =>
      {| rows := filter (fun r => negb (N.eqb (r_id r) (p_row p))) (rows d);
         edges := filter (fun e => negb (N.eqb (e_src e) (p_row p))) (edges d); db_floor := db_floor d |}
  | PDel false => d
  end.

(* one mutation alone: read and write with nothing in between *)
Definition apply (ms : list mutation) (d : db) (i : nat) : db :=
  match nth_error ms i with
  | Some m => match read d m with Some p => write p d | None => d end
  | None => d
  end.

(* ---- schedules ---- *)
Inductive ev := R (i : nat) | V (i : nat) | W (i : nat).

Fixpoint memn (i : nat) (l : list nat) : bool :=
  match l with [] => false | j :: t => Nat.eqb i j || memn i t end.
Fixpoint lookup {A} (i : nat) (l : list (nat * A)) : option A :=
  match l with [] => None | (j, a) :: t => if Nat.eqb i j then Some a else lookup i t end.
Definition remove_key {A} (i : nat) (l : list (nat * A)) : list (nat * A) :=
  filter (fun ja => negb (Nat.eqb i (fst ja))) l.
Definition remove_nat (i : nat) (l : list nat) : list nat := filter (fun j => negb (Nat.eqb i j)) l.

Record st := { s_db : db;
               s_pend : list (nat * pending);   (* read, not yet written *)
               s_fifo : list nat;               (* validated, in the order the actor forwards them *)
               s_acked : list nat;              (* written and acknowledged, in write order *)
               s_failed : list nat;             (* answered with an error at read time *)
               s_refused : list nat }.          (* answered with an error by the validation *)
Definition init (d : db) : st :=
  {| s_db := d; s_pend := []; s_fifo := []; s_acked := []; s_failed := []; s_refused := [] |}.

Definition started (i : nat) (s : st) : bool :=
  memn i (map fst (s_pend s)) || memn i (s_acked s) || memn i (s_failed s) || memn i (s_refused s).
Definition dropped (i : nat) (s : st) : bool := memn i (s_failed s) || memn i (s_refused s).

(* None = not a schedule the pipeline can produce (phase order of a mutation, or the FIFO
   coupling validation order = write order, is not respected) *)
Definition step (rights : list (N * Z)) (ms : list mutation) (s : st) (e : ev) : option st :=
  match e with
  | R i =>
      if started i s then None else
      match nth_error ms i with
      | None => None
      | Some m =>
          match read (s_db s) m with
          | Some p => Some {| s_db := s_db s; s_pend := (i, p) :: s_pend s; s_fifo := s_fifo s;
                              s_acked := s_acked s; s_failed := s_failed s; s_refused := s_refused s |}
          | None => Some {| s_db := s_db s; s_pend := s_pend s; s_fifo := s_fifo s;
                            s_acked := s_acked s; s_failed := s_failed s ++ [i]; s_refused := s_refused s |}
          end
      end
  | V i =>
      if dropped i s then Some s else
      if memn i (s_fifo s) then None else
      match lookup i (s_pend s) with
      | None => None
      | Some p =>
          if validate rights p then
            Some {| s_db := s_db s; s_pend := s_pend s; s_fifo := s_fifo s ++ [i];
                    s_acked := s_acked s; s_failed := s_failed s; s_refused := s_refused s |}
          else
            Some {| s_db := s_db s; s_pend := remove_key i (s_pend s); s_fifo := s_fifo s;
                    s_acked := s_acked s; s_failed := s_failed s; s_refused := s_refused s ++ [i] |}
      end
  | W i =>
      if dropped i s then Some s else
      match s_fifo s with
      | j :: rest =>
          if Nat.eqb i j then
            match lookup i (s_pend s) with
            | Some p => Some {| s_db := write p (s_db s); s_pend := remove_key i (s_pend s);
                                s_fifo := rest; s_acked := s_acked s ++ [i]; s_failed := s_failed s;
                                s_refused := s_refused s |}
            | None => None
            end
          else None
      | [] => None
      end
  end.

Fixpoint run (rights : list (N * Z)) (ms : list mutation) (s : st) (sigma : list ev) : option st :=
  match sigma with
  | [] => Some s
  | e :: t => match step rights ms s e with Some s' => run rights ms s' t | None => None end
  end.

Definition run_sched (rights : list (N * Z)) (d : db) (ms : list mutation) (sigma : list ev) : option st :=
  run rights ms (init d) sigma.

(* "no Read of a mutation on row x falls between the Read and the Write of another mutation on x":
   [open] = mutations whose Read has happened and whose Write has not *)
Definition row_of (ms : list mutation) (i : nat) : option N :=
  match nth_error ms i with Some m => Some (m_row m) | None => None end.
Fixpoint windows_ok (ms : list mutation) (open : list nat) (sigma : list ev) : bool :=
  match sigma with
  | [] => true
  | R i :: t => forallb (fun j => negb (opt_eqb N.eqb (row_of ms j) (row_of ms i))) open
                && windows_ok ms (i :: open) t
  | V _ :: t => windows_ok ms open t
  | W i :: t => windows_ok ms (remove_nat i open) t
  end.

(* the serial schedule of an order pi *)
Definition serial_sched (pi : list nat) : list ev := flat_map (fun i => [R i; V i; W i]) pi.
