(* Digest.v — model of what discret signs (C06).
   A signed digest is blake3 of a concatenation of fields; the per-kind field sequences are
   GENERATED into gen/DigestLayouts.v from the hasher.update(..) calls of the current source by
   tools/extract_digest.py.  This file gives the layout language, the byte encoding `enc`, the
   well-formedness verify() enforces, the shape of a row (which optional fields are present and how
   long every field is), the decision procedure `uniquely_decodable`, and the witness search
   `collide_all`.  No proofs here (proofs/C06P.v). *)
From DV Require Export Base Blake3.
From Coq Require String Ascii.
Local Open Scope N_scope.

(* ---------- bytes from hexadecimal text (how the harness writes byte strings) ---------- *)
Definition hexval (a : Ascii.ascii) : option N :=
  let n := Ascii.N_of_ascii a in
  if (48 <=? n) && (n <=? 57) then Some (n - 48)
  else if (97 <=? n) && (n <=? 102) then Some (n - 87) else None.
Fixpoint hx (s : String.string) : list byte :=
  match s with
  | String.String a (String.String b r) =>
      match hexval a, hexval b with
      | Some x, Some y => nb (16 * x + y) :: hx r
      | _, _ => []
      end
  | _ => []
  end.

(* string literals given to hx are read as strings without String being imported *)
Declare Scope hx_scope.
String Notation String.string String.string_of_list_byte String.list_byte_of_string : hx_scope.
Arguments hx s%hx_scope.

(* long byte strings are written by the harness as lists of numbers (string literals parse slowly) *)
Definition bl (l : list N) : list byte := map nb l.

Definition byte_eqb (a b : byte) : bool := Byte.eqb a b.
Definition bytes_eqb (a b : list byte) : bool := list_eqb Byte.eqb a b.

(* ---------- layout language ---------- *)
Inductive fdesc :=
| Fixed (n : nat)            (* exactly n bytes (Uid = 16, [u8;32]) hashed as they are *)
| I64le                      (* i64::to_le_bytes *)
| VarStr (nonempty : bool)   (* String::as_bytes, no length; verify() may refuse the empty string *)
| JsonQ                      (* serde_json::to_string(&text): the text, JSON-quoted *)
| VarBytes                   (* Vec<u8> as it is, no length *)
| Key                        (* verifying key Vec<u8> as it is; 33 bytes, first byte 1 once import_verifying_key accepted it *)
| Opt (f : fdesc)            (* Option: nothing at all is hashed when absent *)
| Flagged (f : fdesc)        (* (not used by the current source) presence byte 0/1, then the value *)
| LenPref (f : fdesc).       (* (not used by the current source) u64 LE byte length, then the value *)

Inductive fval := VB (b : list byte) | VI (z : Z) | VNone.

Record layout := { l_tag : list byte;          (* constant first item (domain separation); empty today *)
                   l_fields : list fdesc;
                   l_json_object : bool;        (* verify() wants every JSON text to parse to an object *)
                   l_maxlen : option N }.       (* verify() bound on field bytes + signature bytes *)
Definition row := list fval.

Inductive sign_request_kind := SignsDigest (kind : N) | SignsPeerBytes.

Definition simple (f : fdesc) : bool :=
  match f with Opt _ | Flagged _ | LenPref _ => false | _ => true end.

(* ---------- encoding ---------- *)
Fixpoint le_bytes (k : nat) (n : N) : list byte :=
  match k with O => [] | S k' => nb (n mod 256) :: le_bytes k' (n / 256) end.
Definition two64 : Z := 18446744073709551616%Z.
Definition two63 : Z := 9223372036854775808%Z.
Definition i64_le (z : Z) : list byte := le_bytes 8 (Z.to_N (z mod two64)).

Definition hexdigit (n : N) : byte := if n <? 10 then nb (48 + n) else nb (87 + n).
(* serde_json's escaping of one byte of a str (format_escaped_str): quote, backslash, \b \t \n \f \r,
   other control characters as \u00xx (lower-case hex); everything else, 0x7f and non-ASCII included, as is *)
Definition json_esc (b : byte) : list byte :=
  let n := bn b in
  if n =? 34 then [x5c; x22]
  else if n =? 92 then [x5c; x5c]
  else if n =? 8 then [x5c; x62]
  else if n =? 9 then [x5c; x74]
  else if n =? 10 then [x5c; x6e]
  else if n =? 12 then [x5c; x66]
  else if n =? 13 then [x5c; x72]
  else if n <? 32 then [x5c; x75; x30; x30; hexdigit (n / 16); hexdigit (n mod 16)]
  else [b].
Definition json_quote (s : list byte) : list byte := x22 :: flat_map json_esc s ++ [x22].

Fixpoint enc_field (f : fdesc) (v : fval) : list byte :=
  match f with
  | Opt g => match v with VNone => [] | _ => enc_field g v end
  | Flagged g => match v with VNone => [x00] | _ => x01 :: enc_field g v end
  | LenPref g => let b := enc_field g v in le_bytes 8 (N.of_nat (length b)) ++ b
  | I64le => match v with VI z => i64_le z | _ => [] end
  | JsonQ => match v with VB b => json_quote b | _ => [] end
  | Fixed _ | VarStr _ | VarBytes | Key => match v with VB b => b | _ => [] end
  end.

Fixpoint enc_fields (fs : list fdesc) (r : row) : list byte :=
  match fs, r with
  | f :: fs', v :: r' => enc_field f v ++ enc_fields fs' r'
  | _, _ => []
  end.
Definition enc (l : layout) (r : row) : list byte := l_tag l ++ enc_fields (l_fields l) r.

(* the 32 bytes that are signed *)
Definition digest (l : layout) (r : row) : list byte := blake3 (enc l r).

(* ---------- well-formedness: what the types and verify() enforce ---------- *)
Definition cont (b : N) : bool := (128 <=? b) && (b <=? 191).
Definition rng (lo hi b : N) : bool := (lo <=? b) && (b <=? hi).
(* core::str::from_utf8 *)
Fixpoint utf8_n (l : list N) : bool :=
  match l with
  | [] => true
  | a :: r =>
      if a <=? 127 then utf8_n r
      else if rng 194 223 a then
        match r with b :: r1 => cont b && utf8_n r1 | _ => false end
      else if rng 224 239 a then
        match r with
        | b :: c :: r2 =>
            (if a =? 224 then rng 160 191 b else if a =? 237 then rng 128 159 b else cont b)
            && cont c && utf8_n r2
        | _ => false
        end
      else if rng 240 244 a then
        match r with
        | b :: c :: d :: r3 =>
            (if a =? 240 then rng 144 191 b else if a =? 244 then rng 128 143 b else cont b)
            && cont c && cont d && utf8_n r3
        | _ => false
        end
      else false
  end.
Definition utf8_valid (b : list byte) : bool := utf8_n (map bn b).

Definition is_nil {A} (l : list A) : bool := match l with [] => true | _ => false end.

Definition wf_simple (f : fdesc) (v : fval) : bool :=
  match f, v with
  | Fixed n, VB b => Nat.eqb (length b) n
  | I64le, VI z => ((- two63 <=? z) && (z <? two63))%Z
  | VarStr ne, VB b => utf8_valid b && (negb ne || negb (is_nil b))
  | JsonQ, VB b => utf8_valid b
  | VarBytes, VB b => true
  | Key, VB b => Nat.eqb (length b) 33 && match b with h :: _ => Byte.eqb h x01 | [] => false end
  | _, _ => false
  end.
Definition wf_field (f : fdesc) (v : fval) : bool :=
  match f with
  | Opt g | Flagged g => simple g && match v with VNone => true | _ => wf_simple g v end
  | LenPref g => simple g && wf_simple g v && (N.of_nat (length (enc_field g v)) <? 18446744073709551616)
  | _ => wf_simple f v
  end.
Fixpoint wf_fields (fs : list fdesc) (r : row) : bool :=
  match fs, r with
  | [], [] => true
  | f :: fs', v :: r' => wf_field f v && wf_fields fs' r'
  | _, _ => false
  end.
Definition sig_len : N := 64.
Definition wf_row (l : layout) (r : row) : bool :=
  wf_fields (l_fields l) r &&
  match l_maxlen l with
  | Some m => N.of_nat (length (enc_fields (l_fields l) r)) + sig_len <=? m
  | None => true
  end.

(* ---------- shape: presence of the optional fields and encoded length of every field ---------- *)
Definition fshape (f : fdesc) (v : fval) : N :=
  match v with VNone => 0 | _ => 1 + N.of_nat (length (enc_field f v)) end.
Fixpoint shape_fields (fs : list fdesc) (r : row) : list N :=
  match fs, r with
  | f :: fs', v :: r' => fshape f v :: shape_fields fs' r'
  | _, _ => []
  end.
Definition shape (l : layout) (r : row) : list N := shape_fields (l_fields l) r.

Definition fval_eqb (a b : fval) : bool :=
  match a, b with
  | VB x, VB y => bytes_eqb x y
  | VI x, VI y => Z.eqb x y
  | VNone, VNone => true
  | _, _ => false
  end.
Definition row_eqb (a b : row) : bool := list_eqb fval_eqb a b.

(* ---------- decision procedure: sufficient condition for unique decodability ---------- *)
(* self-delimiting: the end of the field is determined by its own first bytes *)
Definition sd (f : fdesc) : bool :=
  match f with
  | Fixed _ | I64le | Key => true
  | LenPref g => simple g
  | Flagged g => simple g && match g with Fixed _ | I64le | Key => true | _ => false end
  | _ => false
  end.
(* injective when it is the last field (its bytes are everything that remains) *)
Definition full_inj (f : fdesc) : bool :=
  match f with
  | Opt _ => false
  | Flagged g => simple g
  | LenPref g => simple g
  | _ => true
  end.
Fixpoint fields_ok (fs : list fdesc) : bool :=
  match fs with
  | [] => true
  | [f] => full_inj f
  | f :: fs' => sd f && fields_ok fs'
  end.
Fixpoint is_prefix (a b : list byte) : bool :=
  match a, b with
  | [], _ => true
  | x :: a', y :: b' => Byte.eqb x y && is_prefix a' b'
  | _ :: _, [] => false
  end.
Definition comparable (a b : list byte) : bool := is_prefix a b || is_prefix b a.
Fixpoint tags_ok (ls : list layout) : bool :=
  match ls with
  | [] => true
  | l :: r => forallb (fun l' => negb (comparable (l_tag l) (l_tag l'))) r && tags_ok r
  end.
Definition uniquely_decodable (ls : list layout) : bool :=
  forallb (fun l => fields_ok (l_fields l)) ls && tags_ok ls.

(* ---------- witness search: re-read the bytes of a default row under another plan ---------- *)
Definition a_ : byte := x61.
Definition i64_a : Z := 7016996765293437281%Z.        (* 0x6161616161616161: eight times 'a' *)
Fixpoint base_desc (f : fdesc) : fdesc :=
  match f with Opt g | Flagged g | LenPref g => base_desc g | _ => f end.
Definition default_val (key : list byte) (f : fdesc) : fval :=
  match base_desc f with
  | Fixed n => VB (repeat a_ n)
  | I64le => VI i64_a
  | VarStr _ => VB [x61; x62]
  | JsonQ => VB [x7b; x7d]                             (* {} *)
  | VarBytes => VB [x61; x62]
  | Key => VB key
  | _ => VNone
  end.
Definition default_row (key : list byte) (l : layout) : row := map (default_val key) (l_fields l).

(* the only JSON text the model itself knows to be an object (verify() asks serde_json) *)
Definition json_object_sure (b : list byte) : bool := bytes_eqb b [x7b; x7d].
Fixpoint json_sure_fields (fs : list fdesc) (r : row) : bool :=
  match fs, r with
  | f :: fs', v :: r' =>
      match base_desc f, v with
      | JsonQ, VB b => json_object_sure b
      | _, _ => true
      end && json_sure_fields fs' r'
  | _, _ => true
  end.
(* accepted by verify() as far as the row itself is concerned (the signature aside) *)
Definition acceptable (l : layout) (r : row) : bool :=
  wf_row l r && (negb (l_json_object l) || json_sure_fields (l_fields l) r).

Fixpoint n_of_le (l : list byte) : N :=
  match l with [] => 0 | b :: r => bn b + 256 * n_of_le r end.
Definition i64_of_le (l : list byte) : Z :=
  let n := Z.of_N (n_of_le l) in if (n <? two63)%Z then n else (n - two64)%Z.

(* inverse of json_quote, as far as needed (every result is re-encoded and compared) *)
Fixpoint unq (l : list byte) : option (list byte) :=
  match l with
  | [] => None
  | b :: r =>
      let n := bn b in
      if n =? 34 then (if is_nil r then Some [] else None)
      else if n =? 92 then
        match r with
        | e :: r' =>
            let m := bn e in
            let one (c : byte) := match unq r' with Some t => Some (c :: t) | None => None end in
            if m =? 34 then one x22 else if m =? 92 then one x5c
            else if m =? 98 then one x08 else if m =? 116 then one x09
            else if m =? 110 then one x0a else if m =? 102 then one x0c
            else if m =? 114 then one x0d
            else if m =? 117 then
              match r' with
              | _ :: _ :: h1 :: h2 :: r'' =>
                  match hexval (Ascii.ascii_of_N (bn h1)), hexval (Ascii.ascii_of_N (bn h2)), unq r'' with
                  | Some x, Some y, Some t => Some (nb (16 * x + y) :: t)
                  | _, _, _ => None
                  end
              | _ => None
              end
            else None
        | [] => None
        end
      else match unq r with Some t => Some (b :: t) | None => None end
  end.
Definition json_unquote (l : list byte) : option (list byte) :=
  match l with q :: r => if bn q =? 34 then unq r else None | [] => None end.

Definition is_var (f : fdesc) : bool :=
  match f with VarStr _ | JsonQ | VarBytes => true | _ => false end.
Definition min_len (f : fdesc) : nat :=
  match f with
  | Fixed n => n | I64le => 8%nat | Key => 33%nat
  | VarStr ne => if ne then 1%nat else 0%nat
  | JsonQ => 2%nat | _ => 0%nat
  end.
(* plans: for every field, is it present (optional fields: both choices) *)
Fixpoint all_pres (fs : list fdesc) : list (list bool) :=
  match fs with
  | [] => [[]]
  | f :: r =>
      let rest := all_pres r in
      match f with
      | Opt _ => map (cons true) rest ++ map (cons false) rest
      | _ => map (cons true) rest
      end
  end.
Fixpoint min_total (fs : list fdesc) (pres : list bool) : nat :=
  match fs, pres with
  | f :: r, p :: pr => ((if p then min_len (base_desc f) else 0) + min_total r pr)%nat
  | _, _ => 0%nat
  end.
(* read one value of descriptor g (simple) from exactly these bytes *)
Definition read_simple (g : fdesc) (b : list byte) : option fval :=
  match g with
  | I64le => Some (VI (i64_of_le b))
  | JsonQ => match json_unquote b with Some t => Some (VB t) | None => None end
  | Opt _ | Flagged _ | LenPref _ => None
  | _ => Some (VB b)
  end.
(* slice the bytes: field number `k` (if variable and present) takes the slack *)
Definition slice_at (fs : list fdesc) (pres : list bool) (k : nat) (b : list byte) : option row :=
  let m := min_total fs pres in
  if Nat.leb m (length b) then
    let slack := (length b - m)%nat in
    (fix go (fs : list fdesc) (pres : list bool) (i : nat) (b : list byte) {struct fs} : option row :=
       match fs, pres with
       | [], [] => if is_nil b then Some [] else None
       | f :: r, p :: pr =>
           match f with
           | Flagged _ | LenPref _ => None
           | _ =>
               if p then
                 let g := base_desc f in
                 let n := (min_len g + (if Nat.eqb i k && is_var g then slack else 0))%nat in
                 match read_simple g (firstn n b), go r pr (S i) (skipn n b) with
                 | Some v, Some t => if Nat.eqb (length (firstn n b)) n then Some (v :: t) else None
                 | _, _ => None
                 end
               else
                 match go r pr (S i) b with
                 | Some t => Some (VNone :: t)
                 | None => None
                 end
           end
       | _, _ => None
       end) fs pres 0%nat b
  else None.

Fixpoint strip_prefix (t b : list byte) : option (list byte) :=
  match t, b with
  | [], _ => Some b
  | x :: t', y :: b' => if Byte.eqb x y then strip_prefix t' b' else None
  | _ :: _, [] => None
  end.

Definition witness := (N * row * N * row)%type.
Definition is_collision (ls : list layout) (w : witness) : bool :=
  let '(k1, r1, k2, r2) := w in
  match nth_error ls (N.to_nat k1), nth_error ls (N.to_nat k2) with
  | Some l1, Some l2 =>
      acceptable l1 r1 && acceptable l2 r2 && bytes_eqb (enc l1 r1) (enc l2 r2)
      && negb (N.eqb k1 k2 && row_eqb r1 r2)
  | _, _ => false
  end.

Fixpoint index_from {A} (i : N) (l : list A) : list (N * A) :=
  match l with [] => [] | x :: r => (i, x) :: index_from (i + 1) r end.

Definition reparse (key : list byte) (ls : list layout) (k1 : N) (l1 : layout) (k2 : N) (l2 : layout) : list witness :=
  let r1 := default_row key l1 in
  match strip_prefix (l_tag l2) (enc l1 r1) with
  | None => []
  | Some body =>
      flat_map (fun pres =>
        flat_map (fun k =>
          match slice_at (l_fields l2) pres k body with
          | Some r2 => if is_collision ls (k1, r1, k2, r2) then [(k1, r1, k2, r2)] else []
          | None => []
          end) (seq 0 (length (l_fields l2))))
        (all_pres (l_fields l2))
  end.
Definition collide_all (key : list byte) (ls : list layout) : list witness :=
  let il := index_from 0 ls in
  flat_map (fun p1 => flat_map (fun p2 => reparse key ls (fst p1) (snd p1) (fst p2) (snd p2)) il) il.
Definition collide (key : list byte) (ls : list layout) : option witness := hd_error (collide_all key ls).
