(* Nested.v — first slice of tier T2: queries with nested entity / array references (any depth), on top of the
   T1 pieces of Eval.v (reference evaluator) and Sql.v (model of query.rs).
     eval_nodes    : reference evaluation: a row is returned if it satisfies its filters and every selected
                     reference that is not nullable has a non-empty nested result (under the nested query's own
                     filters, order, first / skip); the nested result is that list (an array reference) or
                     its first element / null (an entity reference)
     compile_level <- get_entity_query / get_sub_entity_query / get_fields (nested branch) / get_exists_query,
                      with the single parameter list threaded through select list, EXISTS sub-queries, filters,
                      paging, limit
     print2        <- the SQL text
     run_nodes     <- meaning of the statement: the select-list sub-query and the EXISTS sub-query of a reference
                      are evaluated separately, each with the limit the code gives it
   Slice: in a selection the scalar fields come first, then the references.  No proofs here. *)
From DV Require Export Eval Sql.
Open Scope list_scope.

(* ---- data: a row with, for each reference field of its entity, the rows it references (in the order the
        engine scans the edges: src, label, dest) ---- *)
Inductive node := Node (vals : row) (refs : list (list node)).
Definition nvals (n : node) : row := match n with Node v _ => v end.
Definition nrefs (n : node) : list (list node) := match n with Node _ r => r end.

(* ---- queries ---- *)
Record subinfo := {
  si_name : str;        (* field name or alias: key in the result, table alias in the statement *)
  si_ref : nat;         (* which reference field of the parent entity *)
  si_label : str;       (* its short name = _edge.label *)
  si_array : bool;      (* [Entity] or Entity *)
  si_nullable : bool }. (* nullable in the data model or named in nullable(..) of the parent query *)
Inductive q2 := Q2 (m : emodel) (base : query) (subs : list (subinfo * q2)).

Inductive jv := JS (v : val) | JO (fields : list jv) | JA (items : list jv).

(* ---- reference evaluator ---- *)
Definition opval (ps : params) (o : operand) : val := match operand_value ps o with Some v => v | None => VNull end.
Definition opint (ps : params) (o : operand) : Z := match opval ps o with VInt z => z | _ => 0 end.
Definition row_passes (m : emodel) (q : query) (ps : params) (r : row) : bool :=
  forallb (fun f => holds (fl_op f) (ref_value m q r (fl_ref f)) (opval ps (fl_val f))) (q_filters q)
  && match q_paging q with
     | PNone => true
     | PAfter vs => match lex_cmp (dirs q) (row_keys m q r) (map (opval ps) vs) with Gt => true | _ => false end
     | PBefore vs => match lex_cmp (dirs q) (row_keys m q r) (map (opval ps) vs) with Lt => true | _ => false end
     end.
Definition limit_nodes {A} (unique : bool) (n k : Z) (l : list A) : list A :=
  if unique then firstn 1 l
  else let l1 := if Z.leb k 0 then l else skipn' (Z.to_nat k) l in
       if Z.leb n 0 then l1 else firstn (Z.to_nat n) l1.
Definition nested_value (array : bool) (r : list jv) : jv :=
  if array then JA r else match r with x :: _ => x | [] => JS VNull end.

Fixpoint eval_nodes (Q : q2) (ps : params) (unique : bool) (nodes : list node) {struct Q} : list jv :=
  match Q with
  | Q2 m q subs =>
      let sub_results (nd : node) : list (subinfo * list jv) :=
        map (fun p : subinfo * q2 => (fst p, eval_nodes (snd p) ps (negb (si_array (fst p))) (nth (si_ref (fst p)) (nrefs nd) []))) subs in
      let passing := filter (fun nd => row_passes m q ps (nvals nd)
                                       && forallb (fun sr : subinfo * list jv => si_nullable (fst sr) || negb (match snd sr with [] => true | _ => false end))
                                                  (sub_results nd)) nodes in
      let sorted := isort (fun a b => lex_cmp (dirs q) (row_keys m q (nvals a)) (row_keys m q (nvals b))) passing in
      let limited := limit_nodes unique (opint ps (q_first q)) (match q_skip q with Some o => opint ps o | None => 0 end) sorted in
      map (fun nd => JO (map JS (project m q (nvals nd)) ++
                         map (fun sr : subinfo * list jv => nested_value (si_array (fst sr)) (snd sr)) (sub_results nd))) limited
  end.
Definition eval2 (Q : q2) (ps : params) (nodes : list node) : list jv := eval_nodes Q ps false nodes.

(* ---- compiled statement ---- *)
Inductive header := HTop | HSub (parent : str) (label : str).
Inductive cq2 := CQ (m : emodel) (core : stmt) (sel_subs : list (subinfo * cq2)) (exists_subs : list (subinfo * cq2)).

Definition quoted (s : str) : str := 34%N :: s ++ [34%N].

(* is_unique_value of the EXISTS sub-query (get_exists_query): true for an entity reference, false for an array *)
Definition exists_unique (si : subinfo) : bool := negb (si_array si).

Fixpoint compile_level (Q : q2) (table : str) (unique : bool) (vo : list pentry) {struct Q} : list pentry * cq2 :=
  match Q with
  | Q2 m q subs =>
      let '(vo1, sel) := compile_sel m vo (q_sel q) in
      (* get_fields: the nested sub-queries of the select list, in order *)
      let '(vo2, sel_subs) :=
        fold_left (fun (acc : list pentry * list (subinfo * cq2)) (p : subinfo * q2) =>
                     let '(v, c) := compile_level (snd p) (quoted (si_name (fst p))) (negb (si_array (fst p))) (fst acc) in
                     (v, snd acc ++ [(fst p, c)])) subs (vo1, []) in
      (* get_exists_query: once more for every reference that is not nullable *)
      let '(vo3, ex_subs) :=
        fold_left (fun (acc : list pentry * list (subinfo * cq2)) (p : subinfo * q2) =>
                     if si_nullable (fst p) then acc
                     else let '(v, c) := compile_level (snd p) (quoted (si_name (fst p))) (exists_unique (fst p)) (fst acc) in
                          (v, snd acc ++ [(fst p, c)])) subs (vo2, []) in
      let '(vo4, fs) := compile_filters m q vo3 (q_filters q) in
      let '(vo5, pg) := compile_disjs (is_before (q_paging q)) vo4 [] (combine (q_order q) (paging_values (q_paging q))) in
      let '(vo6, lim, off) := if unique then (vo5, Some (XInt 1), None) else compile_limit vo5 q in
      (vo6, CQ m {| st_table := table; st_eshort := em_short m; st_sel := sel; st_filters := fs; st_paging := pg;
                  st_order := map (fun k => (ref_sx (ok_ref k), ok_dir k)) (q_order q);
                  st_limit := lim; st_offset := off |} sel_subs ex_subs)
  end.
Definition q2_model (Q : q2) : emodel := match Q with Q2 m _ _ => m end.
Definition q2_base (Q : q2) : query := match Q with Q2 _ q _ => q end.
Definition compile2 (Q : q2) : list pentry * cq2 := compile_level Q (sql_aliased_name (q2_model Q) (q2_base Q)) false [].

(* ---- printer ---- *)
Definition print_tail (m : emodel) (s : stmt) : str :=
  let names := map ss_name (st_sel s) in
  (match st_filters s with
   | [] => []
   | fs => lit "AND " ++ sep_concat (lit " AND ") (map (print_filter m names) fs)
   end) ++
  (match st_paging s with
   | [] => []
   | ds => lit " AND (" ++ sep_concat (lit " OR ") (map (print_disj m names (Nat.ltb 1 (List.length ds))) ds) ++ lit ") "
   end) ++
  (match st_order s with
   | [] => []
   | os => lit " ORDER BY " ++ sep_concat (lit ", ") (map (print_order m names) os)
   end) ++
  sp ++
  (match st_limit s with Some l => lit "LIMIT " ++ print_ref m names l | None => [] end) ++
  (match st_offset s with Some o => lit " OFFSET " ++ print_ref m names o | None => [] end).

Fixpoint print_level (c : cq2) (h : header) {struct c} : str :=
  match c with
  | CQ m s sel_subs ex_subs =>
      let names := map ss_name (st_sel s) in
      let nested_item (p : subinfo * cq2) : str :=
        let si := fst p in
        let inner := print_level (snd p) (HSub (st_table s) (si_label si)) in
        lit "'" ++ si_name si ++ lit "', ( " ++
        (if si_array si then lit "SELECT json_group_array(value->'$') as value FROM ( " ++ inner ++ lit " ) )"
         else inner ++ lit " )->'$'") in
      let exists_item (p : subinfo * cq2) : str :=
        lit "AND EXISTS ( " ++ print_level (snd p) (HSub (st_table s) (si_label (fst p))) ++ lit " ) " in
      lit "SELECT json_object( " ++
      sep_concat (lit ", ") (map (print_sel m names) (st_sel s) ++ map nested_item sel_subs) ++
      lit ") as value " ++
      (match h with
       | HTop => lit "FROM _node " ++ st_table s ++ lit " WHERE " ++ st_table s ++ lit "._entity='" ++ st_eshort s ++ lit "' "
       | HSub parent label =>
           lit "FROM _edge JOIN _node " ++ st_table s ++ lit " on _edge.dest=" ++ st_table s ++ lit ".id AND _edge.label='" ++ label ++
           lit "' WHERE " ++ st_table s ++ lit "._entity='" ++ st_eshort s ++ lit "' AND _edge.src=" ++ parent ++ lit ".id "
       end) ++
      flat_map exists_item ex_subs ++
      print_tail m s
  end.
Definition print2 (c : cq2) : str :=
  lit "SELECT json_group_array(value->'$') FROM ( " ++ print_level c HTop ++ lit " )".

(* ---- meaning of the statement ---- *)
Definition lim_z (binds : list sval) (o : option sx) : option Z :=
  match o with
  | None => None
  | Some x => match sx_eval binds [] [] x with SInt z => Some z | _ => None end
  end.
Definition sql_limit {A} (lim off : option Z) (l : list A) : list A :=
  let l1 := match off with Some k => if Z.leb k 0 then l else skipn' (Z.to_nat k) l | None => l end in
  match lim with Some n => if Z.ltb n 0 then l1 else firstn (Z.to_nat n) l1 | None => l1 end.

Fixpoint run_nodes (c : cq2) (binds : list sval) (nodes : list node) {struct c} : list jv :=
  match c with
  | CQ _ s sel_subs ex_subs =>
      let passing := filter (fun nd =>
                               is_true (where_eval binds (nvals nd) (json_object binds s (nvals nd)) s)
                               && forallb (fun p : subinfo * cq2 =>
                                             negb (match run_nodes (snd p) binds (nth (si_ref (fst p)) (nrefs nd) []) with [] => true | _ => false end))
                                          ex_subs) nodes in
      let sorted := ssort (fun a b => srow_cmp binds s (nvals a) (nvals b)) passing in
      let limited := sql_limit (lim_z binds (st_limit s)) (lim_z binds (st_offset s)) sorted in
      map (fun nd => JO (map JS (json_object binds s (nvals nd)) ++
                         map (fun p : subinfo * cq2 =>
                                nested_value (si_array (fst p)) (run_nodes (snd p) binds (nth (si_ref (fst p)) (nrefs nd) []))) sel_subs)) limited
  end.

Definition run_query2 (Q : q2) (nodes : list node) (ps : params) : option (list jv) :=
  let '(vo, c) := compile2 Q in
  match bind vo ps with
  | Some binds => Some (run_nodes c binds nodes)
  | None => None
  end.
