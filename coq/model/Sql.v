(* Sql.v — model of src/database/query.rs for the T1 fragment (one entity, scalar fields):
     compile   <- SingleQuery::build / get_entity_query / get_fields / get_where_filters /
                  get_paging / get_order / get_limit, with the parameter list of add_param
     print     <- the SQL text these functions assemble (format strings transliterated)
     run_sql   <- meaning of the emitted statement in SQLite: three-valued predicates, `IS`,
                  CASE, json ->> extraction, Ifnull defaults, ORDER BY with NULLs first,
                  LIMIT/OFFSET, json_object / json_group_array of the selected fields.
   The code is modelled as it is at the current commit (after the fix commits e64e320, 43340e7, 936f709, 043e710,
   601cdc3).  No proofs here. *)
From DV Require Export QLang.
Open Scope list_scope.

(* ---------- SQLite values and three-valued logic ---------- *)
Inductive sval := SNull | SInt (z : Z) | SReal (q : Z) | SText (s : str).   (* SReal q = q/4 *)

Definition to_sql (v : val) : sval :=        (* json ->> extraction / rusqlite ToSql of a parameter *)
  match v with
  | VNull => SNull
  | VBool b => SInt (if b then 1 else 0)
  | VInt z => SInt z
  | VFlt q => SReal q
  | VStr s => SText s
  end.
Definition of_sql (v : sval) : val :=        (* a SQL value placed into json_object *)
  match v with SNull => VNull | SInt z => VInt z | SReal q => VFlt q | SText s => VStr s end.

Definition snum4 (v : sval) : option Z :=
  match v with SInt z => Some (4 * z) | SReal q => Some q | _ => None end.
(* SQLite's comparison of two values without affinity: NULL < numbers < text; numbers by value; text by memcmp *)
Definition scmp (a b : sval) : comparison :=
  match a, b with
  | SNull, SNull => Eq
  | SNull, _ => Lt
  | _, SNull => Gt
  | SText s, SText t => str_cmp s t
  | SText _, _ => Gt
  | _, SText _ => Lt
  | _, _ => match snum4 a, snum4 b with Some x, Some y => Z.compare x y | _, _ => Eq end
  end.

Definition tv := option bool.                 (* None = NULL *)
Definition is_true (t : tv) : bool := match t with Some true => true | _ => false end.
Definition tv_or (a b : tv) : tv :=
  match a, b with
  | Some true, _ | _, Some true => Some true
  | Some false, Some false => Some false
  | _, _ => None
  end.
Definition tv_and (a b : tv) : tv :=
  match a, b with
  | Some false, _ | _, Some false => Some false
  | Some true, Some true => Some true
  | _, _ => None
  end.

Inductive sop := SCmp (op : cmpop) | SIs | SIsNot.
Definition s_is (a b : sval) : bool :=
  match a, b with
  | SNull, SNull => true
  | SNull, _ | _, SNull => false
  | _, _ => match scmp a b with Eq => true | _ => false end
  end.
Definition sop_eval (o : sop) (a b : sval) : tv :=
  match o with
  | SCmp op => match a, b with
               | SNull, _ | _, SNull => None
               | _, _ => Some (test op (scmp a b))
               end
  | SIs => Some (s_is a b)
  | SIsNot => Some (negb (s_is a b))
  end.

(* ---------- the emitted statement ---------- *)
Inductive sx :=
| XRaw (i : nat)          (* _json->>'$.<short name of field i>' *)
| XOut (k : nat)          (* value->>'$.<name of the k-th selected field>' *)
| XBool (b : bool) | XInt (z : Z) | XNull
| XFlt (q : Z)            (* a float written by sql_float: exponent form, always read as a REAL *)
| XFltD (q : Z)           (* a float default in the WHEN of a filter: still written with Display *)
| XParam (i : nat).       (* ?i *)

Inductive sfilter :=
| FPlain (o : sop) (x v : sx)                (* x op v *)
| FCase (d : sx) (o : sop) (x v : sx).       (* CASE WHEN d op v THEN x op v OR x is null ELSE x op v END *)
Record pdisj := { pd_eqs : list (sx * sx); pd_last : sx * cmpop * sx }.
Record ssel := { ss_name : str; ss_field : nat; ss_default : option sx }.
Record stmt := {
  st_table : str; st_eshort : str;
  st_sel : list ssel;
  st_filters : list sfilter;
  st_paging : list pdisj;
  st_order : list (sx * dir);
  st_limit : option sx;
  st_offset : option sx }.

(* ---------- add_param ---------- *)
Definition pentry := (bool * str)%type.       (* Param { internal, value } *)
(* a variable shares the slot of the same variable only, never the slot of a literal *)
Fixpoint find_param (name : str) (vo : list pentry) (i : nat) : option nat :=
  match vo with
  | [] => None
  | p :: t => if negb (fst p) && str_eqb name (snd p) then Some i else find_param name t (S i)
  end.
(* returns the new list and the 1-based index written as ?i *)
Definition add_param (vo : list pentry) (value : str) (internal : bool) : list pentry * nat :=
  if internal then (vo ++ [(true, value)], S (List.length vo))
  else match find_param value vo 0 with
       | Some i => (vo, S i)
       | None => (vo ++ [(false, value)], S (List.length vo))
       end.

(* a filter / paging / limit value as it is written into the statement *)
Definition operand_sx (vo : list pentry) (o : operand) : list pentry * sx :=
  match o with
  | OVar n => let '(vo', i) := add_param vo n false in (vo', XParam i)
  | OLit (VBool b) => (vo, XBool b)
  | OLit (VInt z) => (vo, XInt z)
  | OLit (VFlt q) => (vo, XFlt q)
  | OLit (VStr s) => let '(vo', i) := add_param vo s true in (vo', XParam i)
  | OLit VNull => (vo, XNull)
  end.

(* ---------- compile ---------- *)
Definition sql_aliased_name (m : emodel) (q : query) : str :=      (* quoted: it may be an SQL keyword *)
  34%N :: map (fun c => if N.eqb c 46 then 36%N else c) (match q_alias q with Some a => a | None => em_name m end) ++ [34%N].
Definition aliased_name (m : emodel) (q : query) : str :=
  match q_alias q with Some a => a | None => em_name m end.

(* get_fields, Scalar case *)
Fixpoint compile_sel (m : emodel) (vo : list pentry) (sel : list selfield) : list pentry * list ssel :=
  match sel with
  | [] => (vo, [])
  | sf :: t =>
      let dflt := match field_def m (sf_field sf) with Some fd => fd_default fd | None => None end in
      let '(vo1, d) :=
        match dflt with
        | None | Some VNull => (vo, None)
        | Some (VBool b) => (vo, Some (XBool b))
        | Some (VInt z) => (vo, Some (XInt z))
        | Some (VFlt x) => (vo, Some (XFlt x))
        | Some (VStr s) => let '(vo', i) := add_param vo s true in (vo', Some (XParam i))
        end in
      let '(vo2, rest) := compile_sel m vo1 t in
      (vo2, {| ss_name := sel_name m sf; ss_field := sf_field sf; ss_default := d |} :: rest)
  end.

Definition ref_sx (r : fref) : sx := match r with FByName i => XRaw i | FByAlias k => XOut k end.

(* the WHEN operand: numbers and booleans are written as text, String defaults are bound like the Ifnull
   default of the select list *)
Definition default_sx (vo : list pentry) (d : val) : list pentry * sx :=
  match d with
  | VBool b => (vo, XBool b) | VInt z => (vo, XInt z) | VFlt x => (vo, XFltD x) | VNull => (vo, XNull)
  | VStr s => let '(vo', i) := add_param vo s true in (vo', XParam i)
  end.

(* get_where_filters, scalar non-system field *)
Fixpoint compile_filters (m : emodel) (q : query) (vo : list pentry) (fs : list qfilter) : list pentry * list sfilter :=
  match fs with
  | [] => (vo, [])
  | f :: t =>
      let '(vo1, v) := operand_sx vo (fl_val f) in
      let o := match fl_val f, fl_op f with
               | OLit VNull, OEq => SIs
               | OLit VNull, ONe => SIsNot
               | _, op => SCmp op
               end in
      let dflt := match ref_field q (fl_ref f) with
                  | Some i => match field_def m i with Some fd => fd_default fd | None => None end
                  | None => None
                  end in
      let '(vo2, sf) := match dflt with
                        | Some d => let '(vo', dx) := default_sx vo1 d in (vo', FCase dx o (ref_sx (fl_ref f)) v)
                        | None => (vo1, FPlain o (ref_sx (fl_ref f)) v)
                        end in
      let '(vo3, rest) := compile_filters m q vo2 t in
      (vo3, sf :: rest)
  end.

(* get_paging: for i in 0..len { for j in 0..i { key_j = value_j AND } key_i ope value_i } joined by OR;
   every mention of a value goes through add_param again *)
Fixpoint compile_eqs (vo : list pentry) (kvs : list (okey * operand)) : list pentry * list (sx * sx) :=
  match kvs with
  | [] => (vo, [])
  | (k, o) :: t =>
      let '(vo1, v) := operand_sx vo o in
      let '(vo2, rest) := compile_eqs vo1 t in
      (vo2, (ref_sx (ok_ref k), v) :: rest)
  end.
Definition paging_op (before : bool) (d : dir) : cmpop :=
  match d, before with
  | Asc, true => OLt | Asc, false => OGt
  | Desc, true => OGt | Desc, false => OLt
  end.
Fixpoint compile_disjs (before : bool) (vo : list pentry) (done : list (okey * operand)) (todo : list (okey * operand))
  : list pentry * list pdisj :=
  match todo with
  | [] => (vo, [])
  | (k, o) :: t =>
      let '(vo1, eqs) := compile_eqs vo done in
      let '(vo2, v) := operand_sx vo1 o in
      let '(vo3, rest) := compile_disjs before vo2 (done ++ [(k, o)]) t in
      (vo3, {| pd_eqs := eqs; pd_last := (ref_sx (ok_ref k), paging_op before (ok_dir k), v) |} :: rest)
  end.

(* get_limit: `LIMIT n` / ` OFFSET n` are written for a variable, or for a literal other than 0 *)
Definition limit_sx (vo : list pentry) (o : operand) : list pentry * option sx :=
  match o with
  | OVar n => let '(vo', i) := add_param vo n false in (vo', Some (XParam i))
  | OLit (VInt z) => (vo, if Z.eqb z 0 then None else Some (XInt z))
  | OLit _ => (vo, None)
  end.
Definition compile_limit (vo : list pentry) (q : query) : list pentry * option sx * option sx :=
  let '(vo1, lim0) := limit_sx vo (q_first q) in
  (* OFFSET is only valid after LIMIT: `LIMIT -1` (no limit) is written when skip is given without first *)
  let lim := match lim0, q_skip q with None, Some _ => Some (XInt (-1)) | l, _ => l end in
  let '(vo2, off) := match q_skip q with None => (vo1, None) | Some o => limit_sx vo1 o end in
  (vo2, lim, off).

Definition compile (m : emodel) (q : query) : list pentry * stmt :=
  let '(vo1, sel) := compile_sel m [] (q_sel q) in
  let '(vo2, fs) := compile_filters m q vo1 (q_filters q) in
  let '(vo3, pg) := compile_disjs (is_before (q_paging q)) vo2 [] (combine (q_order q) (paging_values (q_paging q))) in
  let '(vo4, lim, off) := compile_limit vo3 q in
  (vo4, {| st_table := sql_aliased_name m q; st_eshort := em_short m; st_sel := sel; st_filters := fs;
           st_paging := pg; st_order := map (fun k => (ref_sx (ok_ref k), ok_dir k)) (q_order q);
           st_limit := lim; st_offset := off |}).

(* ---------- printer ---------- *)
Fixpoint digits (fuel : nat) (n : N) (acc : str) : str :=
  match fuel with
  | O => acc
  | S f => let acc' := (48 + N.modulo n 10)%N :: acc in
           if N.ltb n 10 then acc' else digits f (N.div n 10) acc'
  end.
Definition dec_N (n : N) : str := digits 40 n [].
Definition dec_Z (z : Z) : str := if Z.ltb z 0 then 45%N :: dec_N (Z.to_N (- z)) else dec_N (Z.to_N z).
(* f64 Display of q/4 *)
Definition dec_q4 (q : Z) : str :=
  let a := Z.abs q in
  let ip := dec_N (Z.to_N (a / 4)) in
  let fr := match a mod 4 with 0 => [] | 1 => lit ".25" | 2 => lit ".5" | _ => lit ".75" end in
  (if Z.ltb q 0 then [45%N] else []) ++ ip ++ fr.

(* f64 LowerExp ({:e}) of q/4: shortest digits = the exact decimal digits of |q|*25 / 100 *)
Fixpoint strip_zeros (l : str) : str :=     (* on the reversed digits *)
  match l with 48%N :: t => strip_zeros t | _ => l end.
Definition sci_q4 (q : Z) : str :=
  if Z.eqb q 0 then lit "0e0" else
  let ds := dec_N (Z.to_N (Z.abs q * 25)) in
  let e := Z.of_nat (List.length ds) - 3 in
  let m := rev (strip_zeros (rev ds)) in
  (if Z.ltb q 0 then [45%N] else []) ++
  match m with
  | [] => lit "0"
  | [d] => [d]
  | d :: r => d :: 46%N :: r
  end ++ 101%N :: dec_Z e.

Definition sp : str := [32%N].
Definition field_short (m : emodel) (i : nat) : str :=
  match field_def m i with Some fd => fd_short fd | None => [] end.
Definition print_ref (m : emodel) (names : list str) (x : sx) : str :=
  match x with
  | XRaw i => lit "_json->>'$." ++ field_short m i ++ lit "'"
  | XOut k => lit "value->>'$." ++ nth k names [] ++ lit "'"
  | XBool b => if b then lit "true" else lit "false"
  | XInt z => dec_Z z
  | XFlt q => sci_q4 q
  | XFltD q => dec_q4 q
  | XNull => lit "null"
  | XParam i => 63%N :: dec_N (N.of_nat i)
  end.
Definition print_cmpop (op : cmpop) : str :=
  match op with OEq => lit "=" | ONe => lit "!=" | OLt => lit "<" | OLe => lit "<=" | OGt => lit ">" | OGe => lit ">=" end.
Definition print_sop (o : sop) : str :=
  match o with SCmp op => print_cmpop op | SIs => lit "is" | SIsNot => lit "is not" end.

Fixpoint sep_concat (sep : str) (l : list str) : str :=
  match l with [] => [] | [x] => x | x :: t => x ++ sep ++ sep_concat sep t end.

Definition print_sel (m : emodel) (names : list str) (s : ssel) : str :=
  let js := lit "_json->'$." ++ field_short m (ss_field s) ++ lit "'" in
  match ss_default s with
  | Some d => lit "'" ++ ss_name s ++ lit "',Ifnull(" ++ js ++ lit "," ++ print_ref m names d ++ lit ")"
  | None => lit "'" ++ ss_name s ++ lit "'," ++ js
  end.
Definition print_filter (m : emodel) (names : list str) (f : sfilter) : str :=
  let P := print_ref m names in
  match f with
  | FPlain o x v => P x ++ sp ++ print_sop o ++ sp ++ P v
  | FCase d o x v =>
      lit "CASE WHEN " ++ P d ++ sp ++ print_sop o ++ sp ++ P v ++ lit " THEN " ++
      P x ++ sp ++ print_sop o ++ sp ++ P v ++ lit " OR " ++ P x ++ lit " is null ELSE " ++
      P x ++ sp ++ print_sop o ++ sp ++ P v ++ lit " END"
  end.
Definition print_disj (m : emodel) (names : list str) (many : bool) (d : pdisj) : str :=
  let P := print_ref m names in
  let '(x, op, v) := pd_last d in
  (if many then lit "(" else []) ++
  flat_map (fun e => P (fst e) ++ lit " = " ++ P (snd e) ++ lit " AND ") (pd_eqs d) ++
  P x ++ sp ++ print_cmpop op ++ sp ++ P v ++
  (if many then lit ")" else []).
Definition print_order (m : emodel) (names : list str) (o : sx * dir) : str :=
  print_ref m names (fst o) ++ (match snd o with Asc => lit " asc " | Desc => lit " desc " end).

Definition print (m : emodel) (s : stmt) : str :=
  let names := map ss_name (st_sel s) in
  lit "SELECT json_group_array(value->'$') FROM ( SELECT json_object(" ++
  flat_map (fun x => sp ++ x) (match st_sel s with [] => [] | _ => [sep_concat (lit ", ") (map (print_sel m names) (st_sel s))] end) ++
  lit ") as value FROM _node " ++ st_table s ++ lit " WHERE " ++ st_table s ++ lit "._entity='" ++ st_eshort s ++ lit "' " ++
  (match st_filters s with
   | [] => []
   | fs => lit "AND " ++ sep_concat (lit " AND ") (map (print_filter m names) fs)
   end) ++
  (match st_paging s with
   | [] => []
   | ds => lit " AND (" ++ sep_concat (lit " OR ") (map (print_disj m names (Nat.ltb 1 (List.length ds))) ds) ++ lit ") "
   end) ++
  (match st_order s with
   | [] => []
   | os => lit " ORDER BY " ++ sep_concat (lit ", ") (map (print_order m names) os)
   end) ++
  sp ++
  (match st_limit s with Some l => lit "LIMIT " ++ print_ref m names l | None => [] end) ++
  (match st_offset s with Some o => lit " OFFSET " ++ print_ref m names o | None => [] end) ++
  lit " )".

(* whitespace runs -> one space, trimmed; a space next to '(' ')' ',' carries no meaning in SQL and is
   dropped as well (the harness normalises the real text in the same way) *)
Definition is_ws (c : N) : bool := N.eqb c 32 || N.eqb c 9 || N.eqb c 10 || N.eqb c 13.
Definition is_punct (c : N) : bool := N.eqb c 40 || N.eqb c 41 || N.eqb c 44.
Fixpoint norm_go (l : str) (pending : bool) (prev_punct : bool) : str :=
  match l with
  | [] => []
  | c :: t =>
      if is_ws c then norm_go t true prev_punct
      else if is_punct c then c :: norm_go t false true
      else (if pending && negb prev_punct then [32%N] else []) ++ c :: norm_go t false false
  end.
Definition norm_ws (l : str) : str := norm_go l false true.

(* ---------- meaning of the statement ---------- *)
Definition bind (vo : list pentry) (ps : params) : option (list sval) :=
  all_some (map (fun p : pentry => if fst p then Some (SText (snd p)) else option_map to_sql (lookup (snd p) ps)) vo).

Section Row.
  Variable binds : list sval.
  Variable r : row.          (* stored values of the row *)
  Variable out : list val.   (* the json_object of the row: selected values, Ifnull applied *)

  Definition sx_eval (x : sx) : sval :=
    match x with
    | XRaw i => to_sql (nth i r VNull)
    | XOut k => to_sql (nth k out VNull)
    | XBool b => SInt (if b then 1 else 0)
    | XInt z => SInt z
    | XFlt q => SReal q
    | XFltD q => SReal q    (* `2` for 2.0 is an INTEGER literal: numerically equal *)
    | XNull => SNull
    | XParam i => nth (pred i) binds SNull
    end.
  Definition filter_eval (f : sfilter) : tv :=
    match f with
    | FPlain o x v => sop_eval o (sx_eval x) (sx_eval v)
    | FCase d o x v =>
        if is_true (sop_eval o (sx_eval d) (sx_eval v))
        then tv_or (sop_eval o (sx_eval x) (sx_eval v)) (sop_eval SIs (sx_eval x) SNull)
        else sop_eval o (sx_eval x) (sx_eval v)
    end.
  Definition disj_eval (d : pdisj) : tv :=
    let '(x, op, v) := pd_last d in
    fold_right (fun e acc => tv_and (sop_eval (SCmp OEq) (sx_eval (fst e)) (sx_eval (snd e))) acc)
               (sop_eval (SCmp op) (sx_eval x) (sx_eval v)) (pd_eqs d).
  Definition where_eval (s : stmt) : tv :=
    let fs := fold_right (fun f acc => tv_and (filter_eval f) acc) (Some true) (st_filters s) in
    match st_paging s with
    | [] => fs
    | ds => tv_and fs (fold_right (fun d acc => tv_or (disj_eval d) acc) (Some false) ds)
    end.
End Row.

Definition sel_value (binds : list sval) (r : row) (s : ssel) : val :=
  match nth (ss_field s) r VNull, ss_default s with
  | VNull, Some d => of_sql (sx_eval binds r [] d)
  | v, _ => v
  end.
Definition json_object (binds : list sval) (s : stmt) (r : row) : list val :=
  map (sel_value binds r) (st_sel s).

Definition order_cmp (ks : list (sval * sval * dir)) : comparison :=
  fold_right (fun k acc => let '(a, b, d) := k in
                           match (match d with Asc => scmp a b | Desc => scmp b a end) with Eq => acc | c => c end)
             Eq ks.
Definition srow_cmp (binds : list sval) (s : stmt) (a b : row) : comparison :=
  order_cmp (map (fun o => (sx_eval binds a (json_object binds s a) (fst o),
                            sx_eval binds b (json_object binds s b) (fst o), snd o)) (st_order s)).

Fixpoint sinsert {A} (cmp : A -> A -> comparison) (x : A) (l : list A) : list A :=
  match l with
  | [] => [x]
  | y :: t => match cmp x y with Gt => y :: sinsert cmp x t | _ => x :: y :: t end
  end.
Definition ssort {A} (cmp : A -> A -> comparison) (l : list A) : list A := fold_right (sinsert cmp) [] l.

Definition lim_value (binds : list sval) (o : option sx) : option (option Z) :=
  match o with
  | None => Some None
  | Some x => match sx_eval binds [] [] x with SInt z => Some (Some z) | _ => None end
  end.

(* None = the engine reports an error *)
Definition run_sql (rows : db) (s : stmt) (binds : list sval) : option (list (list val)) :=
  match lim_value binds (st_limit s), lim_value binds (st_offset s) with
  | Some lim, Some off =>
      let sel := filter (fun r => is_true (where_eval binds r (json_object binds s r) s)) rows in
      let sorted := ssort (srow_cmp binds s) sel in
      let skipped := match off with Some k => if Z.leb k 0 then sorted else skipn' (Z.to_nat k) sorted | None => sorted end in
      let limited := match lim with Some n => if Z.ltb n 0 then skipped else firstn (Z.to_nat n) skipped | None => skipped end in
      Some (map (json_object binds s) limited)
  | _, _ => None
  end.

(* Query::read for one entity query: bind the parameters, run the statement *)
Definition run_query (m : emodel) (rows : db) (q : query) (ps : params) : option (list (list val)) :=
  let '(vo, s) := compile m q in
  match bind vo ps with
  | Some binds => run_sql rows s binds
  | None => None
  end.
