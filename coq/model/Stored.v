(* Stored.v — write model of the stores at the granularity the property needs (C06 "stored" part):
   rows are written WHOLE (every column of a stored row comes from one row that was verified /
   signed as a whole at the entry point), never column by column.
     PeerNodes::write (system_entities.rs)      insert the received sys.Peer row unless (id, entity) exists
     Node::write / Edge::write (node.rs, edge.rs)   replace the row of that key by the new whole row
     deletions, deletion logs                   remove by key / append the whole record
   No proofs here (proofs/C06P.v). *)
From DV Require Export Base.
Local Open Scope N_scope.

Section WholeRows.
  Variable row : Type.
  Variable same_key : row -> row -> bool.
  Definition insert_if_absent (s : list row) (r : row) : list row := if existsb (same_key r) s then s else s ++ [r].
  Definition upsert (s : list row) (r : row) : list row := filter (fun x => negb (same_key r x)) s ++ [r].
  Definition delete_key (s : list row) (r : row) : list row := filter (fun x => negb (same_key r x)) s.
  Inductive wop := WInsert (r : row) | WUpsert (r : row) | WDelete (r : row) | WAppend (r : row).
  Definition wstep (s : list row) (o : wop) : list row :=
    match o with
    | WInsert r => insert_if_absent s r
    | WUpsert r => upsert s r
    | WDelete r => delete_key s r
    | WAppend r => s ++ [r]
    end.
  Definition wrow (o : wop) : option row := match o with WDelete _ => None | WInsert r | WUpsert r | WAppend r => Some r end.
End WholeRows.

(* ---- sys.Peer rows: what a stored row holds, column by column ---- *)
(* a crafted / received sys.Peer row, signed as a whole by pr_key *)
Record prow := { pr_id : N; pr_key : N; pr_mdate : Z; pr_json : N }.
(* a stored row: the columns, and whose signature sits in the _signature column (index of the row of
   the scenario that was signed) *)
Record srow := { s_id : N; s_key : N; s_mdate : Z; s_json : N; s_sig : nat }.
Definition whole (j : nat) (x : prow) : srow :=
  {| s_id := pr_id x; s_key := pr_key x; s_mdate := pr_mdate x; s_json := pr_json x; s_sig := j |}.
(* Node::verify on a stored row: the signature in the row is the signature of exactly these columns *)
Definition verifies (rows : list prow) (s : srow) : bool :=
  match nth_error rows (s_sig s) with
  | Some x => N.eqb (pr_id x) (s_id s) && N.eqb (pr_key x) (s_key s) && Z.eqb (pr_mdate x) (s_mdate s) && N.eqb (pr_json x) (s_json s)
  | None => false
  end.
Definition same_id (a b : srow) : bool := N.eqb (s_id a) (s_id b).
(* add_peer_nodes of row number j *)
Definition peer_write (rows : list prow) (store : list srow) (j : nat) : list srow :=
  match nth_error rows j with
  | Some x => insert_if_absent srow same_id store (whole j x)
  | None => store
  end.
Definition init_store (rows : list prow) (js : list nat) : list srow :=
  flat_map (fun j => match nth_error rows j with Some x => [whole j x] | None => [] end) js.

(* instances: one store each; an operation = (instance, row number) *)
Fixpoint set_nth {A} (n : nat) (v : A) (l : list A) : list A :=
  match l, n with
  | [], _ => []
  | _ :: t, O => v :: t
  | x :: t, S k => x :: set_nth k v t
  end.
Definition peer_op (rows : list prow) (stores : list (list srow)) (o : nat * nat) : list (list srow) :=
  match nth_error stores (fst o) with
  | Some s => set_nth (fst o) (peer_write rows s (snd o)) stores
  | None => stores
  end.
Definition peer_run (rows : list prow) (init : list (list nat)) (ops : list (nat * nat)) : list (list srow) :=
  fold_left (peer_op rows) ops (map (init_store rows) init).

(* Peer::get_node(key): some stored row with that verifying key *)
Definition served (store : list srow) (k : N) : option srow := find (fun s => N.eqb (s_key s) k) store.

Fixpoint insert_sorted (x : srow) (l : list srow) : list srow :=
  match l with
  | [] => [x]
  | y :: t => if N.leb (s_id x) (s_id y) then x :: l else y :: insert_sorted x t
  end.
Definition sort_by_id (l : list srow) : list srow := fold_right insert_sorted [] l.
