(* Lock.v — model of src/synchronisation/room_locking_service.rs (RoomLockService::start,
   acquire_lock) and of the lock-related part of src/synchronisation/peer_inbound_service.rs
   (process_acquired_room, the end-of-connection cleanup).  As the code is.  No proofs here.

   Representation.
   * A Rust VecDeque is a list stored BACK FIRST: the head of the list is the back of the deque.
       pop_back        = take the head           push_back x  = x :: l
       push_front x    = l ++ [x]
   * peer_lock_request (HashMap circuit -> PeerLockRequest) and peer_queue (VecDeque circuit) are
     one list of entries in queue order: the code inserts into / removes from both together
     (insert + push_front on a new circuit; pop_back + remove, then insert + push_front again if
     rooms are left).
   * The reply channel of a request is identified by (circuit, generation): the k-th unbounded
     channel a connection handed to the service.  `reply.send(room).is_ok()` is "the receiver of
     that channel has not been dropped": the set `dead` of dropped receivers is part of the state
     (it is the environment's, not the service's; the service only observes it through send).
   * locked (HashSet) is a list; the code inserts a room only when it is not contained. *)
From DV Require Export Base.
Open Scope N_scope.

Notation circuit := N (only parsing).
Notation rid := N (only parsing).

Definition memN (x : N) (l : list N) : bool := existsb (N.eqb x) l.
Definition removeN (x : N) (l : list N) : list N := filter (fun y => negb (N.eqb x y)) l.
Definition pair_eqb (a b : N * N) : bool := N.eqb (fst a) (fst b) && N.eqb (snd a) (snd b).
Definition mem_pair (x : N * N) (l : list (N * N)) : bool := existsb (pair_eqb x) l.

Record preq := { p_c : circuit; p_rooms : list rid; p_gen : N }.
Record st := { queue : list preq; locked : list rid; avail : nat; dead : list (N * N) }.

(* a room sent into the reply channel (circuit, generation) *)
Definition grant := (circuit * N * rid)%type.

Definition alive (dd : list (N * N)) (p : preq) : bool := negb (mem_pair (p_c p, p_gen p) dd).

(* the inner loop of acquire_lock over the rooms of one peer:
     for _ in 0..lock_request.rooms.len() { if let Some(room) = rooms.pop_back() {
        if locked.contains(&room) { rooms.push_front(room) }
        else if reply.send(room).is_ok() { ...; lock_aquired = true; break } } }
   (a room whose send fails is dropped) *)
Fixpoint try_rooms (n : nat) (rooms : list rid) (lk : list rid) (live : bool) : list rid * option rid :=
  match n with
  | O => (rooms, None)
  | S k =>
      match rooms with
      | [] => (rooms, None)
      | room :: rest =>
          if memN room lk then try_rooms k (rest ++ [room]) lk live
          else if live then (rest, Some room)
          else try_rooms k rest lk live
      end
  end.

(* if !lock_request.rooms.is_empty() { insert; peer_queue.push_front(peer) } *)
Definition requeue (rest : list preq) (p : preq) (rooms' : list rid) : list preq :=
  match rooms' with
  | [] => rest
  | _ => rest ++ [{| p_c := p_c p; p_rooms := rooms'; p_gen := p_gen p |}]
  end.

(* a peer that was examined and could not be served: it goes to `skipped` (if it still wants rooms) *)
Definition skip (sk : list preq) (p : preq) (rooms' : list rid) : list preq :=
  match rooms' with
  | [] => sk
  | _ => sk ++ [{| p_c := p_c p; p_rooms := rooms'; p_gen := p_gen p |}]
  end.

(* the outer loop (commit 11e9468):
     let mut skipped = Vec::new();
     for _ in 0..peer_queue.len() { pop_back peer; ...;
        if rooms left { if lock_aquired { peer_queue.push_front(peer) } else { skipped.push(peer) } }
        if lock_aquired { break } }
     for peer in skipped.into_iter().rev() { peer_queue.push_back(peer) }
   only the peer that is served moves to the front; the peers that could not be served go back to the
   back of the queue in their original order (our lists are back first: they come first again) *)
Fixpoint acquire (n : nat) (q : list preq) (sk : list preq) (lk : list rid) (dd : list (N * N)) : list preq * option grant :=
  match n with
  | O => (sk ++ q, None)
  | S k =>
      match q with
      | [] => (sk ++ q, None)
      | p :: rest =>
          let '(rooms', g) := try_rooms (length (p_rooms p)) (p_rooms p) lk (alive dd p) in
          match g with
          | Some r => (sk ++ requeue rest p rooms', Some (p_c p, p_gen p, r))
          | None => acquire k rest (skip sk p rooms') lk dd
          end
      end
  end.

(* acquire_lock: at most one grant; locked.insert(room); *avalaible -= 1 *)
Definition acquire_lock (s : st) : st * list grant :=
  match acquire (length (queue s)) (queue s) [] (locked s) (dead s) with
  | (q', Some (c, k, r)) =>
      ({| queue := q'; locked := r :: locked s; avail := pred (avail s); dead := dead s |}, [(c, k, r)])
  | (q', None) =>
      ({| queue := q'; locked := locked s; avail := avail s; dead := dead s |}, [])
  end.

(* let avail_iter = avalaible; for _ in 0..avail_iter { acquire_lock } *)
Fixpoint acquire_n (n : nat) (s : st) : st * list grant :=
  match n with
  | O => (s, [])
  | S k => let '(s1, g1) := acquire_lock s in
           let '(s2, g2) := acquire_n k s1 in (s2, g1 ++ g2)
  end.

(* for room in rooms { if !lock_request.rooms.iter().any(|e| room.eq(e)) { rooms.push_back(room) } } *)
Definition add_rooms (stored : list rid) (rooms : list rid) : list rid :=
  fold_left (fun acc room => if memN room acc then acc else room :: acc) rooms stored.

(* the entry of that circuit (the HashMap has one): new reply channel, rooms merged *)
Fixpoint merge_req (q : list preq) (c : circuit) (rooms : list rid) (k : N) : list preq :=
  match q with
  | [] => []
  | p :: tl => if N.eqb (p_c p) c
               then {| p_c := c; p_rooms := add_rooms (p_rooms p) rooms; p_gen := k |} :: tl
               else p :: merge_req tl c rooms k
  end.

(* rooms are given front to back, as the VecDeque the caller built *)
Definition enqueue (q : list preq) (c : circuit) (rooms : list rid) (k : N) : list preq :=
  if existsb (fun p => N.eqb (p_c p) c) q then merge_req q c rooms k
  else q ++ [{| p_c := c; p_rooms := rev rooms; p_gen := k |}].

(* What happens to the service and its environment.  `Unlock who r`: the message is
   SyncLockMessage::Unlock(r); `who` (the connection that sends it) is NOT part of the message and
   is ignored by the service: it only serves to state who releases.  `DropChan c k`: the receiver
   of the k-th reply channel of connection c is dropped (environment event, no message). *)
Inductive msg :=
| Request (c : circuit) (rooms : list rid) (k : N)
| Unlock (who : circuit) (r : rid)
| DropChan (c : circuit) (k : N).

Definition step (s : st) (m : msg) : st * list grant :=
  match m with
  | Request c rooms k =>
      acquire_n (avail s) {| queue := enqueue (queue s) c rooms k; locked := locked s; avail := avail s; dead := dead s |}
  | Unlock _ r =>
      if memN r (locked s)
      then acquire_lock {| queue := queue s; locked := removeN r (locked s); avail := S (avail s); dead := dead s |}
      else (s, [])
  | DropChan c k =>
      ({| queue := queue s; locked := locked s; avail := avail s; dead := (c, k) :: dead s |}, [])
  end.

Definition init (max : nat) : st := {| queue := []; locked := []; avail := max; dead := [] |}.

(* the grants of each message, in order *)
Fixpoint run_from (s : st) (tr : list msg) : list (list grant) :=
  match tr with
  | [] => []
  | m :: tl => let '(s', g) := step s m in g :: run_from s' tl
  end.
Fixpoint state_after (s : st) (tr : list msg) : st :=
  match tr with
  | [] => s
  | m :: tl => state_after (fst (step s m)) tl
  end.

(* ------------------------------------------------------------------------------------------
   The connection side (peer_inbound_service.rs), as far as locks are concerned.

   One connection c owns one reply channel (generation 0).  Its select! loop takes a room out of
   lock_receiver and calls process_acquired_room, which spawns a task that inserts the room into
   acquired_lock, synchronises, ALWAYS sends Unlock(room), then removes the room from
   acquired_lock.  When the loop ends, every room in acquired_lock is unlocked by `cleanup`,
   whether or not its task has finished (the tasks are not cancelled); then lock_receiver is closed
   (the service can no longer send into it) and every room still buffered in it is unlocked
   (commit 2487a5d).  acquired_lock is a HashSet: the order in which cleanup unlocks is an oracle
   choice; model and harness use ascending room order.

   Connection-level events are translated into the service messages they cause. *)
Inductive cev :=
| CRequest (c : circuit) (rooms : list rid)      (* process_remote_event -> request_locks(c, rooms, lock_reply) *)
| CTake (c : circuit)                            (* the loop receives the oldest grant and spawns its task *)
| CTakeFail (c : circuit)                        (* the same while the connection's query channel is closed: the task
                                                    starts, fails at its first request and unlocks at once *)
| CFinish (c : circuit) (r : rid)                (* a running task of c for r ends: unlock(r); acquired_lock.remove(r) *)
| CEnd (c : circuit).                            (* the loop ends: cleanup(acquired_lock); close and drain lock_receiver *)

Record conn := { cn_c : circuit;
                 cn_inbox : list rid;       (* granted, not yet taken; oldest first *)
                 cn_acq : list rid;         (* acquired_lock, ascending *)
                 cn_tasks : list rid;       (* tasks spawned and not finished *)
                 cn_ended : bool }.
Record cst := { c_svc : st; c_conns : list conn }.

Definition find_conn (cs : list conn) (c : circuit) : conn :=
  match find (fun x => N.eqb (cn_c x) c) cs with
  | Some x => x
  | None => {| cn_c := c; cn_inbox := []; cn_acq := []; cn_tasks := []; cn_ended := false |}
  end.
Definition set_conn (cs : list conn) (x : conn) : list conn :=
  x :: filter (fun y => negb (N.eqb (cn_c y) (cn_c x))) cs.

Fixpoint insert_sorted (x : N) (l : list N) : list N :=
  match l with
  | [] => [x]
  | y :: t => if N.eqb x y then l else if N.ltb x y then x :: l else y :: insert_sorted x t
  end.
Fixpoint remove_one_N (x : N) (l : list N) : list N :=
  match l with [] => [] | y :: t => if N.eqb x y then t else y :: remove_one_N x t end.

(* a grant is written into the channel of its connection *)
Definition deliver (cs : list conn) (gs : list grant) : list conn :=
  fold_left (fun acc (g : grant) =>
               let c := fst (fst g) in
               let x := find_conn acc c in
               set_conn acc {| cn_c := c; cn_inbox := cn_inbox x ++ [snd g]; cn_acq := cn_acq x;
                               cn_tasks := cn_tasks x; cn_ended := cn_ended x |}) gs cs.

(* the service messages one connection event causes, and the connection afterwards *)
Definition cev_msgs (cs : list conn) (e : cev) : list msg * list conn :=
  match e with
  | CRequest c rooms =>
      let x := find_conn cs c in
      if cn_ended x then ([], cs) else ([Request c rooms 0], cs)
  | CTake c =>
      let x := find_conn cs c in
      if cn_ended x then ([], cs) else
      match cn_inbox x with
      | [] => ([], cs)
      | r :: rest => ([], set_conn cs {| cn_c := c; cn_inbox := rest; cn_acq := insert_sorted r (cn_acq x);
                                         cn_tasks := r :: cn_tasks x; cn_ended := false |})
      end
  | CTakeFail c =>
      let x := find_conn cs c in
      if cn_ended x then ([], cs) else
      match cn_inbox x with
      | [] => ([], cs)
      | r :: rest => ([Unlock c r], set_conn cs {| cn_c := c; cn_inbox := rest; cn_acq := cn_acq x;
                                                   cn_tasks := cn_tasks x; cn_ended := false |})
      end
  | CFinish c r =>
      let x := find_conn cs c in
      if memN r (cn_tasks x)
      then ([Unlock c r], set_conn cs {| cn_c := c; cn_inbox := cn_inbox x; cn_acq := removeN r (cn_acq x);
                                         cn_tasks := remove_one_N r (cn_tasks x); cn_ended := cn_ended x |})
      else ([], cs)
  | CEnd c => ([], cs)      (* see cend below: it is not one batch of messages *)
  end.

(* several messages in a row; the grants of each *)
Fixpoint steps (s : st) (ms : list msg) : st * list (list grant) :=
  match ms with
  | [] => (s, [])
  | m :: tl => let '(s1, g1) := step s m in let '(s2, g2) := steps s1 tl in (s2, g1 :: g2)
  end.

Definition cstep_plain (x : cst) (e : cev) : cst * list msg * list (list grant) :=
  let '(ms, cs1) := cev_msgs (c_conns x) e in
  let '(s', gss) := steps (c_svc x) ms in
  ({| c_svc := s'; c_conns := deliver cs1 (concat gss) |}, ms, gss).

(* lock_receiver.close(); while let Some(room) = lock_receiver.recv().await { unlock(room) } :
   the oldest buffered room is released, as long as there is one (n bounds the loop: nothing can
   arrive once the channel is closed) *)
Fixpoint drain (n : nat) (c : circuit) (s : st) (cs : list conn) : st * list conn * list msg * list (list grant) :=
  match n with
  | O => (s, cs, [], [])
  | S k =>
      let x := find_conn cs c in
      match cn_inbox x with
      | [] => (s, cs, [], [])
      | r :: rest =>
          let '(s1, g) := step s (Unlock c r) in
          let cs1 := deliver (set_conn cs {| cn_c := c; cn_inbox := rest; cn_acq := cn_acq x;
                                             cn_tasks := cn_tasks x; cn_ended := cn_ended x |}) g in
          let '(s2, cs2, ms, gss) := drain k c s1 cs1 in
          (s2, cs2, Unlock c r :: ms, g :: gss)
      end
  end.

(* the end of a connection: cleanup(acquired_lock) — the service handles these unlocks while the
   channel is still open, so a room re-granted to this very connection lands in it —, then close,
   then drain *)
Definition cend (x : cst) (c : circuit) : cst * list msg * list (list grant) :=
  let x0 := find_conn (c_conns x) c in
  let ms1 := map (Unlock c) (cn_acq x0) in
  let '(s1, gss1) := steps (c_svc x) ms1 in
  let cs1 := deliver (c_conns x) (concat gss1) in
  let '(s2, g2) := step s1 (DropChan c 0) in
  let x1 := find_conn cs1 c in
  let cs2 := set_conn cs1 {| cn_c := c; cn_inbox := cn_inbox x1; cn_acq := cn_acq x1; cn_tasks := cn_tasks x1; cn_ended := true |} in
  let '(s3, cs3, ms3, gss3) := drain (length (cn_inbox x1)) c s2 cs2 in
  ({| c_svc := s3; c_conns := cs3 |}, ms1 ++ DropChan c 0 :: ms3, gss1 ++ g2 :: gss3).

Definition cstep (x : cst) (e : cev) : cst * list msg * list (list grant) :=
  match e with
  | CEnd c => if cn_ended (find_conn (c_conns x) c) then (x, [], []) else cend x c
  | _ => cstep_plain x e
  end.

Fixpoint crun (x : cst) (es : list cev) : list (cst * list msg * list (list grant)) :=
  match es with
  | [] => []
  | e :: tl => let '(x', ms, gss) := cstep x e in (x', ms, gss) :: crun x' tl
  end.
Definition cinit (max : nat) : cst := {| c_svc := init max; c_conns := [] |}.
