(* Agg.v — tier T3, first slice: aggregate queries (count / avg / min / max / sum over the groups of the selected
   scalar fields, having filters on the aggregates, order_by on selected columns, first / skip) and json selectors
   (alias: field->$.a.b[0], alias: field->2, filters on a selector).
   One evaluator, parameterised by the meaning of an aggregate over the rows of a group:
     agg_spec = the reference meaning (absent values do not take part; min / max by the order of the values)
     agg_impl = what query.rs computes: every aggregate is applied to the SQL value of the member, NULL left out
                (before b717988 it was applied to the JSON text: classes 9 and 10, repaired).
   Results only (no SQL text at this tier).  No proofs here. *)
From DV Require Export Eval Codec Sql.
Open Scope list_scope.

Inductive afn := ACount | AAvg (f : nat) | AMax (f : nat) | AMin (f : nat) | ASum (f : nat).
Inductive acol := GField (f : nat) | GAgg (a : afn).
(* a result cell: a value, or an average kept exact: CAvg s n = (s/4)/n, n > 0 *)
Inductive cell := CV (v : val) | CAvg (s4 n : Z).
Record aquery := {
  a_cols : list acol;                          (* the selection, in order; the scalar fields are the group *)
  a_where : list (nat * cmpop * val);          (* filters on fields of the entity *)
  a_having : list (nat * cmpop * val);         (* filters on aggregate columns (by position in a_cols) *)
  a_order : list (nat * dir);                  (* order keys: selected columns (by position) *)
  a_first : Z; a_skip : Z }.                   (* 0 = none *)

Definition fval (r : row) (i : nat) : val := nth i r VNull.
Definition passes (w : list (nat * cmpop * val)) (r : row) : bool :=
  forallb (fun f : nat * cmpop * val => holds (snd (fst f)) (fval r (fst (fst f))) (snd f)) w.

(* ---- groups, in order of first appearance ---- *)
Fixpoint keys_eqb (a b : list val) : bool :=
  match a, b with
  | [], [] => true
  | x :: a', y :: b' => val_eqb x y && keys_eqb a' b'
  | _, _ => false
  end.
Fixpoint add_group (k : list val) (r : row) (gs : list (list val * list row)) : list (list val * list row) :=
  match gs with
  | [] => [(k, [r])]
  | g :: t => if keys_eqb (fst g) k then (fst g, snd g ++ [r]) :: t else g :: add_group k r t
  end.
Definition group_fields (cols : list acol) : list nat :=
  flat_map (fun c => match c with GField f => [f] | GAgg _ => [] end) cols.
Definition all_groups (cols : list acol) (rows : list row) : list (list row) :=
  match group_fields cols with
  | [] => [rows]                                 (* no group field: one group, even when there is no row *)
  | gf => map snd (fold_left (fun gs r => add_group (map (fval r) gf) r gs) rows [])
  end.

(* ---- aggregates ---- *)
Definition sum4 (vs : list val) : Z :=
  fold_right (fun v acc => match num4 v with Some x => x + acc | None => acc end) 0 vs.
Definition cmp_is (c want : comparison) : bool :=
  match c, want with Lt, Lt => true | Gt, Gt => true | Eq, Eq => true | _, _ => false end.
Definition best (cmp : val -> val -> comparison) (want : comparison) (vs : list val) : val :=
  match vs with
  | [] => VNull
  | x :: t => fold_left (fun b v => if cmp_is (cmp v b) want then v else b) t x
  end.
Definition nonnull (vs : list val) : list val := filter (fun v => negb (is_null v)) vs.
Definition column (rows : list row) (f : nat) : list val := map (fun r => fval r f) rows.

Definition agg_spec (rows : list row) (a : afn) : cell :=
  match a with
  | ACount => CV (VInt (Z.of_nat (List.length rows)))
  | ASum f => CV (VFlt (sum4 (column rows f)))
  | AAvg f => match nonnull (column rows f) with
              | [] => CV VNull
              | vs => CAvg (sum4 vs) (Z.of_nat (List.length vs))
              end
  | AMax f => CV (best vcmp Gt (nonnull (column rows f)))
  | AMin f => CV (best vcmp Lt (nonnull (column rows f)))
  end.

(* query.rs (get_fields, since b717988): every aggregate is applied to  _json->>'$.f' , the SQL value of the member
   (a number as a number, text as text, NULL for an absent value or a JSON null); SQL aggregates leave NULL out,
   avg divides by the number of values that are not NULL, min / max of no value is NULL, total of no value is 0.0 *)
Definition sql_values (rows : list row) (f : nat) : list val :=        (* the arguments that are not NULL *)
  flat_map (fun r => match fval r f with VNull => [] | v => [v] end) rows.
Definition agg_impl (rows : list row) (a : afn) : cell :=
  match a with
  | ACount => CV (VInt (Z.of_nat (List.length rows)))
  | ASum f => CV (VFlt (sum4 (sql_values rows f)))
  | AAvg f => match sql_values rows f with
              | [] => CV VNull
              | vs => CAvg (sum4 vs) (Z.of_nat (List.length vs))
              end
  | AMax f => CV (best vcmp Gt (sql_values rows f))
  | AMin f => CV (best vcmp Lt (sql_values rows f))
  end.

(* ---- cells: order and comparison with a literal ---- *)
Definition rat (c : cell) : option (Z * Z) :=
  match c with CV v => option_map (fun x => (x, 1)) (num4 v) | CAvg s n => Some (s, n) end.
Definition ccmp (a b : cell) : comparison :=
  match a, b with
  | CV VNull, CV VNull => Eq
  | CV VNull, _ => Lt
  | _, CV VNull => Gt
  | CV (VStr s), CV (VStr t) => str_cmp s t
  | CV (VStr _), _ => Gt
  | _, CV (VStr _) => Lt
  | _, _ => match rat a, rat b with
            | Some (x, n), Some (y, m) => Z.compare (x * m) (y * n)
            | _, _ => Eq
            end
  end.
Definition chold (op : cmpop) (c : cell) (l : val) : bool :=
  match c with CV VNull => false | _ => test op (ccmp c (CV l)) end.
Fixpoint clex (ks : list (nat * dir)) (a b : list cell) : comparison :=
  match ks with
  | [] => Eq
  | (k, d) :: t =>
      let x := nth k a (CV VNull) in let y := nth k b (CV VNull) in
      match (match d with Asc => ccmp x y | Desc => ccmp y x end) with Eq => clex t a b | c => c end
  end.
Definition take_n {A} (n : Z) (l : list A) : list A := if Z.leb n 0 then l else firstn (Z.to_nat n) l.
Definition drop_n {A} (n : Z) (l : list A) : list A := if Z.leb n 0 then l else skipn' (Z.to_nat n) l.

Definition row_cells (agg : list row -> afn -> cell) (cols : list acol) (g : list row) : list cell :=
  map (fun c => match c with
                | GField f => CV (match g with r :: _ => fval r f | [] => VNull end)
                | GAgg a => agg g a
                end) cols.
Definition finish (q : aquery) (cs : list (list cell)) : list (list cell) :=
  let hs := filter (fun c => forallb (fun f : nat * cmpop * val => chold (snd (fst f)) (nth (fst (fst f)) c (CV VNull)) (snd f)) (a_having q)) cs in
  take_n (a_first q) (drop_n (a_skip q) (isort (clex (a_order q)) hs)).
Definition eval_agg (agg : list row -> afn -> cell) (rows : db) (q : aquery) : list (list cell) :=
  finish q (map (row_cells agg (a_cols q)) (all_groups (a_cols q) (filter (passes (a_where q)) rows))).

(* ---- json selectors ---- *)
Inductive jdoc := DNull | DBool (b : bool) | DInt (z : Z) | DStr (s : str) | DArr (l : list jdoc) | DObj (l : list (str * jdoc)).
Inductive pstep := PKey (k : str) | PKeyIdx (k : str) (i : nat).          (* .k   .k[i] *)
Inductive jsel := SPath (p : list pstep) | SIndex (i : nat).               (* f->$.a.b[0]   f->2 *)
Fixpoint dfind (k : str) (l : list (str * jdoc)) : option jdoc :=
  match l with [] => None | (k', v) :: t => if str_eqb k' k then Some v else dfind k t end.
Definition dkey (d : jdoc) (k : str) : option jdoc := match d with DObj l => dfind k l | _ => None end.
Definition didx (d : jdoc) (i : nat) : option jdoc := match d with DArr l => nth_error l i | _ => None end.
Fixpoint dpath (d : jdoc) (p : list pstep) : option jdoc :=
  match p with
  | [] => Some d
  | PKey k :: t => match dkey d k with Some x => dpath x t | None => None end
  | PKeyIdx k i :: t => match dkey d k with
                        | Some x => match didx x i with Some y => dpath y t | None => None end
                        | None => None
                        end
  end.
(* the selected part of a stored document; null when the document or the part is absent *)
Definition dsel (d : option jdoc) (s : jsel) : jdoc :=
  match d with
  | None => DNull
  | Some d => match (match s with SPath p => dpath d p | SIndex i => didx d i end) with Some x => x | None => DNull end
  end.
Definition scalar_of (d : jdoc) : val :=
  match d with DBool b => VBool b | DInt z => VInt z | DStr s => VStr s | _ => VNull end.
Definition is_container (d : jdoc) : bool := match d with DArr _ | DObj _ => true | _ => false end.
Definition jpasses (fs : list (jsel * cmpop * val)) (d : option jdoc) : bool :=
  forallb (fun f : jsel * cmpop * val => holds (snd (fst f)) (scalar_of (dsel d (fst (fst f)))) (snd f)) fs.
Definition eval_jsel (docs : list (option jdoc)) (sels : list jsel) (fs : list (jsel * cmpop * val)) : list (list jdoc) :=
  map (fun d => map (dsel d) sels) (filter (jpasses fs) docs).
