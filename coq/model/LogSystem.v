(* LogSystem.v — composition of the three models that talk about the daily log:
     Writer.v   (C13): which batches commit, under a fault schedule (Continue | FailStmt | Kill at every point),
     DailyLog.v (C09): what a committed batch does to the tables, the marks and the log rows,
     Events.v   (C18): which (room, entity, day) a committed write changed / a recompute announced.

   One request is seen twice: as the writer sees it (req: statement groups, marks by cell, route of the
   acknowledgement) and as the daily log sees it (msg: table effect, marks by (room, entity, day), recompute).
   The writer's control decides, the daily-log / event state follows:
     Returned true   COMMIT + acknowledgement loop: the batch's table effect, its marks, its DataChanged events
     Returned false  a statement / the marks / COMMIT failed, ROLLBACK: nothing of the batch, no event
     Died false      the process died before COMMIT: nothing of the batch, no event; restart
     Died true       the process died between COMMIT and the acknowledgement loop: table effect and marks are
                     durable, but the DailyLogComputed replies (-> DataChanged) of its recomputes were never sent; restart
   A restart is a new connection (no abandoned transaction) and the start-up recompute (Writer.restart on the
   writer's disk, one [MCompute] batch on the daily log, its event is sent).  No proofs in this file. *)
From DV Require Export Writer Events.

Definition lreq := (req * msg)%type.
Definition wside (b : list lreq) : list req := map fst b.
Definition lside (b : list lreq) : list msg := map snd b.
Definition is_compute (m : msg) : bool := match m with MCompute => true | MOp _ => false end.
Definition has_compute (b : list lreq) : bool := existsb (fun x => is_compute (snd x)) b.

Record lstate := {
  ls_w : wstate;                 (* the writer: committed disk (abstract cells), connection state *)
  ls_s : DailyLog.state;         (* the committed tables and log rows *)
  ls_tr : list tev;              (* what an observer has seen: committed changes (TW), DataChanged events (TE) *)
  ls_done : list (list msg);     (* ghost: the batches that took effect, restarts as [MCompute] *)
  ls_out : list N                (* ghost: per batch 1 acknowledged Ok, 2 rolled back, 3 died after COMMIT, 4 died before *)
}.

Definition commit_acked (l : lstate) (st' : wstate) (b : list lreq) : lstate :=
  let r := trace_batch (ls_s l, ls_tr l) (lside b) in
  {| ls_w := st'; ls_s := fst r; ls_tr := snd r; ls_done := ls_done l ++ [lside b]; ls_out := ls_out l |}.
(* the events of a batch that nobody lived to send *)
Definition mute (e : tev) : list tev := match e with TE _ => [] | _ => [e] end.
Definition commit_lost (l : lstate) (st' : wstate) (b : list lreq) : lstate :=
  if has_compute b then
    let r := trace_batch (ls_s l, []) (lside b) in
    {| ls_w := st'; ls_s := fst r; ls_tr := ls_tr l ++ flat_map mute (snd r);
       ls_done := ls_done l ++ [lside b]; ls_out := ls_out l |}
  else commit_acked l st' b.     (* no recompute in the batch: it has no event to lose *)
Definition not_committed (l : lstate) (st' : wstate) : lstate :=
  {| ls_w := st'; ls_s := ls_s l; ls_tr := ls_tr l; ls_done := ls_done l; ls_out := ls_out l |}.
Definition sys_restart (l : lstate) : lstate :=
  let r := trace_batch (ls_s l, ls_tr l) [MCompute] in
  {| ls_w := {| w_disk := restart (ls_w l); w_stuck := false |};
     ls_s := fst r; ls_tr := snd r; ls_done := ls_done l ++ [[MCompute]]; ls_out := ls_out l |}.
Definition tag (l : lstate) (c : N) : lstate :=
  {| ls_w := ls_w l; ls_s := ls_s l; ls_tr := ls_tr l; ls_done := ls_done l; ls_out := ls_out l ++ [c] |}.

Definition sys_step (l : lstate) (b : list lreq) (st' : wstate) (o : outcome) : lstate :=
  match o with
  | Returned true => tag (commit_acked l st' b) 1
  | Returned false => tag (not_committed l st') 2
  | Died true => sys_restart (tag (commit_lost l st' b) 3)
  | Died false => sys_restart (tag (not_committed l st') 4)
  end.

(* a history of batches under one schedule (points are counted on over restarts: any placement of faults
   in the successive processes is a schedule) *)
Fixpoint sys_run (sk : skeleton) (sched : schedule) (n : N) (l : lstate) (h : list (list lreq)) : lstate :=
  match h with
  | [] => l
  | b :: rest =>
      let r := run_batch sk sched n (ls_w l) (wside b) in
      sys_run sk sched (snd (fst r)) (sys_step l b (fst (fst (fst r))) (snd (fst (fst r)))) rest
  end.
(* a property of every step of that run: P (state before) (batch) (what became of it) *)
Fixpoint sys_all (P : lstate -> list lreq -> outcome -> Prop)
         (sk : skeleton) (sched : schedule) (n : N) (l : lstate) (h : list (list lreq)) : Prop :=
  match h with
  | [] => True
  | b :: rest =>
      let r := run_batch sk sched n (ls_w l) (wside b) in
      P l b (snd (fst (fst r))) /\
      sys_all P sk sched (snd (fst r)) (sys_step l b (fst (fst (fst r))) (snd (fst (fst r)))) rest
  end.

(* the final recompute (a ComputeDailyLog processed and answered) *)
Definition sys_quiesce (l : lstate) : DailyLog.state * list tev := trace_batch (ls_s l, ls_tr l) [MCompute].

Definition sys_init (d : disk) (t0 : Z) : lstate :=
  {| ls_w := {| w_disk := d; w_stuck := false |}; ls_s := DailyLog.init t0; ls_tr := []; ls_done := []; ls_out := [] |}.

(* ---- the hypotheses of the composition, per step (the coverage hypothesis P_cov is stated in
   proofs/LogSystemP.v over C09P.batch_covered) ---- *)
(* the process does not die between the COMMIT of a batch that holds a recompute and its acknowledgement *)
Definition P_ack (l : lstate) (b : list lreq) (o : outcome) : Prop :=
  match o with Died true => has_compute b = false | _ => True end.
