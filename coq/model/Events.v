(* Events.v — the event side of the daily log: which (room, entity, day) are announced, and when.
   No proofs here.

   graph_database.rs: DataChanged events are built from DailyLogsUpdate.room_dates, i.e. from the
   rows DailyLogsUpdate::compute found dirty (model: the `rep` result of DailyLog.compute); one
   event per processed ComputeDailyLog message.  The API side, as sequences of writer batches:
     mutate / delete        write batch, acknowledgement, THEN the recompute request      (ACall)
     add_nodes / delete_*   write batch only; synchronise_room requests the recompute
                            after the data (AIngest ... ACompute)
     mutation_stream        the replies of the stream go through the stream task, which sends the
                            recompute request once the input channel is closed AND every reply
                            (sent after the COMMIT of its batch) has been forwarded (a874354):
                            the writes, then the recompute (AStream os) *)
From DV Require Export DailyLog.
Open Scope Z_scope.

Inductive api :=
| ATick (t : Z)
| ACall (o : op)
| ACalls (os : list op)      (* one request that writes several rows (nested entities): one write message *)
| AIngest (o : op)
| ACompute
| AStream (os : list op).

(* the writer batches an API call amounts to when calls are issued one after the other *)
Definition batches_of (a : api) : list (list msg) :=
  match a with
  | ATick t => [[MOp (Tick t)]]
  | ACall o => [[MOp o]; [MCompute]]
  | ACalls os => [map MOp os; [MCompute]]
  | AIngest o => [[MOp o]]
  | ACompute => [[MCompute]]
  | AStream os => map (fun o => [MOp o]) os ++ [[MCompute]]
  end.
(* does the call promise that everything committed so far has been announced when it is over? *)
Definition promises (a : api) : bool :=
  match a with ACall _ | ACalls _ | ACompute | AStream _ => true | _ => false end.

(* ---- what can be observed: per write the keys whose content changed, per recompute the keys announced ---- *)
Inductive tev := TW (ks : list lkey) | TE (ks : list lkey) | TQ.

Fixpoint kinsert_u (k : lkey) (l : list lkey) : list lkey :=
  match l with
  | [] => [k]
  | h :: t => if key_eqb h k then l else if key_ltb k h then k :: l else h :: kinsert_u k t
  end.
Definition ksort_u (l : list lkey) : list lkey := fold_left (fun a k => kinsert_u k a) l [].
Definition changed_keys (pre post : state) : list lkey :=
  filter (fun k => negb (nlist_eqb (content pre k) (content post k))) (ksort_u (all_keys pre ++ all_keys post)).

Definition trace_msg (acc : state * list lkey * list tev) (m : msg) : state * list lkey * list tev :=
  let '(s, pend, tr) := acc in
  match m with
  | MOp o => let '(s', ms) := exec_op o s in (s', pend ++ ms, tr ++ [TW (changed_keys s s')])
  | MCompute => let '(s', rep) := compute s in (s', pend, tr ++ [TE rep])
  end.
Definition trace_batch (acc : state * list tev) (b : list msg) : state * list tev :=
  let '(s, tr) := acc in
  let '(s', pend, tr') := fold_left trace_msg b (s, [], tr) in
  (set_log s' (write_marks pend (log s')), tr').
Definition trace_batches (acc : state * list tev) (bs : list (list msg)) : state * list tev :=
  fold_left trace_batch bs acc.
Definition trace_api (acc : state * list tev) (a : api) : state * list tev :=
  let '(s', tr') := trace_batches acc (batches_of a) in
  (s', if promises a then tr' ++ [TQ] else tr').
Definition trace_prog (t0 : Z) (p : list api) : state * list tev := fold_left trace_api p (init t0, []).

(* keys changed by a committed write and not announced since *)
Definition owed_step (ow : list lkey) (e : tev) : list lkey :=
  match e with
  | TW ks => ow ++ ks
  | TE ks => filter (fun k => negb (key_mem k ks)) ow
  | TQ => ow
  end.
Definition owed (tr : list tev) : list lkey := fold_left owed_step tr [].

(* ---- room-modified events (authorisation_service.rs: RoomMutationWrite / RoomMutationStreamWrite) ----
   a mutation of a room definition is validated against the room in memory, written, and validated
   AGAIN after the write against the room as it is then; the room that results is installed and sent
   in the RoomModified event.  So with concurrent mutations of one room (each adding one entry) the
   event of the i-th committed mutation carries the entries the room had plus the first i entries
   in commit order (the commit order is an oracle argument, read off the events by the harness) *)
Fixpoint room_events_from (have : list N) (order : list N) : list (list N) :=
  match order with
  | [] => []
  | e :: t => let have' := isort (e :: have) in have' :: room_events_from have' t
  end.
Definition room_events (base order : list N) : list (list N) := room_events_from (isort base) order.
