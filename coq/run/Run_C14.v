(* Run_C14.v — entry points evaluated by the correspondence harness for C14. No proofs. *)
From DV Require Export Inputs.

Inductive c14case :=
| CMut (m : mutation)                        (* one mutation through GraphDatabaseService::mutate: [outcome; probe] *)
| CMutSeq (ms : list mutation)               (* several against ONE instance: per step [outcome; probe] *)
| CKey (k : list N) (point_ok : bool)        (* security::import_verifying_key under catch_unwind: [outcome] *)
| CRow (r : row)                             (* Node/Edge/..DeletionEntry::verify under catch_unwind: [outcome] *)
| CRowSeq (rs : list row)                    (* rows through ONE SignatureVerificationService: per step [outcome; probe] *)
| CQuery (dm : dmodel) (qs : list rentity)   (* GraphDatabaseService::query on an instance with this data model: [outcome; probe] *)
| CQSize (dm : dmodel) (q : rentity)         (* QueryParser::parse + PreparedQueries::build: [resolved; #SELECT; #"("; #")"] *)
| CAgg (q : aquery)                          (* one entity with the whole clause language, through GraphDatabaseService::query: [outcome; probe] *)
| CDel (p : option pval)                     (* delete { E { $id } } through GraphDatabaseService::delete: [outcome; probe] *)
| CFrames (info : fstep) (ans qs evs : list fstep)   (* one QUIC connection to a real DiscretEndpoint: [info; answers; queries; events delivered; big allocation; probe] *)
| CIngest (rights_from mdate : Z)            (* a row with this mdate through add_nodes, then compute_daily_log: [outcome; write probe] *)
| CRoomDef (m : rmember) (v : jclass)        (* a peer's room definition with one member replaced, add_room_node then restart: [outcome; probe; restarted] *)
| CObs (stream : N).                         (* streams without a model verdict: [panics; probe] *)

(* outcome codes in observations: 0 Ok, 1 Err, 2 a thread / the call panicked, 3 no answer in time *)

Definition c3_list (c : c3) : list Z := let '(a, b, d) := c in [zn a; zn b; zn d].

(* what the model says the implementation observes *)
Definition run_C14 (c : c14case) : list Z :=
  match c with
  | CMut m => pool_run default_parallelism [mutate_outcome m]
  | CMutSeq ms => pool_run default_parallelism (map mutate_outcome ms)
  | CKey k pok => [outcome_code (import_key k pok)]
  | CRow r => [outcome_code (verify_row r)]
  | CRowSeq rs => pool_run default_parallelism (map verify_row rs)
  | CQuery dm qs => [outcome_code (query_outcome dm qs); 1]
  | CQSize dm q => match resolve_entity dm q with
                   | None => [0; 0; 0; 0]
                   | Some ce => 1 :: c3_list (counts_entity ce)
                   end
  | CAgg q => pool_run default_parallelism [aquery_outcome q]
  | CDel p => pool_run default_parallelism [delete_outcome p]
  | CFrames info ans qs evs => connection_obs info ans qs evs ++ [1]
  | CIngest rf md => ingest_obs rf md
  | CRoomDef m v => room_def_obs m v
  | CObs _ => [0; 1]
  end.

(* ------------------------------------------------------------------------------------------ *)
(* the property's own oracle: which requests are valid for the language and the data model
   (typing rules as documented: a value must have the type of its field, null needs a nullable
   field, identifiers only need to be identifiers), written without looking at the model *)

Definition param_fits (k : fkind) (p : pval) : bool :=
  match k, p with
  | (FSysId | FSysRoomId), PNull => false                  (* null names no row / no room *)
  | _, PNull => field_nullable k
  | FUser FBool _, PBool => true
  | FUser FInt _, PInt => true
  | FUser FFloat _, (PFloat true | PInt) => true
  | FUser FString _, PStr _ => true
  | FUser FBase64 _, PStr s => s_b64 s
  | FUser FJson _, PStr s => s_json s
  | (FSysId | FSysRoomId), (PStr s | PBin s) => s_b64 s && match s_uid s with UKnown => true | _ => false end
  | _, _ => false
  end.

Definition value_fits (k : fkind) (v : mvalue) (ps : params) : bool :=
  match v with
  | MVar x => match lookup x ps with Some p => param_fits k p | None => false end
  | MNull => field_nullable k && negb (field_is_system k)      (* room_id: null names no room *)
  | MBoolLit => match k with FUser FBool _ => true | _ => false end
  | MIntLit fits => match k with FUser FInt _ => fits | FUser FFloat _ => true | _ => false end
  | MFloatLit fin => match k with FUser FFloat _ => fin | _ => false end
  | MStrLit s => match k with
                 | FUser FString _ => true
                 | FUser FBase64 _ => s_b64 s
                 | FUser FJson _ => s_json s
                 | FSysId | FSysRoomId => s_b64 s && match s_uid s with UKnown => true | _ => false end
                 | _ => false end
  end.

Fixpoint nodup_refs (l : list fref) : bool :=
  match l with [] => true | r :: t => negb (existsb (fref_eqb r) t) && nodup_refs t end.

(* uses of one variable must agree on the variable type *)
Definition var_uses (m : mutation) : list (N * vtype) :=
  flat_map (fun rv => match snd rv, fkind_of (m_decl m) (fst rv) with
                      | MVar x, Some k => [(x, variable_type k)]
                      | _, _ => [] end) (m_vals m).
Definition vars_consistent (l : list (N * vtype)) : bool :=
  forallb (fun a => forallb (fun b => negb (N.eqb (fst a) (fst b)) || vtype_eqb (snd a) (snd b)) l) l.

Definition mutation_valid (m : mutation) : bool :=
  let refs := map fst (m_vals m) in
  nodup_refs refs
  && forallb (fun rv => match fkind_of (m_decl m) (fst rv) with
                        | Some k => value_fits k (snd rv) (m_params m)
                        | None => false end) (m_vals m)
  && vars_consistent (var_uses m)
  && (existsb (fref_eqb RId) refs
      || forallb (fun i => match nth_error (m_decl m) i with
                           | Some (_, NotNull) => existsb (fref_eqb (RField i)) refs
                           | _ => true end) (seq 0 (List.length (m_decl m)))).

(* queries: every name exists with the right shape, aliases do not hide a field, no key twice *)
Definition rkey (x : rfield) : ident :=
  match x with RNamed a n | RSub a n _ => field_key a n | RJson a _ => a end.
Fixpoint nodup_idents (l : list ident) : bool :=
  match l with [] => true | k :: r => negb (existsb (ident_eqb k) r) && nodup_idents r end.

Fixpoint field_valid (dm : dmodel) (e : dentity) (f : rfield) {struct f} : bool :=
  match f with
  | RNamed alias name =>
      alias_admissible e alias
      && match get_field e name with
         | Some (FUserF (KScalar _ _)) | Some (FSysScalar _) => true
         | _ => false end
  | RJson alias name =>
      match get_field e name with Some (FUserF (KScalar true _)) => true | _ => false end
  | RSub alias name subs =>
      alias_admissible e alias
      && match get_field e name with
         | Some (FUserF (KRef _ t _)) =>
             match nth_error dm t with
             | Some te => forallb (field_valid dm te) subs && nodup_idents (map rkey subs)
             | None => false end
         | _ => false end
  end.

Definition entity_valid (dm : dmodel) (q : rentity) : bool :=
  negb (match re_alias q with Some a => starts_underscore a | None => false end)
  && match find_entity dm (re_ns q) (re_name q) with
     | Some e => forallb (field_valid dm e) (re_fields q) && nodup_idents (map rkey (re_fields q))
     | None => false end
  && negb (match re_alias q with
           | Some a => match find_entity dm [] a with Some _ => true | None => false end
           | None => false end).
Definition query_valid (dm : dmodel) (qs : list rentity) : bool :=
  forallb (entity_valid dm) qs && nodup_idents (map aliased_name qs).

Fixpoint count_subs (f : rfield) : N :=
  match f with
  | RSub _ _ subs => (1 + fold_right N.add 0 (map count_subs subs))%N
  | _ => 0%N
  end.
Definition select_bound (q : rentity) : N :=
  (2 + 4 * fold_right N.add 0 (map count_subs (re_fields q)))%N.

(* per-step observations of a pool: outcome 0/1 and probe answered; a valid request must be Ok *)
Fixpoint steps_ok (valid : list bool) (obs : list Z) : bool :=
  match valid, obs with
  | [], [] => true
  | v :: vr, o :: p :: r =>
      (Z.eqb o 0 || (Z.eqb o 1 && negb v)) && Z.eqb p 1 && steps_ok vr r
  | _, _ => false
  end.

Definition key_wellformed (k : list N) (pok : bool) : bool :=
  Nat.eqb (List.length k) 33 && match k with b :: _ => N.eqb b 1 | [] => false end && pok.

(* a request of the clause family is valid when the parser's rules accept it (typing of filter and
   paging values against what their key denotes, cross-clause rules) and every variable is given
   a value of its type; a deletion is valid when its id is the base64 of 16 bytes *)
Definition aquery_valid (q : aquery) : bool :=
  match aquery_check q with
  | Some vs => forallb (fun xv => match lookup (fst xv) (aq_params q) with
                                  | Some p => match validate_one (snd xv) p with Some _ => true | None => false end
                                  | None => false end) vs
  | None => false
  end.
Definition delete_valid (p : option pval) : bool :=
  match p with
  | Some (PStr s) => s_b64 s && match s_uid s with UNot16 => false | _ => true end
  | _ => false
  end.

Definition spec_C14 (c : c14case) (obs : list Z) : bool :=
  match c with
  | CMut m => steps_ok [mutation_valid m] obs
  | CMutSeq ms => steps_ok (map mutation_valid ms) obs
  | CKey k pok => match obs with
                  | [o] => Z.eqb o 0 || (Z.eqb o 1 && negb (key_wellformed k pok))
                  | _ => false end
  | CRow _ => match obs with [o] => Z.eqb o 0 || Z.eqb o 1 | _ => false end
  | CRowSeq rs => steps_ok (map (fun _ => false) rs) obs
  | CQuery dm qs => steps_ok [query_valid dm qs] obs
  | CQSize dm q => match obs with
                   | [r; s; l; rp] =>
                       if Z.eqb r 1 then Z.eqb l rp && Z.leb s (zn (select_bound q))
                       else negb (entity_valid dm q)
                   | _ => false end
  | CAgg q => steps_ok [aquery_valid q] obs
  | CDel p => steps_ok [delete_valid p] obs
  | CFrames info ans qs evs =>
      (* no reader is made to request more than the bound, nothing is delivered that was not
         sent, the endpoint serves the next connection *)
      match obs with
      | [i; a; q; e; big; probe] =>
          Z.eqb big 0 && Z.eqb probe 1 && (Z.eqb i 0 || Z.eqb i 1)
          && Z.leb 0 a && Z.leb a (Z.of_nat (List.length ans)) && Z.leb 0 q && Z.leb q (Z.of_nat (List.length qs))
          && Z.leb 0 e && Z.leb e (Z.of_nat (List.length evs))
      | _ => false end
  | CIngest _ _ => steps_ok [false] obs
  | CRoomDef _ _ => match obs with
                    | [o; p; r] => (Z.eqb o 0 || Z.eqb o 1) && Z.eqb p 1 && Z.eqb r 1
                    | _ => false end
  | CObs _ => zlist_eqb obs [0; 1]
  end.

(* ------------------------------------------------------------------------------------------ *)
(* classes of inputs on which the current tree is known to violate the property (open findings of
   known_findings.d/C14.json), each as narrow as the defect.  Classes 1-4 (null on a nullable Json
   field, empty verifying key, keyword / digit-first aliases, json selector with a default) were
   repaired by 8ac9d00, b4e6381, 601cdc3, classes 9-11 (ConnectionInfo length, dates beyond the calendar,
   peer user row without `enabled`) by feffa39, 8b3434e, 86aa554: their witnesses are ordinary cases now and must pass. *)

Fixpoint has_nn (c : cfield) : bool :=
  match c with CSub _ _ nl subs => negb nl || existsb has_nn subs | _ => false end.
Fixpoint nn_nested (c : cfield) : bool :=
  match c with
  | CSub _ _ nl subs => (negb nl && existsb has_nn subs) || existsb nn_nested subs
  | _ => false end.

(* 5: blank search text; 6: selection paths beyond the engine's parser stack;
   7: nested non-nullable references (each level is compiled twice);
   8: in an aggregate selection, a WHERE filter written on the selected json value (its name is a
      reference field or only the alias of a selected field) *)
Definition k5_entity (c : centity) : bool := negb (search_ok c).
Definition k6_entity (c : centity) : bool := negb (depth_ok c).
Definition k7_entity (c : centity) : bool := existsb nn_nested (ce_fields c).

Definition flag (k : Z) (b : bool) : list Z := if b then [k] else [].

Definition known_C14 (c : c14case) : list Z :=
  match c with
  | CQuery dm qs =>
      match resolve_query dm qs [] with
      | Some cs => flag 5 (existsb k5_entity cs) ++ flag 6 (existsb k6_entity cs)
      | None => [] end
  | CQSize dm q =>
      match resolve_entity dm q with
      | Some ce => flag 7 (k7_entity ce)
      | None => [] end
  | CAgg q => flag 5 (search_blank q) ++ flag 8 (value_filter_on_aggregate q)
  | _ => []
  end.

Definition eval_C14 (c : c14case) (obs : list Z) : list Z :=
  [zb (zlist_eqb (run_C14 c) obs); zb (spec_C14 c obs)] ++ known_C14 c.
