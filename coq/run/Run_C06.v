(* Run_C06.v — entry points evaluated by the correspondence harness for C06. No proofs. *)
From DV Require Export Digest DigestLayouts Stored.
Local Open Scope Z_scope.

Definition sitem : Type := (N * row * bool * N * row * bool)%type.

Inductive c06case :=
(* one row of kind k, signed with the real sign()/build() and checked with the real verify();
   jobj: the harness' own serde_json says every present JSON text is an object *)
| CRow (k : N) (r : row) (jobj : bool)
(* the signature of row 1 (kind k1, honestly signed) is put on row 2 (kind k2) *)
| CPair (k1 : N) (r1 : row) (j1 : bool) (k2 : N) (r2 : row) (j2 : bool)
(* a peer asks a running instance to prove its identity with challenge c (None: the digest of the
   forged row r) and uses the answer as the signature of r, a row the instance's user never wrote *)
| COracle (k : N) (r : row) (jobj : bool) (c : option (list byte))
(* core::str::from_utf8 on raw bytes (validates the UTF-8 part of well-formedness) *)
| CUtf8 (b : list byte)
(* sys.Peer rows written through the real add_peer_nodes on real instances (rows: the correctly signed
   rows of the scenario, the instances' own rows first; init: what every instance holds at the start;
   ops: (instance, row)); observation = per instance the stored rows column by column, what
   get_peer_node serves for the keys 0..nkeys-1, and finally how many stored / served rows the real
   verify() refuses *)
| CPeerStore (rows : list prow) (init : list (list nat)) (ops : list (nat * nat)) (nkeys : nat)
(* a history of local mutations, deletions, synchronisations and peer rows on two real instances
   (ops: its operation codes, for the record); observation = how many rows of _node, _edge, the two
   deletion logs and the served peer rows the real verify() refuses *)
| CStoredAll (ops : list N)
(* a history of batches submitted to ONE long-lived SignatureVerificationService (verify_nodes,
   verify_edges, the two deletion logs, verify_room_node).  An item is a row of kind k carrying the
   signature that was honestly made for row r0 of kind k0 (the genuine row: r0 = r; a tampered copy: one
   field changed, signature kept).  Observation: accepted / refused, batch by batch *)
| CService (batches : list (list sitem)).

Definition layout_of (k : N) : option layout := nth_error layouts (N.to_nat k).
Definition zbytes (b : list byte) : list Z := map (fun x => Z.of_N (bn x)) b.

(* verify() accepts the row itself (signature aside) *)
Definition accept (l : layout) (r : row) (jobj : bool) : bool :=
  wf_row l r && (negb (l_json_object l) || jobj).

(* sign() of a freshly built row accepts it: the checks of verify(), except that the size bound is
   evaluated before the signature field is filled in (when the source does so) *)
Definition body_len (l : layout) (r : row) : N := N.of_nat (length (enc_fields (l_fields l) r)).
Definition sign_accept (l : layout) (r : row) (jobj : bool) : bool :=
  wf_fields (l_fields l) r && (negb (l_json_object l) || jobj) &&
  match l_maxlen l with
  | Some m => (body_len l r + (if sign_size_excludes_signature then 0 else sig_len) <=? m)%N
  | None => true
  end.

Definition challenge_of (Hf : list byte -> list byte) (l : layout) (r : row) (c : option (list byte)) : list byte :=
  match c with Some b => b | None => Hf (enc l r) end.

Definition dump_srow (x : srow) : list Z := [zn (s_id x); zn (s_key x); s_mdate x; zn (s_json x); Z.of_nat (s_sig x)].
(* every stored row, and every row get_peer_node serves *)
Definition served_rows (stores : list (list srow)) (keys : list N) : list srow :=
  concat stores ++ flat_map (fun st => flat_map (fun k => match served st k with Some x => [x] | None => [] end) keys) stores.

(* the verification service: a row is accepted iff verify() accepts it — a function of the row and of
   the signature it carries, not of what the service has seen before *)
Definition item_verdict (Hf : list byte -> list byte) (it : sitem) : bool :=
  let '(k, r, j, k0, r0, j0) := it in
  match layout_of k, layout_of k0 with
  | Some l, Some l0 => sign_accept l0 r0 j0 && accept l r j && bytes_eqb (Hf (enc l r)) (Hf (enc l0 r0))
  | _, _ => false
  end.
Definition batch_verdict (Hf : list byte -> list byte) (b : list sitem) : bool := forallb (item_verdict Hf) b.
Definition item_genuine (it : sitem) : bool := let '(k, r, _, k0, r0, _) := it in N.eqb k k0 && row_eqb r r0.
(* same signed bytes, different rows: the collisions of classes 1 and 2 *)
Definition item_collides (it : sitem) : bool :=
  let '(k, r, _, k0, r0, _) := it in
  match layout_of k, layout_of k0 with
  | Some l, Some l0 => bytes_eqb (enc l r) (enc l0 r0) && negb (N.eqb k k0 && row_eqb r r0)
  | _, _ => false
  end.

(* what the model says the implementation observes; Hf is the hash (blake3 for the runs) *)
Definition run_C06_gen (Hf : list byte -> list byte) (c : c06case) : list Z :=
  match c with
  | CRow k r j =>
      match layout_of k with
      | Some l => zbytes (Hf (enc l r)) ++ [zb (sign_accept l r j); zb (sign_accept l r j && accept l r j)]
      | None => []
      end
  | CPair k1 r1 j1 k2 r2 j2 =>
      match layout_of k1, layout_of k2 with
      | Some l1, Some l2 =>
          let same := bytes_eqb (Hf (enc l1 r1)) (Hf (enc l2 r2)) in
          let signed := sign_accept l1 r1 j1 in   (* otherwise there is no signature to move *)
          [zb (signed && accept l1 r1 j1); zb (signed && accept l2 r2 j2 && same); zb same]
      | _, _ => []
      end
  | COracle k r j c =>
      match layout_of k with
      | Some l => [zb (accept l r j && bytes_eqb (challenge_of Hf l r c) (Hf (enc l r)))]
      | None => []
      end
  | CUtf8 b => [zb (utf8_valid b)]
  | CPeerStore rows init ops nkeys =>
      let stores := peer_run rows init ops in
      let keys := map N.of_nat (seq 0 nkeys) in
      flat_map (fun st => Z.of_nat (length st) :: flat_map dump_srow (sort_by_id st)
                          ++ map (fun k => zb (match served st k with Some _ => true | None => false end)) keys) stores
      ++ [Z.of_nat (length (filter (fun x => negb (verifies rows x)) (served_rows stores keys)))]
  | CStoredAll _ => [0]     (* every write path stores whole verified rows: nothing stored fails verify() *)
  | CService batches => map (fun b => zb (batch_verdict Hf b)) batches   (* the verdict of a batch is a function of the batch *)
  end.
Definition run_C06 : c06case -> list Z := run_C06_gen blake3.

(* ---- the property's own oracle, judged on what the IMPLEMENTATION did ---- *)
Definition spec_C06 (c : c06case) (obs : list Z) : bool :=
  match c with
  | CRow _ _ _ =>
      (* observation = digest, sign-ok, verify-ok: a row that sign() accepted verifies as stored *)
      match rev obs with
      | v :: s :: _ => negb (Z.eqb s 1) || Z.eqb v 1
      | _ => false
      end
  | CPair k1 r1 _ k2 r2 _ =>
      (* one signature valid for two rows => the two rows are the same row of the same kind *)
      match obs with
      | [v1; v2; _] => if Z.eqb v1 1 && Z.eqb v2 1 then N.eqb k1 k2 && row_eqb r1 r2 else true
      | _ => false
      end
  | COracle _ _ _ _ =>
      (* nothing a peer can ask yields a signature that verifies as a row the user did not author *)
      match obs with [v] => Z.eqb v 0 | _ => false end
  | CUtf8 _ => match obs with [_] => true | _ => false end
  (* every row that can be synchronised verifies exactly as stored / served *)
  | CPeerStore _ _ _ _ | CStoredAll _ => match rev obs with f :: _ => Z.eqb f 0 | [] => false end
  (* whatever the service has seen before: an accepted batch holds genuine rows only *)
  | CService batches =>
      Nat.eqb (length obs) (length batches) &&
      forallb (fun bo => if Z.eqb (snd bo) 1 then forallb item_genuine (fst bo) else true) (combine batches obs)
  end.

(* known-finding classes (known_findings.d/C06.json):
   1  two rows of the same kind with the SAME signed bytes that differ in shape: an optional field is
      present in one and absent in the other, or bytes moved across the boundary of two fields
      (unseparated concatenation)
   2  two rows of different kinds with the SAME signed bytes (no kind separation in the digest)
      (two rows with different bytes under one signature are in no class: always a violation)
   3  identity challenge equal to the digest of a row (raw signing oracle)
   4  (fixed 6d1bd7f) a reference whose fields fit the size bound but not together with the 64
      signature bytes was accepted by sign() and refused by verify() *)
Definition known_C06_gen (Hf : list byte -> list byte) (c : c06case) : list Z :=
  match c with
  | CPair k1 r1 _ k2 r2 _ =>
      match layout_of k1, layout_of k2 with
      | Some l1, Some l2 =>
          (* only collisions the unseparated concatenation explains: the two rows have the SAME bytes *)
          if bytes_eqb (enc l1 r1) (enc l2 r2) then
            if negb (N.eqb k1 k2) then [2]
            else if list_eqb N.eqb (shape l1 r1) (shape l1 r2) then [] else [1]
          else []
      | _, _ => []
      end
  | COracle k r _ c =>
      match layout_of k with
      | Some l => if bytes_eqb (challenge_of Hf l r c) (Hf (enc l r)) then [3] else []
      | None => []
      end
  | CService batches =>
      if existsb (existsb item_collides) batches
      then (if existsb (existsb (fun it => item_collides it && let '(k, _, _, k0, _, _) := it in N.eqb k k0)) batches then [1] else [2])
      else []
  | _ => []
  end.
Definition known_C06 : c06case -> list Z := known_C06_gen blake3.

(* the kinds named by the case exist *)
Definition case_ok (c : c06case) : bool :=
  let ok k := match layout_of k with Some _ => true | None => false end in
  match c with
  | CRow k _ _ => ok k
  | CPair k1 _ _ k2 _ _ => ok k1 && ok k2
  | COracle k _ _ _ => ok k
  | CUtf8 _ => true
  | CPeerStore _ _ _ _ | CStoredAll _ => true
  | CService batches => forallb (forallb (fun it : sitem => let '(k, _, _, k0, _, _) := it in ok k && ok k0)) batches
  end.

Definition eval_C06 (c : c06case) (obs : list Z) : list Z :=
  [zb (zlist_eqb (run_C06 c) obs); zb (spec_C06 c obs)] ++ known_C06 c.

(* ---- witnesses of `collide_all`, flattened for the harness (which replays them through the real
        verify()):  [k1; k2; fields of row 1 ...; -1; fields of row 2 ...] with a field written as
        tag (0 bytes, 1 integer, 2 absent), length, data ---- *)
Definition dump_val (v : fval) : list Z :=
  match v with
  | VB b => 0 :: Z.of_nat (length b) :: zbytes b
  | VI z => [1; 1; z]
  | VNone => [2; 0]
  end.
Definition dump_witness (w : witness) : list Z :=
  let '(k1, r1, k2, r2) := w in
  [Z.of_N k1; Z.of_N k2] ++ flat_map dump_val r1 ++ [-1] ++ flat_map dump_val r2.
Definition dump_witnesses (key : list byte) : list (list Z) := map dump_witness (collide_all key layouts).
