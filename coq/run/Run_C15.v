(* Run_C15.v — entry points evaluated by the correspondence harness for C15
   (changing the data model never loses data; a refused change changes nothing). No proofs. *)
From DV Require Export DataModel.
Local Open Scope N_scope.

(* ---------------------------------------------------------------- oracles as tables *)
(* rank tables observed by the harness: key -> position in the iteration *)
Record otab := mkOT { t_ns : list (N * N); t_ent : list (N * N * N); t_fld : list (N * N * N * N) }.
Definition look1 (l : list (N * N)) (a : N) : N :=
  match find (fun p => N.eqb (fst p) a) l with Some p => snd p | None => 0 end.
Definition look2 (l : list (N * N * N)) (a b : N) : N :=
  match find (fun p => let '(x, y, _) := p in N.eqb x a && N.eqb y b) l with Some p => snd p | None => 0 end.
Definition look3 (l : list (N * N * N * N)) (a b c : N) : N :=
  match find (fun p => let '(x, y, z, _) := p in N.eqb x a && N.eqb y b && N.eqb z c) l with Some p => snd p | None => 0 end.
Definition oracle_of (t : otab) : oracle :=
  mkO (look1 (t_ns t)) (look2 (t_ent t)) (look3 (t_fld t)).

(* ---------------------------------------------------------------- cases *)
Inductive c15case :=
(* the same sequence of update_system / update calls applied to bare DataModel values by several
   peers, each with the iteration orders its hash maps happened to have *)
| CBare (steps : list step) (peers : list (list otab))
(* a real GraphDatabaseService holding rows: (true, s) = (re)start on the same folder with that
   model, (false, s) = update_data_model at run time *)
| CInst (steps : list (bool * step)) (oras : list otab).

(* ---------------------------------------------------------------- canonical dumps *)
Definition enc_type (t : ftype) : list Z :=
  match t with
  | TBool => [0; 0; 0] | TFloat => [1; 0; 0] | TInt => [2; 0; 0] | TStr => [3; 0; 0]
  | TB64 => [4; 0; 0] | TJson => [5; 0; 0]
  | TEnt n e => [6; zn n; zn e] | TArr n e => [7; zn n; zn e]
  end%Z.
Definition enc_list {A} (enc : A -> list Z) (l : list A) : list Z := Z.of_nat (length l) :: flat_map enc l.
Definition enc_field (f : field) : list Z :=
  [zn (f_name f); zn (f_short f)] ++ enc_type (f_type f) ++ [zo (f_default f); zb (f_nullable f); zb (f_depr f)].
Definition enc_ent (e : entity) : list Z :=
  [zn (e_name e); zo (fst (e_short e)); zn (snd (e_short e)); zb (e_depr e); zb (e_ft e)]
  ++ enc_list enc_field (sort_by f_name (e_fields e))
  ++ enc_list (fun i => [zn i]) (sort_by (fun i => i) (e_idx e))
  ++ enc_list (fun i => [zn i]) (sort_by (fun i => i) (e_rm e)).
Definition enc_ns (n : nspace) : list Z :=
  [zn (n_name n); zn (n_id n)] ++ enc_list enc_ent (sort_by e_name (n_ents n)).
(* second number: the value's own look-up tables (namespace_ids, entities_short: short name ->
   entity) agree with its namespaces — they are derived data here, always 1 *)
Definition enc_model (M : dmodel) : list Z := zn (m_tag M) :: 1%Z :: enc_list enc_ns (sort_by n_name (m_nss M)).

(* decoding (the property's oracle reads the implementation's dumps) *)
Definition dec (A : Type) := list Z -> option (A * list Z).
Definition dec_N : dec N := fun l => match l with z :: r => if (z <? 0)%Z then None else Some (Z.to_N z, r) | [] => None end.
Definition dec_optN : dec (option N) := fun l =>
  match l with z :: r => if (z <? 0)%Z then Some (None, r) else Some (Some (Z.to_N z), r) | [] => None end.
Definition dec_bool : dec bool := fun l => match l with z :: r => Some (Z.eqb z 1, r) | [] => None end.
Fixpoint dec_times {A} (d : dec A) (n : nat) (l : list Z) : option (list A * list Z) :=
  match n with
  | O => Some ([], l)
  | S k => match d l with
           | None => None
           | Some (a, r) => match dec_times d k r with Some (t, r') => Some (a :: t, r') | None => None end
           end
  end.
Definition dec_list {A} (d : dec A) : dec (list A) := fun l =>
  match l with z :: r => if (z <? 0)%Z then None else dec_times d (Z.to_nat z) r | [] => None end.
Definition dec_type : dec ftype := fun l =>
  match l with
  | c :: a :: b :: r =>
      let n := Z.to_N a in let e := Z.to_N b in
      (if c =? 0 then Some (TBool, r) else if c =? 1 then Some (TFloat, r) else if c =? 2 then Some (TInt, r)
       else if c =? 3 then Some (TStr, r) else if c =? 4 then Some (TB64, r) else if c =? 5 then Some (TJson, r)
       else if c =? 6 then Some (TEnt n e, r) else if c =? 7 then Some (TArr n e, r) else None)%Z
  | _ => None
  end.
Definition dec_field : dec field := fun l =>
  match dec_N l with None => None | Some (nm, l) =>
  match dec_N l with None => None | Some (sh, l) =>
  match dec_type l with None => None | Some (ty, l) =>
  match dec_optN l with None => None | Some (df, l) =>
  match dec_bool l with None => None | Some (nu, l) =>
  match dec_bool l with None => None | Some (dp, l) => Some (mkF nm sh ty df nu dp, l)
  end end end end end end.
Definition dec_ent : dec entity := fun l =>
  match dec_N l with None => None | Some (nm, l) =>
  match dec_optN l with None => None | Some (s1, l) =>
  match dec_N l with None => None | Some (s2, l) =>
  match dec_bool l with None => None | Some (dp, l) =>
  match dec_bool l with None => None | Some (ft, l) =>
  match dec_list dec_field l with None => None | Some (fs, l) =>
  match dec_list dec_N l with None => None | Some (ix, l) =>
  match dec_list dec_N l with None => None | Some (rm, l) => Some (mkE nm (s1, s2) fs ix rm dp ft, l)
  end end end end end end end end.
Definition dec_ns : dec nspace := fun l =>
  match dec_N l with None => None | Some (nm, l) =>
  match dec_N l with None => None | Some (id, l) =>
  match dec_list dec_ent l with None => None | Some (es, l) => Some (mkNs nm id es, l)
  end end end.
Definition dec_model : dec dmodel := fun l =>
  match dec_N l with None => None | Some (tg, l) =>
  match dec_bool l with None => None | Some (consistent, l) =>
  if negb consistent then None else          (* look-up tables that disagree with the namespaces: no model *)
  match dec_list dec_ns l with None => None | Some (ns, l) => Some (mkM tg ns, l)
  end end end.

(* ---------------------------------------------------------------- what the model says *)
Definition enc_step (r : option err * dmodel) : list Z := verdict_code (fst r) :: enc_model (snd r).
Definition run_bare (steps : list step) (peers : list (list otab)) : list (list (option err * dmodel)) :=
  map (fun os => run_steps empty_model steps (map oracle_of os)) peers.

(* rows: the harness writes three rows for every entity of the first started version that can be
   written with plain scalar values, and reads them — and every field the model in memory has gained
   since — back after every step.  The query evaluator is not modelled; what is modelled is the one
   way in which the reading is known to differ (finding class 4): a Boolean field with a default,
   added to an entity that has rows, reads 1 / 0 on the old rows (`Ifnull(_json->'$.n', true)`:
   SQL true is the integer 1) instead of true / false *)
Definition writable (t : ftype) : bool := match t with TBool | TFloat | TInt | TStr => true | _ => false end.
Definition has_rows (d : edecl) : bool :=
  existsb (fun f => writable (fd_type f)) (ed_fields d)
  && forallb (fun f => writable (fd_type f) || is_ref (fd_type f) || negb (needs_default (fd_nullable f) (fd_default f) (fd_type f))) (ed_fields d).
Definition baseline_of (v : version) : list (N * N * list N) :=
  flat_map (fun b => flat_map (fun d => if has_rows d then [(fst b, ed_name d, map fd_name (ed_fields d))] else []) (snd b)) (v_blocks v).
Definition bool_default_new (mem : list nspace) (b : N * N * list N) : bool :=
  let '(ns, e, orig) := b in
  match find_ns ns mem with
  | None => false
  | Some n => match find_ent e (n_ents n) with
              | None => false
              | Some en => existsb (fun f => negb (memN (f_name f) orig) && (match f_type f with TBool => true | _ => false end)
                                             && negb (is_none (f_default f))) (e_fields en)
              end
  end.
Definition rows_flag (mem : dmodel) (base : list (N * N * list N)) : bool := negb (existsb (bool_default_new (m_nss mem)) base).

(* instance histories: state = (stored model, model in memory, is an instance running, the entities
   that have rows).  GraphDatabase::update_data_model applies the system model and the new version to
   a copy of the stored model, has the writer store it (storage_refuses: the database refuses its
   indexes) and only then makes it the model in memory; a refusal of either kind changes neither and
   is reported; a refused start leaves no instance *)
Fixpoint run_inst_obs (stored mem : dmodel) (running : bool) (base : option (list (N * N * list N)))
         (steps : list (bool * step)) (os : list otab) : list (bool * option (dmodel * dmodel * bool)) :=
  match steps with
  | [] => []
  | (is_start, s) :: r =>
      if negb is_start && negb running then (false, None) :: run_inst_obs stored mem running base r (tl os)
      else
      let o := oracle_of (hd (mkOT [] [] []) os) in
      let '(W, e) := upd o (s_sys s) stored (s_ver s) in
      let ok := is_none e && negb (storage_refuses (s_ver s)) in
      let stored' := if ok then W else stored in
      let mem' := if ok then W else if is_start then stored else mem in     (* a start begins with a fresh value *)
      let running' := if is_start then ok else true in
      let base' := match base with Some b => Some b | None => if running' then Some (baseline_of (s_ver s)) else None end in
      (ok, if running' then Some (mem', stored', rows_flag mem' (match base' with Some b => b | None => [] end)) else None)
        :: run_inst_obs stored' mem' running' base' r (tl os)
  end.
Definition enc_inst (x : bool * option (dmodel * dmodel * bool)) : list Z :=
  zb (fst x) :: match snd x with
                | None => [0%Z]
                | Some (mem, sto, rows) => [1%Z] ++ enc_model mem ++ enc_model sto ++ [zb rows]
                end.

Definition run_C15 (c : c15case) : list Z :=
  match c with
  | CBare steps peers => flat_map (fun p => flat_map enc_step p) (run_bare steps peers)
  | CInst steps os => flat_map enc_inst (run_inst_obs empty_model empty_model false None steps os)
  end.

(* ---------------------------------------------------------------- the property's own oracle *)
Definition field_kept (f : field) (fs' : list field) : bool :=
  existsb (fun g => N.eqb (f_name g) (f_name f) && N.eqb (f_short g) (f_short f) && ftype_eqb (f_type g) (f_type f)) fs'.
Definition ent_kept (e : entity) (es' : list entity) : bool :=
  existsb (fun e' => N.eqb (e_name e') (e_name e) && short_eqb (e_short e') (e_short e)
                     && forallb (fun f => field_kept f (e_fields e')) (e_fields e)) es'.
Definition ns_kept (n : nspace) (M' : list nspace) : bool :=
  existsb (fun n' => N.eqb (n_name n') (n_name n) && N.eqb (n_id n') (n_id n)
                     && forallb (fun e => ent_kept e (n_ents n')) (n_ents n)) M'.
(* every namespace / entity / field that existed keeps its name, storage identifier and type *)
Definition stable_b (M M' : list nspace) : bool := forallb (fun n => ns_kept n M') M.

Fixpoint nodup_by {A} (eqb : A -> A -> bool) (l : list A) : bool :=
  match l with [] => true | a :: r => negb (existsb (eqb a) r) && nodup_by eqb r end.
Definition all_eshorts (M : list nspace) : list eshort := flat_map (fun n => map e_short (n_ents n)) M.
(* no two namespaces / entities / fields of one entity share a name or a storage identifier *)
Definition wf_b (M : list nspace) : bool :=
  nodup_by N.eqb (map n_name M) && nodup_by N.eqb (map n_id M) && nodup_by short_eqb (all_eshorts M)
  && forallb (fun n => nodup_by N.eqb (map e_name (n_ents n))
                       && forallb (fun e => nodup_by N.eqb (map f_name (e_fields e))
                                            && nodup_by N.eqb (map f_short (e_fields e))) (n_ents n)) M.
(* a field added to an entity that already existed can be read on old rows: nullable, default or reference *)
Definition newfields_b (M M' : list nspace) : bool :=
  forallb (fun n' => match find_ns (n_name n') M with
                     | None => true
                     | Some n => forallb (fun e' => match find_ent (e_name e') (n_ents n) with
                                                    | None => true
                                                    | Some e => forallb (fun f' => has_field (f_name f') (e_fields e) || f_nullable f'
                                                                                   || negb (is_none (f_default f')) || is_ref (f_type f')) (e_fields e')
                                                    end) (n_ents n')
                     end) M'.

Definition field_eqb (a b : field) : bool :=
  N.eqb (f_name a) (f_name b) && N.eqb (f_short a) (f_short b) && ftype_eqb (f_type a) (f_type b)
  && opt_eqb N.eqb (f_default a) (f_default b) && Bool.eqb (f_nullable a) (f_nullable b) && Bool.eqb (f_depr a) (f_depr b).
Definition ent_eqb (a b : entity) : bool :=
  N.eqb (e_name a) (e_name b) && short_eqb (e_short a) (e_short b) && list_eqb field_eqb (e_fields a) (e_fields b)
  && list_eqb N.eqb (e_idx a) (e_idx b) && list_eqb N.eqb (e_rm a) (e_rm b)
  && Bool.eqb (e_depr a) (e_depr b) && Bool.eqb (e_ft a) (e_ft b).
Definition ns_eqb (a b : nspace) : bool :=
  N.eqb (n_name a) (n_name b) && N.eqb (n_id a) (n_id b) && list_eqb ent_eqb (n_ents a) (n_ents b).
Definition nss_eqb := list_eqb ns_eqb.
Definition model_eqb (a b : dmodel) : bool := N.eqb (m_tag a) (m_tag b) && nss_eqb (m_nss a) (m_nss b).

(* after an accepted version the model is the one a peer gets that starts with this very text:
   every declared entity is there at its place in its namespace (blocks of one namespace count as
   one), with exactly the declared fields, each with the identifier of its place in the text *)
Fixpoint fields_as_text (i : N) (ds : list fdecl) (fs : list field) : bool :=
  match ds with
  | [] => true
  | d :: r => match find_field (fd_name d) fs with
              | Some g => N.eqb (f_short g) (reserved + i) && ftype_eqb (f_type g) (fd_type d) && fields_as_text (i + 1) r fs
              | None => false
              end
  end.
Definition ns_decls (v : version) (ns : N) : list edecl :=
  flat_map (fun b => if N.eqb (fst b) ns then snd b else []) (v_blocks v).
Fixpoint ents_as_text (i : N) (ds : list edecl) (es : list entity) : bool :=
  match ds with
  | [] => true
  | d :: r => match find_ent (ed_name d) es with
              | Some e => N.eqb (snd (e_short e)) i && N.eqb (len (e_fields e)) (len (ed_fields d))
                          && fields_as_text 0 (ed_fields d) (e_fields e) && ents_as_text (i + 1) r es
              | None => false
              end
  end.
Definition as_text (v : version) (M : list nspace) : bool :=
  forallb (fun b => match ns_decls v (fst b) with
                    | [] => true
                    | ds => match find_ns (fst b) M with
                            | Some n => N.eqb (len (n_ents n)) (len ds) && ents_as_text 0 ds (n_ents n)
                            | None => false
                            end
                    end) (v_blocks v).

(* one step of one bare model, judged on the dumps before / after:
   accepted  => nothing that existed changed id or type, no collisions, new fields readable on old rows
   refused   => nothing changed at all
   the version is the one accepted last (of that kind) => accepted, and nothing changes *)
Definition step_ok (last : option N) (s : step) (verdict : Z) (D D' : dmodel) : bool :=
  (if Z.eqb verdict 0
   then stable_b (m_nss D) (m_nss D') && wf_b (m_nss D') && newfields_b (m_nss D) (m_nss D') && N.eqb (m_tag D') (v_tag (s_ver s))
        && as_text (s_ver s) (m_nss D')
   else model_eqb D D')
  && (if opt_eqb N.eqb last (Some (v_tag (s_ver s))) then Z.eqb verdict 0 && nss_eqb (m_nss D) (m_nss D') else true).

(* last accepted version tag, per kind (system, user) *)
Definition upd_last (last : option N * option N) (s : step) (verdict : Z) : option N * option N :=
  if Z.eqb verdict 0 then (if s_sys s then (Some (v_tag (s_ver s)), snd last) else (fst last, Some (v_tag (s_ver s)))) else last.
Fixpoint peer_ok (last : option N * option N) (D : dmodel) (steps : list step) (obs : list (Z * dmodel)) : bool :=
  match steps, obs with
  | [], [] => true
  | s :: r, (v, D') :: ro =>
      step_ok (if s_sys s then fst last else snd last) s v D D' && peer_ok (upd_last last s v) D' r ro
  | _, _ => false
  end.

(* peers that applied the same versions accepted the same ones and hold the same models
   (identifiers included) after every step *)
Fixpoint agree (a b : list (Z * dmodel)) : bool :=
  match a, b with
  | (va, Da) :: ra, (vb, Db) :: rb => Bool.eqb (Z.eqb va 0) (Z.eqb vb 0) && model_eqb Da Db && agree ra rb
  | [], [] => true
  | _, _ => false
  end.
Fixpoint all_agree (l : list (list (Z * dmodel))) : bool :=
  match l with
  | a :: r => forallb (agree a) r && all_agree r
  | [] => true
  end.

Definition dec_step : dec (Z * dmodel) := fun l =>
  match l with v :: r => match dec_model r with Some (D, r') => Some ((v, D), r') | None => None end | [] => None end.
Fixpoint dec_peers (npeers : nat) (nsteps : nat) (l : list Z) : option (list (list (Z * dmodel)) * list Z) :=
  match npeers with
  | O => Some ([], l)
  | S k => match dec_times dec_step nsteps l with
           | None => None
           | Some (p, r) => match dec_peers k nsteps r with Some (t, r') => Some (p :: t, r') | None => None end
           end
  end.

Definition spec_bare (steps : list step) (obs : list (list (Z * dmodel))) : bool :=
  forallb (peer_ok (None, None) empty_model steps) obs && all_agree obs.

(* --- instances --- *)
Definition dec_inst : dec (bool * option (dmodel * dmodel * bool)) := fun l =>
  match dec_bool l with None => None | Some (ok, l) =>
  match dec_bool l with None => None | Some (running, l) =>
  if running then
    match dec_model l with None => None | Some (mem, l) =>
    match dec_model l with None => None | Some (sto, l) =>
    match dec_bool l with None => None | Some (rows, l) => Some ((ok, Some (mem, sto, rows)), l)
    end end end
  else Some ((ok, None), l)
  end end.

(* state carried: what is stored, what the running instance holds (None: no instance) *)
Fixpoint inst_ok (stored : dmodel) (mem : option dmodel) (steps : list (bool * step))
         (obs : list (bool * option (dmodel * dmodel * bool))) : bool :=
  match steps, obs with
  | [], [] => true
  | (is_start, s) :: r, (ok, st) :: ro =>
      let tag := v_tag (s_ver s) in
      match st with
      | None =>
          (* no instance afterwards: only a refused start may do that; the store cannot be read *)
          is_start && negb ok
          && negb (N.eqb (m_tag stored) tag)            (* restarting with the stored model must work *)
          && inst_ok stored None r ro
      | Some (mem', sto', rows) =>
          let applied := N.eqb (m_tag sto') tag && ok in
          rows                                           (* every row written before reads the same; new entities have no rows *)
          && (if ok then N.eqb (m_tag sto') tag else true)          (* Ok means: this version is now in force *)
          && (if N.eqb (m_tag stored) tag then ok && model_eqb stored sto' else true)   (* same model again: no change *)
          && (if applied
              then stable_b (m_nss stored) (m_nss sto') && wf_b (m_nss sto') && newfields_b (m_nss stored) (m_nss sto')
                   && model_eqb mem' sto' && as_text (s_ver s) (m_nss sto')
              else model_eqb stored sto'
                   && match mem with Some m => model_eqb m mem' | None => true end)  (* a refused version has no effect on the running instance *)
          && inst_ok sto' (Some mem') r ro
      end
  | _, _ => false
  end.

Definition spec_C15 (c : c15case) (obs : list Z) : bool :=
  match c with
  | CBare steps peers =>
      match dec_peers (length peers) (length steps) obs with
      | Some (o, []) => spec_bare steps o
      | _ => false
      end
  | CInst steps _ =>
      match dec_times dec_inst (length steps) obs with
      | Some (o, []) => inst_ok empty_model None steps o
      | _ => false
      end
  end.

(* ---------------------------------------------------------------- statements about histories *)
(* the identifier clauses of step_ok, for one step *)
Definition keeps_ids (M M' : dmodel) : Prop :=
  stable_b (m_nss M) (m_nss M') = true /\ wf_b (m_nss M') = true /\ newfields_b (m_nss M) (m_nss M') = true.
(* a relation between consecutive models holds at every step of a history, whatever its verdict *)
Fixpoint chain (P : dmodel -> dmodel -> Prop) (M : dmodel) (l : list (option err * dmodel)) : Prop :=
  match l with
  | [] => True
  | (_, M') :: r => P M M' /\ chain P M' r
  end.
Definition hist_ok := chain keeps_ids.
(* every refused step leaves the model as it was *)
Fixpoint refused_unchanged (M : dmodel) (l : list (option err * dmodel)) : Prop :=
  match l with
  | [] => True
  | (e, M') :: r => (e <> None -> M' = M) /\ refused_unchanged M' r
  end.

(* instance histories: at every step the model in memory is the stored one, a refused step —
   by the data model rules or by the database — leaves the store as it was, an accepted one keeps
   the identifiers *)
Fixpoint inst_chain (stored : dmodel) (l : list (bool * option (dmodel * dmodel * bool))) : Prop :=
  match l with
  | [] => True
  | (ok, Some (mem, sto, _)) :: r => mem = sto /\ (ok = false -> sto = stored) /\ keeps_ids stored sto /\ inst_chain sto r
  | (ok, None) :: r => ok = false /\ inst_chain stored r
  end.

(* what peers must agree on: was the version accepted, and the model afterwards (which error a
   refused version is refused with depends on the iteration order) *)
Definition outcome (r : option err * dmodel) : bool * dmodel := (is_none (fst r), snd r).

(* where a reader finds a value: short name of the entity, of the field (the JSON key), its type *)
Definition address (M : list nspace) (ns e f : N) : option (eshort * N * ftype) :=
  match find_ns ns M with
  | None => None
  | Some n => match find_ent e (n_ents n) with
              | None => None
              | Some en => match find_field f (e_fields en) with
                           | None => None
                           | Some fl => Some (e_short en, f_short fl, f_type fl)
                           end
              end
  end.
Definition addresses_kept (M M' : dmodel) : Prop :=
  forall ns e f a, address (m_nss M) ns e f = Some a -> address (m_nss M') ns e f = Some a.

(* ---------------------------------------------------------------- known-finding classes *)
(* classes 1-3 (K1 identifiers followed the hash-map order, K2 a refused version left the model
   half-updated, K3 a refusal at run time was answered with Ok) are repaired in /repo
   (known_findings.d/C15.json, status fixed): their witnesses stay among the directed cases and
   must pass the oracle.
   class 4 (open): an instance history in which an entity that has rows is given a Boolean field
   with a default: the old rows read 1 / 0 for it instead of true / false (query.rs get_fields) *)
Definition known_C15 (c : c15case) : list Z :=
  match c with
  | CBare _ _ => []
  | CInst steps os =>
      if forallb (fun x => match snd x with Some (_, _, rows) => rows | None => true end)
                 (run_inst_obs empty_model empty_model false None steps os)
      then [] else [4%Z]
  end.

Definition eval_C15 (c : c15case) (obs : list Z) : list Z :=
  [zb (zlist_eqb (run_C15 c) obs); zb (spec_C15 c obs)] ++ known_C15 c.
