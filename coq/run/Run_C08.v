(* Run_C08.v — entry points evaluated by the correspondence harness for C08.  No proofs. *)
From DV Require Export RightsSpec Outbound.
Open Scope N_scope.

(* one connection served by one instance: the instance's own key, the key the remote peer proves
   (bound by OBind), the instance's content, and what happens on the connection *)
Inductive c08case := COut (self key : key) (i : inst) (es : list oev).

(* ---------------- observation format ----------------
   per event: [code; number of items; items...]   (see Outbound.answer) *)
Definition enc_ans (a : answer) : list Z := fst a :: Z.of_nat (length (snd a)) :: map zn (snd a).
Definition encode (l : list answer) : list Z := flat_map enc_ans l.

Fixpoint take_n (n : nat) (l : list Z) : option (list N * list Z) :=
  match n with
  | O => Some ([], l)
  | S k => match l with
           | x :: tl => match take_n k tl with Some (xs, rest) => Some (Z.to_N x :: xs, rest) | None => None end
           | [] => None
           end
  end.
Fixpoint decode (nev : nat) (l : list Z) : option (list answer) :=
  match nev with
  | O => match l with [] => Some [] | _ => None end
  | S k => match l with
           | code :: cnt :: tl =>
               match take_n (Z.to_nat cnt) tl with
               | Some (items, rest) => match decode k rest with Some al => Some ((code, items) :: al) | None => None end
               | None => None
               end
           | _ => None
           end
  end.

Definition run_answers (c : c08case) : list answer :=
  match c with COut self key i es => orun self key i (oinit i) es end.
(* what the model says the implementation observes *)
Definition run_C08 (c : c08case) : list Z := encode (run_answers c).

(* ---------------- the property's own oracle ----------------
   Every item of room data in an answer must belong to a room of which the key proven on this
   connection is a member AT THAT MOMENT, by the accepted definition history of that room (date
   based: RightsSpec); before a key is proven no room data at all.  It looks at the answers only,
   not at `allowed_room`. *)
Definition member_spec (evs : list event) (k : key) (d : Z) : bool :=
  admin_at evs k d || existsb (fun g => member_at evs g k d) (groups evs).
Definition member_now (defs : list (uid * list event)) (r : uid) (k : key) (now : Z) : bool :=
  match def_of defs r with Some evs => member_spec (accepted r evs) k now | None => false end.

Definition edge_room (i : inst) (e : N) : option uid :=
  match find (fun x => N.eqb (e_id x) e) (i_edges i) with
  | Some x => node_room (i_nodes i) (e_src x)
  | None => None
  end.
(* the room each payload item belongs to (None: a row that is in no room / unknown) *)
Definition item_rooms (i : inst) (q : query) (items : list N) : list (option uid) :=
  match q with
  | QryProveIdentity | QryHardwareFingerprint => []
  | QryRoomList | QryRoom _ _ _ => map Some items
  | QryNodes _ _ => map (node_room (i_nodes i)) items
  | QryEdges _ _ => map (edge_room i) items
  end.

Fixpoint spec_from (key : key) (i : inst) (bound : bool) (defs : list (uid * list event))
         (es : list oev) (al : list answer) : bool :=
  match es, al with
  | [], [] => true
  | e :: tl, a :: atl =>
      match e with
      | OBind => spec_from key i true defs tl atl
      | ODefine r ev => spec_from key i bound (define defs r ev) tl atl
      | OQuery now q =>
          forallb (fun ro => match ro with
                             | Some r => bound && member_now defs r key now
                             | None => false
                             end) (item_rooms i q (snd a))
          && spec_from key i bound defs tl atl
      | _ => spec_from key i bound defs tl atl
      end
  | _, _ => false
  end.

Definition spec_C08 (c : c08case) (obs : list Z) : bool :=
  match c with
  | COut self key i es =>
      match decode (length es) obs with
      | Some al => spec_from key i false (i_defs i) es al
      | None => false
      end
  end.

(* well-formed instance tables: row identifiers are unique *)
Fixpoint nodupN (l : list N) : bool :=
  match l with [] => true | x :: t => negb (memU x t) && nodupN t end.
Definition wf_case (c : c08case) : bool :=
  match c with COut _ _ i _ => nodupN (map n_id (i_nodes i)) && nodupN (map e_id (i_edges i)) && nodupN (map fst (i_defs i)) end.

(* ---------------- known finding classes (defined by their CAUSE in the history) ----------------
   ghost: for every room that enters allowed_room, was the key valid in it at that moment?
   class 1 (K1, allowed_room never shrinks): a request names a room that entered allowed_room while
            the key was valid in it, at a moment the key is no longer (or not) valid in it.
   class 2 (K2, has_user instead of "valid now"): a request names a room that entered allowed_room
            through a definition event while the key was NOT valid in it (it only has some entry,
            e.g. the very entry that disables it), at a moment the key is not valid in it. *)
Definition ev_time (e : oev) : Z :=
  match e with OQuery now _ | ODefChanged now _ => now | _ => 0%Z end.
Definition tag_new (key : key) (defs : list (uid * list event)) (now : Z) (old new : list uid)
           (gh : list (uid * bool)) : list (uid * bool) :=
  fold_left (fun acc r => if memU r old then acc else acc ++ [(r, room_valid_now defs r key now)]) new gh.
Definition stale_class (key : key) (s : ost) (gh : list (uid * bool)) (e : oev) : list Z :=
  match e with
  | OQuery now q =>
      match room_arg q with
      | Some r =>
          if o_bound s && negb (room_valid_now (o_defs s) r key now)
          then match find (fun x => N.eqb (fst x) r) gh with
               | Some (_, true) => [1%Z]
               | Some (_, false) => [2%Z]
               | None => []
               end
          else []
      | None => []
      end
  | _ => []
  end.
Fixpoint known_from (self key : key) (i : inst) (s : ost) (gh : list (uid * bool)) (es : list oev) : list Z :=
  match es with
  | [] => []
  | e :: tl =>
      let s' := fst (ostep self key i s e) in
      stale_class key s gh e ++
      known_from self key i s' (tag_new key (o_defs s) (ev_time e) (o_allowed s) (o_allowed s') gh) tl
  end.
Definition dedupZ (l : list Z) : list Z :=
  (if existsb (Z.eqb 1) l then [1%Z] else []) ++ (if existsb (Z.eqb 2) l then [2%Z] else []).
Definition known_C08 (c : c08case) : list Z :=
  match c with COut self key i es => dedupZ (known_from self key i (oinit i) [] es) end.

Definition eval_C08 (c : c08case) (obs : list Z) : list Z :=
  [zb (zlist_eqb (run_C08 c) obs); zb (spec_C08 c obs)] ++ known_C08 c.
