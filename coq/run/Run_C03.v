(* Run_C03.v — entry points evaluated by the correspondence harness for C03 (synchronisation converges). *)
From DV Require Export SyncObs.

(* n peers; [hist]: local writes and directed pulls in a generated order; [final]: the last two
   round-robin rounds the harness ran (it pulls round-robin until a round requests nothing, bounded,
   then one more round) *)
Inductive c03case := C03Case (n : N) (hist : list sop) (final : list sop).
Definition c03_n (c : c03case) : N := match c with C03Case n _ _ => n end.
Definition c03_ops (c : c03case) : list sop := match c with C03Case _ h f => h ++ f end.
Definition c03_final (c : c03case) : list sop := match c with C03Case _ _ f => f end.

(* what the model says the implementation shows *)
Definition run_C03 (c : c03case) : list Z := run_obs (init_sys (c03_n c)) (c03_ops c).

(* ---- the property's own oracle, on what the IMPLEMENTATION showed ---- *)
Fixpoint replay_C03 (st : ostate) (ops : list sop) (blocks : list (Z * replica)) : bool :=
  match ops, blocks with
  | [], [] => true
  | o :: ops', (_, r) :: blocks' =>
      (match o with
       | Pull d s _ => delivered (get s (o_sys st)) r && refs_delivered (get s (o_sys st)) r
       | _ => true
       end) && replay_C03 (observe (op_peer o) r st) ops' blocks'
  | _, _ => false
  end.
Fixpoint final_sys (st : ostate) (ops : list sop) (blocks : list (Z * replica)) : sys :=
  match ops, blocks with
  | o :: ops', (_, r) :: blocks' => final_sys (observe (op_peer o) r st) ops' blocks'
  | _, _ => o_sys st
  end.
(* no local update carried a clock behind the version the peer showed before it (judged on the
   implementation's dumps): outside that, a row may legitimately sit below an old deletion record *)
Fixpoint no_regress (st : ostate) (ops : list sop) (blocks : list (Z * replica)) : bool :=
  match ops, blocks with
  | o :: ops', (_, r) :: blocks' =>
      (match o with
       | Update p x t _ => match find_node x (nodes (get p (o_sys st))) with Some e => n_mdate e <=? t | None => true end
       | _ => true
       end) && no_regress (observe (op_peer o) r st) ops' blocks'
  | _, _ => true
  end.
Definition quiet_blocks (k : nat) (blocks : list (Z * replica)) : bool :=
  forallb (fun b => Z.eqb (fst b) 0) (skipn (length blocks - k) blocks).

Definition spec_C03 (c : c03case) (obs : list Z) : bool :=
  match dec_steps (length (c03_ops c)) obs with
  | None => false
  | Some blocks =>
      let st0 := oinit (c03_n c) in
      (* every pull delivers what the source had *)
      replay_C03 st0 (c03_ops c) blocks
      (* the harness reached quiescence: the last two rounds are full rounds of pulls that request nothing *)
      && only_pulls (c03_final c) && full_round (c03_n c) (c03_final c)
      && quiet_blocks (length (c03_final c)) blocks
      (* ... and then every member shows the same rows and the same deletion records *)
      && all_agree (final_sys st0 (c03_ops c) blocks)
      (* ... and the converged content is coherent: no member shows a row together with a deletion
         record that covers it *)
      && (negb (no_regress st0 (c03_ops c) blocks) || forallb coherent (final_sys st0 (c03_ops c) blocks))
  end.

(* classes of histories on which the tree is known to violate the property (known_findings.d/C03.json),
   decided on the model's run of the same history.  Classes 2 (a deletion record removing another
   version than the one it names) and 3 (two deletion records of one row collapsing to one) are fixed
   (ad91329, bb1bffb) and no longer exist in the model; what is left is
   4  a pull did not select every day on which the source holds something the receiver needs
      (history-hash shortcut, C09 class 4) *)
(* 5  a pull ends with the receiver lacking a reference the source shows although it holds both rows and
      no deletion record covering it: references travel only with a row version that passes
      filter_existing, so the references of the LOSING version of a row (concurrent reference changes of
      one row on two peers) and references the receiver removed locally are never offered again *)
Fixpoint run_refs_ok (S : sys) (ops : list sop) : bool :=
  match ops with
  | [] => true
  | o :: rest =>
      let S' := fst (fst (step S o)) in
      (match o with Pull d s _ => refs_delivered (get s S) (get d S') | _ => true end) && run_refs_ok S' rest
  end.
(* 6  a reference deletion record removes only the exactly named version of the reference (same creation
      date): an older version of the same reference, added concurrently on another peer, stays on the peer
      that holds it, below the record — the other members never show it again *)
Definition known_C03 (c : c03case) : list Z :=
  (if run_complete (init_sys (c03_n c)) (c03_ops c) then [] else [4]) ++
  (if run_refs_ok (init_sys (c03_n c)) (c03_ops c) then [] else [5]) ++
  (if run_refs_coherent (init_sys (c03_n c)) (c03_ops c) then [] else [6]).

(* the model's own view of "the last rounds move nothing" (hypothesis of C03_outside_known): the final
   operations are pulls, and every day they select, exchanged with the receiver as it is, requests no
   row and leaves the receiver as it is *)
Definition c03_hist (c : c03case) : list sop := match c with C03Case _ h _ => h end.
Definition c03_quiet (c : c03case) : bool := still (run_sys (init_sys (c03_n c)) (c03_hist c)) (c03_final c).
(* the envelope: creations use ids the peer does not know yet, no local update carries a clock that
   is behind the version it replaces *)
Definition c03_envelope (c : c03case) : bool := negb (run_guard (init_sys (c03_n c)) (c03_ops c)).

Definition eval_C03 (c : c03case) (obs : list Z) : list Z :=
  [zb (zlist_eqb (run_C03 c) obs); zb (spec_C03 c obs)] ++ known_C03 c.
